#!/usr/bin/env python3
"""bin/mutation_sweep.py [--per-func N] [--only ID,...] [--out FILE]

Automated first-order mutants of the functions the properties' anchors name (one operator applied at one
place: a relational or logical operator flipped, a condition negated, a boolean literal flipped). Works in
a scratch git worktree of /repo (never in /repo itself): for each mutant that still builds, the quick
tier of the properties anchored at that function is run against the worktree (VERIF_REPO); for each
mutant no check reports, the repository's own suite is run to see whether it notices. The result table
(seeded/mutation-sweep.json) feeds DESIGN section 9.4. Mutants that survive both are listed for triage:
they are either equivalent, irrelevant to the listed properties, or gaps.
"""
import json, os, random, re, subprocess, sys, time

VERIF = os.path.dirname(os.path.dirname(os.path.abspath(__file__)))
WT = "/tmp/wt-mutsweep"
args = sys.argv[1:]
per_func, only, out = 4, None, os.path.join(VERIF, "seeded", "mutation-sweep.json")
part = (0, 1)
seed = 20260926
while args:
    a = args.pop(0)
    if a == "--per-func":
        per_func = int(args.pop(0))
    elif a == "--only":
        only = set(args.pop(0).split(","))
    elif a == "--out":
        out = args.pop(0)
    elif a == "--seed":
        seed = int(args.pop(0))
    elif a == "--part":  # k/n: every n-th target starting at k (parallel sweeps in separate worktrees)
        k, n = args.pop(0).split("/")
        part = (int(k), int(n))
        WT = "/tmp/wt-mutsweep-%d" % part[0]

# function -> (file, [properties]) from the anchors' mechanism lists (hand-normalised to real paths)
T = [
 ("internal/flight/flight12/flight3handler.go", ["flight3Parse", "handleResumption"], ["C01", "C03", "C04", "C14", "C11", "C02"]),
 ("internal/flight/flight12/flight4handler.go", ["flight4Parse", "flight4Generate"], ["C01", "C03", "C04", "C14", "C11"]),
 ("internal/flight/flight12/flight4bhandler.go", ["flight4bParse"], ["C04", "C14"]),
 ("internal/flight/flight12/flight5handler.go", ["flight5Parse", "initializeCipherSuite"], ["C03", "C04", "C01", "C11"]),
 ("internal/flight/flight12/flight0handler.go", ["flight0Parse", "flight0Generate", "handleHelloResume"], ["C11", "C13", "C14"]),
 ("internal/flight/flight12/flight2handler.go", ["flight2Parse"], ["C13", "C04"]),
 ("internal/negotiation/retry.go", ["ValidateHelloVerifyRequestResponse", "ValidateClientHelloRetry"], ["C13", "C04"]),
 ("internal/handshake/fsm.go", ["handleRetransmitTimeout"], ["C17", "C02", "C13"]),
 ("internal/handshake/fsm12.go", ["wait", "finish"], ["C17", "C02", "C16"]),
 ("internal/handshake/fsm13.go", ["handleReceivedFlight", "transitionAfterACK", "handlePreviousFlightRetransmit"], ["C17", "C02"]),
 ("internal/handshake/protected_flight.go", ["verifyPeerFinished", "processFinished"], ["C03", "C04"]),
 ("internal/handshake/post_handshake.go", ["completePostHandshakeFlight", "handleKeyUpdate", "applyACK"], ["C20"]),
 ("internal/state/traffic_keys.go", ["Install", "ReadCandidates"], ["C20", "C06"]),
 ("internal/fragmentbuffer/fragment_buffer.go", ["Push", "Pop", "AdvanceTo", "pushHandshakeFragments"], ["C12", "C08", "C02"]),
 ("internal/rrc/rrc.go", ["Start", "HandleResponse", "Reserve", "recordReceived"], ["C15"]),
 ("connection_id.go", ["HandleCandidate", "HandleRecord"], ["C15"]),
 ("pkg/crypto/ciphersuite/cbc.go", ["Decrypt", "examinePadding"], ["C05", "C08", "C10"]),
 ("pkg/crypto/ciphersuite/ciphersuite.go", ["generateAEADAdditionalData", "generateAEADAdditionalDataCID", "decrypt", "encrypt"], ["C05", "C10", "C08"]),
 ("pkg/crypto/prf/prf.go", ["PHash", "MasterSecret", "ExtendedMasterSecret", "GenerateEncryptionKeys", "prfVerifyData"], ["C10"]),
 ("state.go", ["serialize", "deserialize", "generateInternalState", "generateState", "ExportKeyingMaterial"], ["C19", "C09", "C07"]),
 ("internal/config/util.go", ["SelectVersion", "SupportedVersionsRange"], ["C11", "C02"]),
 ("pkg/protocol/recordlayer/recordlayer.go", ["UnpackDatagram", "ContentAwareUnpackDatagram"], ["C18", "C08"]),
 ("pkg/protocol/recordlayer/recordlayer_13.go", ["UnpackDatagram13", "unpackCiphertextDatagramRecord"], ["C18", "C08"]),
 ("pkg/protocol/handshake/message_client_hello.go", ["Unmarshal"], ["C18"]),
 ("pkg/protocol/handshake/message_certificate.go", ["Unmarshal"], ["C18"]),
 ("pkg/protocol/ack.go", ["Unmarshal"], ["C18"]),
 ("conn.go", ["prepareLegacyPacket", "legacyReplayMarker", "handleApplicationDataRecord", "protectedReplayMarker"], ["C05", "C06", "C08", "C20"]),
 ("conn.go", ["validateLegacyCID", "validateLegacyCIDPresence", "unmarshalCiphertextRecord"], ["C05", "C15"]),
 ("conn.go", ["openCiphertextRecord", "commitLocalKeyUpdate", "validateNextWriteGeneration"], ["C20", "C06"]),
 ("conn.go", ["nextLocalSequenceNumber", "fragmentHandshake"], ["C09", "C12"]),
 ("conn.go", ["close", "classifyReadLoopError", "notify"], ["C16", "C14"]),
 ("conn.go", ["handleFutureLegacyPacket", "queueIfCipherSuiteUninitialized", "bufferHandshakeRecord"], ["C02", "C08", "C12"]),
]

OPS = [
 (re.compile(r" == "), " != "), (re.compile(r" != "), " == "),
 (re.compile(r" < "), " <= "), (re.compile(r" <= "), " < "), (re.compile(r" > "), " >= "), (re.compile(r" >= "), " > "),
 (re.compile(r" && "), " || "), (re.compile(r" \|\| "), " && "),
 (re.compile(r"\btrue\b"), "false"), (re.compile(r"\bfalse\b"), "true"),
]
NEG = re.compile(r"^(\s*)if ([^;{]+) \{\s*$")


def sh(cmd, cwd=None, env=None, timeout=None):
    p = subprocess.run(cmd, shell=True, cwd=cwd, env=env, stdout=subprocess.PIPE, stderr=subprocess.STDOUT, text=True, timeout=timeout)
    return p.returncode, p.stdout


def func_ranges(lines, names):
    out = []
    i = 0
    while i < len(lines):
        m = re.match(r"^func (\([^)]*\) )?(\w+)\(", lines[i])
        if m and m.group(2) in names:
            j = i
            while j < len(lines) and lines[j].rstrip() != "}":
                j += 1
            out.append((m.group(2), i + 1, j))
            i = j
        i += 1
    return out


def candidates(lines, lo, hi):
    c = []
    for k in range(lo, hi):
        ln = lines[k]
        st = ln.strip()
        if not st or st.startswith("//") or "log." in st or "Errorf" in st or "errors.New" in st or st.startswith("case ") and '"' in st:
            continue
        code = ln.split("//")[0]
        for (rx, rep) in OPS:
            m = rx.search(code)
            if m:
                c.append((k, code[:m.start()] + rep + code[m.end():] + ln[len(code):], "%s->%s" % (m.group(0).strip(), rep.strip())))
        m = NEG.match(ln)
        if m and "err != nil" not in ln and ":=" not in ln:
            c.append((k, "%sif !(%s) {\n" % (m.group(1), m.group(2)), "negate"))
    return c


def main():
    rnd = random.Random(seed)
    sh("git -C /repo worktree remove --force %s" % WT)
    rc, o = sh("git -C /repo worktree add -q --detach %s HEAD" % WT)
    if rc != 0:
        print(o); sys.exit(2)
    results = []
    if os.path.exists(out):
        results = json.load(open(out)).get("mutants", [])
    done = {(r["file"], r["line"], r["op"]) for r in results}
    first = os.path.join(VERIF, "seeded", "mutation-sweep.json")
    for first in (first, os.path.join(VERIF, 'seeded', 'mutation-sweep-2.json')):
      if os.path.exists(first):
          done |= {(r["file"], r["line"], r["op"]) for r in json.load(open(first)).get("mutants", [])}
    env = dict(os.environ, VERIF_REPO=WT, VERIF_EVIDENCE_DIR="/var/tmp/verif-mutsweep-evidence-%d" % part[0], VERIF_CASE_TIMEOUT="60")
    try:
        for (f, names, props) in T[part[0]::part[1]]:
            if only and not (set(props) & only):
                continue
            path = os.path.join(WT, f)
            src = open(path).read()
            lines = src.splitlines(keepends=True)
            for (fn, lo, hi) in func_ranges(lines, names):
                cands = candidates(lines, lo, hi)
                rnd.shuffle(cands)
                for (k, newline, op) in cands[:per_func]:
                    if (f, k + 1, op) in done:
                        continue
                    mut = lines[:k] + [newline if newline.endswith("\n") else newline + "\n"] + lines[k + 1:]
                    open(path, "w").write("".join(mut))
                    rec = {"file": f, "func": fn, "line": k + 1, "op": op, "before": lines[k].strip()[:160], "after": newline.strip()[:160], "checks": {}}
                    rc, o = sh("go build ./... 2>&1 | tail -3", cwd=WT)
                    if rc != 0 or "cannot" in o or "undefined" in o or o.strip():
                        rec["status"] = "does-not-build"
                    else:
                        caught = None
                        for pid in (props if not only else [p for p in props if p in only]):
                            t0 = time.time()
                            try:
                                rc, o = sh("bin/check %s quick" % pid, cwd=VERIF, env=env, timeout=1500)
                            except subprocess.TimeoutExpired:
                                rc, o = 2, "TIMEOUT"
                            sigs = sorted(set(re.findall(r"signature=(\S+)", o)))
                            rec["checks"][pid] = {"exit": rc, "signatures": sigs[:4], "wall_s": round(time.time() - t0, 1)}
                            if rc == 1 and "VIOLATION property=" in o:
                                caught = pid
                                break
                        if caught:
                            rec["status"] = "caught"
                            rec["caught_by"] = caught
                        else:
                            rc, o = sh("go test -mod=mod -vet=off -count=1 -timeout 20m ./... 2>&1 | grep -E '^(FAIL|---|panic)' | head -5", cwd=WT, timeout=1500)
                            rec["suite"] = "fails" if o.strip() else "passes"
                            rec["suite_detail"] = o.strip()[:300]
                            rec["status"] = "missed-suite-catches" if o.strip() else "SURVIVES-BOTH"
                    open(path, "w").write(src)
                    results.append(rec)
                    print("%-22s %-52s:%-5d %-10s %s %s" % (rec["status"], f[-52:], k + 1, op, fn, rec.get("caught_by", "")), flush=True)
                    json.dump({"mutants": results}, open(out, "w"), indent=1)
    finally:
        sh("git -C %s checkout -- ." % WT)
        sh("git -C /repo worktree remove --force %s" % WT)


main()
