# Per-property run configuration for bin/check.
# shards x procs should stay <= 16 cores.
def T(shards=8, procs=2, timeout=600, **kw):
    d = {"shards": shards, "procs": procs, "timeout": timeout}
    d.update(kw)
    return d

CHECKS = {
    "C08": {"pkg": "c08", "level": "exploration", "hang_is_violation": True,
            "quick": T(8, 2, 900), "thorough": T(14, 1, 3000),
            "assumptions": ["absence of crashes is never established; memory is judged by heap growth after GC, not by queue lengths", "'keeps serving' is asserted only when every injected datagram was unparseable or unauthenticatable by construction"]},
    "C04": {"pkg": "c04", "level": "exploration",
            "quick": T(8, 2, 600), "thorough": T(14, 1, 2400),
            "assumptions": ["field-level rewriting needs the target message unfragmented in one record (default MTU, no ML-KEM share); protected handshake records get bit-level corruption under C05"]},
    "C03": {"pkg": "c03", "level": "exploration",
            "quick": T(8, 2, 600), "thorough": T(14, 1, 2400),
            "assumptions": ["deviations are a finite catalogue, not all rogue programs", "the rogue is this library steered through the verif flight hook, so it stays cryptographically competent apart from the deviation"]},
    "C11": {"pkg": "c11", "level": "exploration",
            "quick": T(8, 2, 600), "thorough": T(14, 1, 2400),
            "assumptions": ["policy model written from the documented option semantics; where the documentation is silent the model abstains (class 'unspecified')"]},
    "C07": {"pkg": "c07", "level": "exploration",
            "quick": T(8, 2, 600), "thorough": T(14, 1, 2400),
            "assumptions": ["'not computable from the cleartext' is judged by an executable proxy: inequality with an enumerated family of public-only formulas, equality with the keyed RFC formula (1.2)", "payloads are high-entropy, so a verbatim occurrence inside ciphertext is negligible"]},
    "C10": {"pkg": "c10", "level": "exploration",
            "quick": T(8, 2, 600), "thorough": T(14, 1, 2400),
            "assumptions": ["conformance is to the reference models in harness/lib/ref (written from the RFCs, standard-library primitives); no third-party stack is available offline"]},
    "C20": {"pkg": "c20", "level": "exploration",
            "quick": T(8, 2, 600), "thorough": T(14, 1, 2400),
            "assumptions": ["traffic secrets observed through the verif hook; keys derived by the independent reference", "interleavings of parallel operations are those the scheduler produces in the bubble"]},
    "C15": {"pkg": "c15", "level": "exploration",
            "quick": T(8, 2, 900), "thorough": T(14, 1, 3000),
            "assumptions": ["the mover is an honest pion endpoint; the harness is the network and holds no keys, so responses with forged cookies are not generated", "listener routing runs on real loopback UDP sockets outside the virtual clock, judged without timing"]},
    "C14": {"pkg": "c14", "level": "exploration",
            "quick": T(8, 2, 600), "thorough": T(14, 1, 2400),
            "assumptions": ["DTLS 1.2 only (1.3 tickets are sent but never consumed in this tree)", "store model = the harness-owned recording stores"]},
    "C16": {"pkg": "c16", "level": "exploration", "hang_is_violation": True,
            "quick": T(8, 2, 900, unconfirmed_is_violation=True, race={"shards": 4, "procs": 4, "timeout": 600, "only": "concurrent-api"}),
            "thorough": T(14, 1, 3000, unconfirmed_is_violation=True, race={"shards": 8, "procs": 2, "timeout": 1500, "only": "concurrent-api"}),
            "assumptions": ["placements relative to protocol events and virtual time are generated; goroutine interleavings are whatever the scheduler and repeated runs produce", "error class judged loosely (closed / EOF / net.ErrClosed / context)"]},
    "C19": {"pkg": "c19", "level": "exploration",
            "quick": T(8, 2, 600), "thorough": T(14, 1, 2400),
            "assumptions": ["export points are quiescent points (no Write racing the export)", "a corruption is judged 'semantically intact' by re-decoding the bytes through a gob mirror of the serialised layout"]},
    "C18": {"pkg": "c18", "level": "exploration",
            "quick": T(8, 2, 600), "thorough": T(14, 1, 2400),
            "assumptions": ["equality is structural with nil and empty slices identified", "seed encodings come from genuine traffic decoded by the independent decoder"]},
    "C13": {"pkg": "c13", "level": "exploration",
            "quick": T(8, 2, 600), "thorough": T(14, 1, 2400),
            "assumptions": ["cookie unpredictability is not testable; only what the server emits and when"]},
    "C17": {"pkg": "c17", "level": "exploration",
            "quick": T(8, 2, 600), "thorough": T(14, 1, 2400),
            "assumptions": ["timer law checked at the granularity of emissions on the injected PacketConn, on the virtual clock", "flight intervals above 60 s are not generated"]},
    "C09": {"pkg": "c09", "level": "exploration",
            "quick": T(8, 2, 600), "thorough": T(14, 1, 2400),
            "assumptions": ["emission order = order of WriteTo calls on the injected PacketConn", "interleavings of concurrent writers are whatever the Go scheduler produces inside the bubble"]},
    "C05": {"pkg": "c05", "level": "exploration",
            "quick": T(8, 2, 600), "thorough": T(14, 1, 2400),
            "assumptions": ["forger holds no keys; AEAD/HMAC primitives of the standard library are sound"]},
    "C06": {"pkg": "c06", "level": "exploration",
            "quick": T(8, 2, 600), "thorough": T(14, 1, 2400),
            "assumptions": ["records of one round are written at quiescence so they carry consecutive sequence numbers", "sliding-window model used one-sidedly as the statement is worded"]},
    "C02": {"pkg": "c02", "level": "fault_enumeration",
            "quick": T(8, 2, 900), "thorough": T(14, 1, 3000),
            "assumptions": ["faults never modify bytes", "liveness decided up to a 30 min virtual deadline", "network reliable after the masked prefix"]},
    "C01": {"pkg": "c01", "level": "exploration",
            "quick": T(8, 2, 600), "thorough": T(14, 1, 2400),
            "assumptions": ["both endpoints are this library (agreement, not conformance: see C10)", "virtual clock via testing/synctest; goroutine interleavings are whatever the Go scheduler produces"]},
    "C12": {"pkg": "c12", "level": "exploration",
            "quick": T(8, 2, 300), "thorough": T(14, 1, 1500),
            "assumptions": ["reference reassembler written from RFC 6347 4.2.3; fragments form a partition (overlapping re-partitions are out of the quantifier)"]},
}

# The quick tier is cheap on 16 cores (virtual clock): scale the sampled case counts up so that a
# quick run explores several times the base count. An explicit VERIF_SCALE in the environment wins.
QUICK_SCALE = {"C01": 4, "C03": 4, "C05": 3, "C06": 3, "C07": 4, "C08": 4, "C09": 4, "C10": 4, "C11": 4, "C12": 3,
               "C13": 4, "C14": 4, "C15": 4, "C17": 4, "C18": 3, "C19": 3, "C20": 4, "C04": 2}
for _id, _k in QUICK_SCALE.items():
    CHECKS[_id]["quick"].setdefault("env", {}).setdefault("VERIF_SCALE", str(_k))

# native coverage-guided campaigns (thorough tier only; the oracle is inside the target)
CHECKS["C18"]["thorough"]["fuzz"] = [{"target": "FuzzCodecBytes", "seconds": 40, "parallel": 16},
                                     {"target": "FuzzUnpack", "seconds": 20, "parallel": 16}]
CHECKS["C12"]["thorough"]["fuzz"] = [{"target": "FuzzReassembly", "seconds": 30, "parallel": 16}]
