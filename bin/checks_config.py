# Per-property run configuration for bin/check.
# shards x procs should stay <= 16 cores.
def T(shards=8, procs=2, timeout=600, **kw):
    d = {"shards": shards, "procs": procs, "timeout": timeout}
    d.update(kw)
    return d

CHECKS = {
    "C20": {"pkg": "c20", "level": "exploration",
            "quick": T(8, 2, 600), "thorough": T(14, 1, 2400),
            "assumptions": ["traffic secrets observed through the verif hook; keys derived by the independent reference", "interleavings of parallel operations are those the scheduler produces in the bubble"]},
    "C14": {"pkg": "c14", "level": "exploration",
            "quick": T(8, 2, 600), "thorough": T(14, 1, 2400),
            "assumptions": ["DTLS 1.2 only (1.3 tickets are sent but never consumed in this tree)", "store model = the harness-owned recording stores"]},
    "C16": {"pkg": "c16", "level": "exploration",
            "quick": T(8, 2, 900, unconfirmed_is_violation=True, race={"shards": 4, "procs": 4, "timeout": 600, "only": "concurrent-api"}),
            "thorough": T(14, 1, 3000, unconfirmed_is_violation=True, race={"shards": 8, "procs": 2, "timeout": 1500, "only": "concurrent-api"}),
            "assumptions": ["placements relative to protocol events and virtual time are generated; goroutine interleavings are whatever the scheduler and repeated runs produce", "error class judged loosely (closed / EOF / net.ErrClosed / context)"]},
    "C19": {"pkg": "c19", "level": "exploration",
            "quick": T(8, 2, 600), "thorough": T(14, 1, 2400),
            "assumptions": ["export points are quiescent points (no Write racing the export)", "a corruption is judged 'semantically intact' by re-decoding the bytes through a gob mirror of the serialised layout"]},
    "C18": {"pkg": "c18", "level": "exploration",
            "quick": T(8, 2, 600), "thorough": T(14, 1, 2400),
            "assumptions": ["equality is structural with nil and empty slices identified", "seed encodings come from genuine traffic decoded by the independent decoder"]},
    "C13": {"pkg": "c13", "level": "exploration",
            "quick": T(8, 2, 600), "thorough": T(14, 1, 2400),
            "assumptions": ["cookie unpredictability is not testable; only what the server emits and when"]},
    "C17": {"pkg": "c17", "level": "exploration",
            "quick": T(8, 2, 600), "thorough": T(14, 1, 2400),
            "assumptions": ["timer law checked at the granularity of emissions on the injected PacketConn, on the virtual clock", "flight intervals above 60 s are not generated"]},
    "C09": {"pkg": "c09", "level": "exploration",
            "quick": T(8, 2, 600), "thorough": T(14, 1, 2400),
            "assumptions": ["emission order = order of WriteTo calls on the injected PacketConn", "interleavings of concurrent writers are whatever the Go scheduler produces inside the bubble"]},
    "C05": {"pkg": "c05", "level": "exploration",
            "quick": T(8, 2, 600), "thorough": T(14, 1, 2400),
            "assumptions": ["forger holds no keys; AEAD/HMAC primitives of the standard library are sound"]},
    "C06": {"pkg": "c06", "level": "exploration",
            "quick": T(8, 2, 600), "thorough": T(14, 1, 2400),
            "assumptions": ["records of one round are written at quiescence so they carry consecutive sequence numbers", "sliding-window model used one-sidedly as the statement is worded"]},
    "C02": {"pkg": "c02", "level": "fault_enumeration",
            "quick": T(8, 2, 900), "thorough": T(14, 1, 3000),
            "assumptions": ["faults never modify bytes", "liveness decided up to a 30 min virtual deadline", "network reliable after the masked prefix"]},
    "C01": {"pkg": "c01", "level": "exploration",
            "quick": T(8, 2, 600), "thorough": T(14, 1, 2400),
            "assumptions": ["both endpoints are this library (agreement, not conformance: see C10)", "virtual clock via testing/synctest; goroutine interleavings are whatever the Go scheduler produces"]},
    "C12": {"pkg": "c12", "level": "exploration",
            "quick": T(8, 2, 300), "thorough": T(14, 1, 1500),
            "assumptions": ["reference reassembler written from RFC 6347 4.2.3; fragments form a partition (overlapping re-partitions are out of the quantifier)"]},
}
