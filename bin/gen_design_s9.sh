#!/bin/bash
# regenerates section 9 of DESIGN.md from /verif/seeded/*/meta.json and seeded/fix-reverts.json
exec python3 "$(dirname $0)/gen_design_s9.py"
