#!/usr/bin/env python3
"""Regenerates the measured table of DESIGN.md section 4 from two run_all logs:
   bin/run_all quick > /var/tmp/run_quick.log ; bin/run_all thorough > /var/tmp/run_thorough.log
   python3 bin/gen_design_s4.py /var/tmp/run_quick.log /var/tmp/run_thorough.log"""
import json, os, re, sys
V = os.path.dirname(os.path.dirname(os.path.abspath(__file__)))
def parse(path):
    out = {}
    for l in open(path):
        m = re.match(r"(C\d+) rc=(\d+) (\d+)s C\d+ \w+: (\d+) evaluations, (\d+) distinct non-trivial, ([\d.]+)s", l)
        if m:
            out[m.group(1)] = (int(m.group(4)), int(m.group(5)), int(m.group(3)), int(m.group(2)))
    return out
q, t = parse(sys.argv[1]), parse(sys.argv[2])
def fmt(n):
    if n >= 1_000_000: return "%.1f M" % (n / 1e6)
    if n >= 10_000: return "%d 000" % round(n / 1000)
    return str(n)
rows = []
for pid in sorted(q):
    ev = json.load(open(os.path.join(V, "evidence", pid + ".json")))
    subs = ", ".join(k for k in ev["coverage"]["per_check"] if not k.startswith("value-roundtrip:"))
    nval = sum(1 for k in ev["coverage"]["per_check"] if k.startswith("value-roundtrip:"))
    if nval: subs += ", value-roundtrip x %d" % nval
    ex = ev["coverage"].get("exhaustive_subspaces", {})
    exs = ", ".join("%s (%s)" % (k, fmt(v)) for k, v in ex.items()) or "-"
    fz = ev["coverage"].get("fuzz_campaigns")
    tq, tt = q[pid], t.get(pid, (0, 0, 0, 0))
    extra = ""
    if fz: extra = " + native fuzzing " + ", ".join("%s %ds/%s execs" % (f["target"], f["seconds"], fmt(f.get("execs", 0))) for f in fz)
    rows.append("| %s | %s | %s / %s / %d s | %s / %s / %d s%s | %s |" % (pid, subs, fmt(tq[0]), fmt(tq[1]), tq[2], fmt(tt[0]), fmt(tt[1]), tt[2], extra, exs))
hdr = """## 4. Budgets at a glance (measured on the final machinery, 16 cores, VERIF_SEED=1)

Counts are evaluations (cases, or sub-evaluations where one case judges many mutations/rounds); "distinct"
is the number of distinct non-trivial fingerprints. Quick runs 8 shards x 2 procs, thorough 14 shards.
Wall times include the overlay build (about 1 s warm) and the regression / known-case replays. The
sub-check and exhaustive-subspace columns are read from the evidence files of the last (thorough) run.

| property | sub-checks | quick: evaluations / distinct / wall | thorough: evaluations / distinct / wall | exhaustive sub-spaces (enumerated cases) |
|---|---|---|---|---|
"""
tot_q, tot_t = sum(v[2] for v in q.values()), sum(v[2] for v in t.values())
txt = hdr + "\n".join(rows) + "\n\nThe quick tier of all 20 properties takes about %d s in total, the thorough tier about %d s.\n\n" % (tot_q, tot_t)
s = open(os.path.join(V, "DESIGN.md")).read()
a, b = s.index("## 4. Budgets at a glance"), s.index("## 5. Findings")
open(os.path.join(V, "DESIGN.md"), "w").write(s[:a] + txt + s[b:])
print("section 4 regenerated")
