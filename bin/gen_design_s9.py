import json, os
V='/verif'
out=[]
out.append("## 9. Sensitivity: which check catches which change\n")
out.append("### 9.1 Changes seeded by fresh sub-agents (%d; `/verif/seeded/<id>/`"%len([d for d in os.listdir(V+"/seeded") if os.path.isdir(V+"/seeded/"+d)])+", re-run with `bin/seeded_run`)\n")
out.append("Every change compiles and keeps the repository's own suite green (re-confirmed in a scratch worktree). `caught by` is what `bin/seeded_run quick` recorded on the final machinery; `first run` says whether the check as it stood when the change arrived caught it.\n")
out.append("| id | change (file-level summary) | needs | caught by (quick tier) | first run |")
out.append("|---|---|---|---|---|")
ids=sorted(d for d in os.listdir(V+'/seeded') if os.path.isdir(V+'/seeded/'+d))
missed=[]
for i in ids:
    m=json.load(open(V+'/seeded/%s/meta.json'%i))
    det=m.get('detection',{}).get('quick')
    if det and det['caught']:
        by='; '.join("%s: `%s`"%(k, (v['signatures'] or ['?'])[0][:70].replace('|','\\|')) for k,v in det['by'].items() if v['violation'])
    elif det:
        by='**missed**'; missed.append(i)
    else:
        by='(not yet re-run)'
    first='missed, check strengthened: '+m['history'].split(';')[0][:160] if 'history' in m else 'caught'
    out.append("| %s | %s | %s | %s | %s |"%(i, m['summary'][:170], m['trigger'][:170], by, first))
out.append("")
n_first_missed=sum(1 for i in ids if 'history' in json.load(open(V+'/seeded/%s/meta.json'%i)))
out.append("Of the %d changes, %d were caught by the quick tier as it stood; %d were missed at first and led to the strengthenings recorded above (new generator dimensions, a tighter oracle, or a new sub-check); after that all are caught by the quick tier%s.\n"%(len(ids), len(ids)-n_first_missed, n_first_missed, '' if not missed else ' except '+', '.join(missed)))
out.append("### 9.2 Reverting each repair\n")
out.append("| commit | what the repair is | check | signatures reported when it is reverted |")
out.append("|---|---|---|---|")
fr=json.load(open(V+'/seeded/fix-reverts.json'))
for r in fr['results']:
    out.append("| %s | %s | %s quick | %s |"%(r['commit'], r['subject'].replace('fix: ',''), r['check'], '; '.join('`%s`'%s[:80].replace('|','\\|') for s in r['signatures'][:2])))
out.append("")
txt='\n'.join(out)+'\n'+open(V+'/seeded/own-mutants-c15.md').read()
s=open(V+'/DESIGN.md').read()
a=s.index('## 9. Sensitivity'); b=s.index('## Appendix A')
open(V+'/DESIGN.md','w').write(s[:a]+txt+'\n'+s[b:])
print('section 9 regenerated:', len(ids), 'seeded changes')
