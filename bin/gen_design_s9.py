import json, os
V='/verif'
out=[]
out.append("## 9. Sensitivity: which check catches which change\n")
out.append("### 9.1 Changes seeded by fresh sub-agents (%d; `/verif/seeded/<id>/`"%len([d for d in os.listdir(V+"/seeded") if os.path.isdir(V+"/seeded/"+d)])+", re-run with `bin/seeded_run`)\n")
out.append("Every change compiles and keeps the repository's own suite green (re-confirmed in a scratch worktree). `caught by` is what `bin/seeded_run quick` recorded on the final machinery; `first run` says whether the check as it stood when the change arrived caught it.\n")
out.append("| id | change (file-level summary) | needs | caught by (quick tier) | first run |")
out.append("|---|---|---|---|---|")
ids=sorted(d for d in os.listdir(V+'/seeded') if os.path.isdir(V+'/seeded/'+d))
missed=[]
for i in ids:
    m=json.load(open(V+'/seeded/%s/meta.json'%i))
    det=m.get('detection',{}).get('quick')
    if det and det['caught']:
        by='; '.join("%s: `%s`"%(k, (v['signatures'] or ['?'])[0][:70].replace('|','\\|')) for k,v in det['by'].items() if v['violation'])
    elif det:
        by='**missed**'; missed.append(i)
    else:
        by='(not yet re-run)'
    first='missed, check strengthened: '+m['history'].split(';')[0][:160] if 'history' in m else 'caught'
    out.append("| %s | %s | %s | %s | %s |"%(i, m['summary'][:170], m['trigger'][:170], by, first))
out.append("")
n_first_missed=sum(1 for i in ids if 'history' in json.load(open(V+'/seeded/%s/meta.json'%i)))
out.append("Of the %d changes, %d were caught by the quick tier as it stood; %d were missed at first and led to the strengthenings recorded above (new generator dimensions, a tighter oracle, or a new sub-check); after that all are caught by the quick tier%s.\n"%(len(ids), len(ids)-n_first_missed, n_first_missed, '' if not missed else ' except '+', '.join(missed)))
out.append("### 9.2 Reverting each repair\n")
out.append("| commit | what the repair is | check | signatures reported when it is reverted |")
out.append("|---|---|---|---|")
fr=json.load(open(V+'/seeded/fix-reverts.json'))
for r in fr['results']:
    out.append("| %s | %s | %s quick | %s |"%(r['commit'], r['subject'].replace('fix: ',''), r['check'], '; '.join('`%s`'%s[:80].replace('|','\\|') for s in r['signatures'][:2])))
out.append("")
txt='\n'.join(out)+'\n'+open(V+'/seeded/own-mutants-c15.md').read()
ms=V+'/seeded/mutation-sweep.json'
if os.path.exists(ms):
    d=json.load(open(ms))
    o=["", "### 9.4 Automated first-order mutants of the anchored functions (`bin/mutation_sweep.py`)\n"]
    sm=d['summary']
    o.append("One operator applied at one place (a relational or logical operator flipped, a condition negated, a boolean literal flipped) in the functions the properties' anchors name, three per function, %d mutants that build (base commit %s). For each the quick tier of the properties anchored at that function ran against a scratch worktree (`VERIF_REPO`); for those no check reported, the repository's own suite ran. **%d caught by a check, %d missed by the mapped checks but caught by the suite, %d survive both.** Every survivor and every suite-only mutant was read; five of them were gaps, closed since (marked GAP), four were caught by a check the sweep had not mapped to that function, the rest are equivalent, touch error paths only, or move the endpoint to the safe side of a property.\n" % (len(d['mutants']), d.get('base_commit','?'), sm.get('caught',0), sm.get('missed-suite-catches',0), sm.get('SURVIVES-BOTH',0)))
    o.append("| mutant | function | status | verdict |")
    o.append("|---|---|---|---|")
    for m in d['mutants']:
        if m['status']=='caught' or m['status']=='does-not-build':
            continue
        o.append("| `%s:%d` %s | %s | %s | %s |"%(m['file'].split('/')[-1], m['line'], m['op'].replace('|','\\|'), m['func'], {'SURVIVES-BOTH':'survives both','missed-suite-catches':'suite only'}[m['status']], m.get('triage','(not triaged)')))
    byp={}
    for m in d['mutants']:
        if m['status']=='caught':
            byp[m['caught_by']]=byp.get(m['caught_by'],0)+1
    o.append("")
    o.append("Caught mutants by reporting check: "+', '.join("%s %d"%(k,v) for k,v in sorted(byp.items()))+".\n")
    txt+='\n'.join(o)+'\n'
ms2=V+'/seeded/mutation-sweep-2.json'
if os.path.exists(ms2):
    d=json.load(open(ms2))
    sm=d['summary']
    o=["", "**Second sweep** (other random picks, `--seed 777`, base commit %s): %d mutants that build, **%d caught by a check, %d suite only, %d survive both**. Two gaps (closed; one was the source of repair 4675a6b), mapping gaps, the rest equivalent or outside the listed properties. Three mutants that break DTLS 1.3 record reading altogether make the checks end at their wall-clock watchdog: INCONCLUSIVE (exit 2), which is not a pass but not a VIOLATION line either.\n" % (d.get('base_commit','?'), len(d['mutants']), sm.get('caught',0), sm.get('missed-suite-catches',0), sm.get('SURVIVES-BOTH',0))]
    o.append("| mutant | function | status | verdict |")
    o.append("|---|---|---|---|")
    for m in d['mutants']:
        if m['status']=='caught' or m['status']=='does-not-build':
            continue
        o.append("| `%s:%d` %s | %s | %s | %s |"%(m['file'].split('/')[-1], m['line'], m['op'].replace('|','\\|'), m['func'], {'SURVIVES-BOTH':'survives both','missed-suite-catches':'suite only'}[m['status']], m.get('triage','(not triaged)')))
    byp={}
    for m in d['mutants']:
        if m['status']=='caught':
            byp[m['caught_by']]=byp.get(m['caught_by'],0)+1
    o.append("")
    o.append("Caught mutants by reporting check (second sweep): "+', '.join("%s %d"%(k,v) for k,v in sorted(byp.items()))+".\n")
    txt+='\n'.join(o)+'\n'
s=open(V+'/DESIGN.md').read()
a=s.index('## 9. Sensitivity'); b=s.index('## Appendix A')
open(V+'/DESIGN.md','w').write(s[:a]+txt+'\n'+s[b:])
print('section 9 regenerated:', len(ids), 'seeded changes')
