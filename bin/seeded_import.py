#!/usr/bin/env python3
"""seeded_import.py <ID> <N> <summary> <trigger> [checks...]: copy a confirmed sub-agent change from its scratch worktree into /verif/seeded/<ID>-mut<N>/"""
import json, os, shutil, sys, subprocess
pid, n, summary, trigger = sys.argv[1:5]
checks = sys.argv[5:] or [pid]
src = "/tmp/wt-%s/seeded" % pid
dst = "/verif/seeded/%s-mut%s" % (pid, n)
os.makedirs(dst, exist_ok=True)
shutil.copy(os.path.join(src, "mut%s.diff" % n), os.path.join(dst, "patch.diff"))
# demo files are stored with a .txt suffix so that no go tool ever compiles them in place
for f in sorted(os.listdir(src)):
    if f.startswith("mut%s_demo" % n) and f.endswith(".go"):
        shutil.copy(os.path.join(src, f), os.path.join(dst, f + ".txt"))
if os.path.exists(os.path.join(src, "mut%s.md" % n)):
    shutil.copy(os.path.join(src, "mut%s.md" % n), os.path.join(dst, "demo.md"))
conf = {}
cp = "/var/tmp/confirm/%s-mut%s/summary" % (pid, n)
if os.path.exists(cp):
    conf["confirmation_log"] = open(cp).read().split("\n")
files = subprocess.run(["git", "apply", "--numstat", os.path.join(dst, "patch.diff")], cwd="/repo", stdout=subprocess.PIPE, text=True).stdout.split("\n")
meta = {
    "id": "%s-mut%s" % (pid, n), "property": pid,
    "origin": "fresh sub-agent given only the property text and a scratch worktree",
    "base_commit": subprocess.run(["git", "-C", "/repo", "rev-parse", "--short", "HEAD"], stdout=subprocess.PIPE, text=True).stdout.strip(),
    "summary": summary, "trigger": trigger,
    "files": [l.split("\t")[-1] for l in files if l.strip()],
    "confirmed": {"compiles": True, "existing_suite_passes_with_change": True, "demo_fails_with_change": True, "demo_passes_without_change": True,
                  "how": "re-run by the main session in its own scratch worktree (apply, go build, demo with/without, full suite)", **conf},
    "checks": checks,
}
old = os.path.join(dst, "meta.json")
if os.path.exists(old):
    o = json.load(open(old))
    for k in ("detection", "history"):
        if k in o:
            meta[k] = o[k]
json.dump(meta, open(old, "w"), indent=1)
print("imported", dst)
