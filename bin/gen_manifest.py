#!/usr/bin/env python3
"""Regenerates /verif/MANIFEST.json from the check registry below (keeps it valid at all times)."""
import json, os, sys
VERIF = os.path.dirname(os.path.dirname(os.path.abspath(__file__)))
sys.path.insert(0, os.path.join(VERIF, "bin"))
from checks_config import CHECKS

TEXT = {
 "C01": ("exploration", "rapid-generated option pairs (built around an intended agreement) x fault masks x payloads; every negotiated output compared on both sides and on the wire whenever both succeed",
         "both endpoints are this library; agreement, not RFC conformance (C10); schedules = delivery order on the virtual network, goroutine interleavings not controlled",
         "property-based testing (rapid) over configuration pairs and fault masks, virtual clock (testing/synctest), oracle = field-by-field agreement + wire inspection"),
 "C02": ("fault_enumeration", "exhaustive drop masks over the first 4 (thorough 6) datagrams of each direction, all-kind masks over the first 2 (thorough 3), every single loss under 5 asymmetric (client, server) flight intervals x backoff on/off, for 14 handshake variants; sampled masks (N<=12, random intervals, dual-stack variants) beyond; the empty fault set over generated compatible option pairs (several server certificates selected by name, client-certificate callbacks, one-sided stores, option order, resumption); completion + virtual-time bound + data exchange",
         "faults never modify bytes; liveness decided up to a 30 min virtual deadline; failures are minimised to a content-targeted fault plan for root-cause signatures",
         "exhaustive fault-mask enumeration + rapid sampling on a virtual network and clock; oracle = both succeed within the retransmission-schedule bound"),
 "C03": ("exploration", "policy (6 client-auth modes, roots, server name, custom verifiers, PSK) x rogue deviation (no/foreign/expired/wrong-name certificate, signature by another key or over other bytes, missing CertificateVerify, wrong PSK, dropped messages, a handshake abandoned after the ClientKeyExchange and then resumed, an ACK instead of the final 1.3 flight, IP-literal and underscore server names) enumerated and sampled for both versions; the rogue is this library steered through the flight rewrite hook",
         "deviations are a finite catalogue; each cell is paired with an honest control that must succeed, so 'rejected' is not vacuous",
         "enumerated policy x deviation grid + rapid sampling through a build-tagged flight hook; oracle = no side whose policy was not met reports success (control cell must succeed)"),
 "C04": ("exploration", "persistent man in the middle rewriting one handshake message on the wire (by message kind and occurrence: suite list edits, extension byte/drop/add, randoms, session id, key share, cookie, certificate bytes, random byte) for 1.2/1.3, full/PSK/resumed/client-auth, EMS on/off/required by the server, with and without connection IDs offered; forged Finished grid (verify_data bit flips, stale, from other transcript)",
         "field-level rewriting needs the target message unfragmented in one epoch-0 record; protected handshake records get bit-level corruption under C05",
         "enumerated MITM rewrite grid + rapid sampling on a virtual network; oracle = no endpoint that sent or received an altered message reports success; unaltered control must succeed"),
 "C07": ("exploration", "sessions over all suites/versions with marker payloads and marker-bearing handshake fields; every emitted datagram scanned for clear-text markers, Finished verify_data, 1.3 post-ServerHello messages and key updates (records must not open under keys derived from public constants); unprotected application-data injection; exporter also judged on an imported connection; exporter outputs compared against values computable from public data",
         "markers detect verbatim leaks only; 'computable from public data' checked against a catalogue of public-input derivations, not all functions",
         "property-based testing (rapid) with wire scanning via the independent decoder; oracle = marker absence, epoch>0 for application data, injected clear-text never delivered, exporter not derivable from hellos"),
 "C08": ("exploration", "unauthenticated injection bursts (structured record/handshake/fragment generators, mutated genuine datagrams, junk) at every handshake trigger point for 1.2/1.3 client and server; correctly protected but malformed records from the authenticated peer built with the reference record layer (all suites incl. CBC padding grid, 1.3 post-handshake types); floods (future epochs, fragments, whole messages, plaintext ACKs) with heap measurement, after which an established connection must still deliver data",
         "absence of crashes is never established; memory judged by heap growth after GC; 'keeps serving' asserted only when every injected datagram was unparseable or unauthenticatable by construction",
         "structured fuzzing through rapid generators + enumerated grids against live endpoints in a synctest bubble; oracle = no panic, no hang (wall watchdog reproduced on replay), no datagram storm, bounded heap, handshake and data still succeed"),
 "C10": ("exploration", "reference implementations written from the RFCs (PRF, EMS, key block, verify_data, exporters, GCM/CCM/ChaCha/CBC records with RFC 9146 CID layouts, HKDF-Expand-Label, traffic keys, sequence-number masking, 1.3 AEAD) compared with the library on generated inputs, and a passive decoder that must decrypt, verify both Finished and reproduce the exporter of live sessions from the key log / secret hook alone (each side's key log separately, resumed sessions, later 1.3 generations derived by the decoder itself); records re-protected by a translator with the header layouts this library never writes (8-bit sequence number, no length) must be accepted",
         "reference and library share crypto/aes, sha256, x/crypto chacha20poly1305 primitives; CCM and HKDF are re-implemented; RFC test vectors pin the references",
         "differential property-based testing (rapid) against independent RFC reference implementations + live-session passive decoding; oracle = byte equality"),
 "C11": ("exploration", "generated client/server policies (version ranges, suite lists, key types, curves, signature schemes, SRTP, ALPN, EMS modes, PSK hints, certificates of several key types selected by name, option order, verifying clients, client authentication, certificate-signature-scheme lists on either side) run live; scripted DTLS 1.0-only hello against every server version range; negotiated outputs compared with a policy model; failure must come with an alert and no silent downgrade",
         "policy model written from documented option semantics; where documentation is silent the model abstains (class 'unspecified')",
         "property-based testing (rapid) over policy pairs against a negotiation model on a virtual network; oracle = every negotiated parameter inside both policies and highest common version"),
 "C05": ("exploration", "every suite x CID layout x direction: held genuine records, generated forgeries (all header/edge bit flips, field neighbour values, truncations, extensions, cross-session splices incl. a second resumption of the same stored session under deterministic hello randoms, recombinations, records protected under keys derived from public values) must vanish without effect and the genuine record must still be delivered once",
         "forger holds no keys; soundness of the AEAD/HMAC primitives assumed",
         "property-based testing (rapid) + exhaustive mutation grid per suite; oracle = vanish without effect (no read, no emission, no error, connection open) then genuine record accepted"),
 "C06": ("exploration", "arrival sequences with repetitions over captured records, all short sequences enumerated for windows 1..3, sampled long ones aimed at the window edge for windows up to 1000; for DTLS 1.3 up to 8 key updates between rounds with late duplicates of datagrams read under earlier epochs; receiver optionally exported/imported with its window option; application data overtaking the final handshake flight; arrival sequences across the wrap of DTLS 1.3's 16 transmitted sequence-number bits (65 511 records first)",
         "records of a round carry consecutive sequence numbers (written at quiescence); model used one-sidedly as the statement is worded",
         "exhaustive enumeration of short arrival sequences + rapid sampling; oracle = sliding-window reference model"),
 "C09": ("exploration", "sessions with concurrent writers, forced handshake retransmissions, alerts, 1.3 key updates, export/import seams and counters rewritten to 2^48-j; sequence numbers read off the wire (1.3 via independent decoder) must strictly increase per epoch",
         "emission order = order of WriteTo calls on the injected PacketConn; goroutine interleavings are those the scheduler produces",
         "property-based testing (rapid) of operation schedules; oracle = strict monotonicity invariant over the tapped history"),
 "C12": ("exploration", "generated partitions/permutations of handshake fragments against a byte-level reference reassembler; small space (2 messages, len<=3/4) enumerated exhaustively; long sessions (150..420 multi-fragment messages through one buffer); overlapping / gapped fragment ranges (safety half); sender side: live handshakes at every MTU 24..900, no fragment larger than the MTU; records of a flight delivered in permuted order inside a live connection must complete at virtual time 0",
         "trusted: reference reassembler in harness/c12; liveness (every message surfaces) is asserted only when the fragments tile every message",
         "property-based testing (rapid) + exhaustive small-space enumeration against a reference model; native coverage-guided fuzzing (thorough); live-connection grids on a virtual network"),
 "C13": ("exploration", "raw client built by byte surgery on a genuine ClientHello: sequences of second hellos (cookie variant x body alteration x repetition x virtual-time gap x fragmentation), both versions, incl. a HelloRetryRequest that selects a group and a pre_shared_key only the second hello has; grid of cookie x alteration enumerated",
         "cookie unpredictability not testable; judged on what the server emits and at which virtual instants",
         "property-based testing (rapid) + enumerated grid against a live server on a virtual clock; oracle = only cookie requests/alerts, only at receipt instants, bounded bytes, until the exact echo"),
 "C17": ("exploration", "endpoint observed against a scripted peer (silence from every flight boundary, new flight after b rungs, stale replays, junk) for both roles, 7 variants, intervals 1 ms..60 s, backoff on/off; emission instants compared exactly with the schedule on virtual time",
         "timer law checked at the granularity of emissions on the injected PacketConn; DTLS 1.3 under stale replays judged by the weak law only",
         "property-based testing (rapid) + enumerated silence grid on a virtual clock; oracle = exact retransmission-schedule model"),
 "C14": ("exploration", "histories of <=12 actions over recording client/server session stores (connects with fault masks/EMS/suites/CID, overlapping connects, store mutations, provoked fatal alerts, export/import of a side before the alert, an alert raced with a stalled resumption); stores keep the slices they are given; invariant after every step",
         "DTLS 1.2 only (1.3 tickets are never consumed in this tree); store model = harness stores; Finished-forgery in the abbreviated handshake is covered under C04",
         "stateful property-based testing (rapid action sequences) against a session-store model on a virtual network/clock"),
 "C15": ("exploration", "sessions for every pair of connection-ID lengths (absent, send-only, zero, 1..20) x version x return-routability on/off (extension stripped through the flight hook) x observed side; the honest peer's datagrams are captured and delivered with generated source addresses, order and delay (authentic newest / stale / replayed / ID-damaged records from new addresses, timely / late / misdirected / duplicated / held path responses, racing candidates, writes while validation is pending); rrc.Manager additionally driven by generated operation histories against a cumulative model; listener routing over real loopback sockets (rebinding, another client's socket, junk, oversized datagrams, a plaintext record in front of the ID record, fragmenting server MTU)",
         "the peer is an honest pion endpoint and the harness holds no keys (no forged cookies); listener sub-check uses real time with repeated writes, a payload nobody reads within 3 s of repeats counts as not routed and must reproduce on replay",
         "property-based testing (rapid) + enumerated scenario grid on a virtual network/clock with a passive decoder; model-based testing of the path manager; oracle = address changes only after a valid timely response from the challenged address, challenge only after an authentic newest ID-bearing record, bytes to unvalidated address <= 3x received, peer ID on every protected record, routing by ID"),
 "C16": ("exploration", "Close placed at every datagram-count event / virtual instant / after establishment for 7 variants, 1..4 concurrent closers, 1..3 calls each, pending Handshake/Read/Write/UpdateKeys; close_notify counted with the independent decoder; goroutine-leak scan; concurrent API op lists also run under the race detector; deadlines at exact virtual instants",
         "goroutine interleavings are those the scheduler, repetition and the race detector reach; pending calls during a handshake that needs timers are not generated (a goroutine parked on the handshake mutex blocks synctest's virtual clock)",
         "property-based testing (rapid) + enumerated placement grid in a synctest bubble, race-detector build for the concurrent-API scenarios; oracle = lifecycle invariants over recorded calls and tapped alerts"),
 "C18": ("exploration", "~70 codecs: seed encodings harvested from genuine 1.2/1.3 traffic via the independent decoder, mutated (every truncation and single-byte change swept, extensions, random, structure-aware cuts that repair the spanning length prefix); inputs beyond 65536 bytes with maximal length fields; rapid.Make value round trips; decode isolation (a later decode must not change an earlier value); datagram partition by the three unpackers",
         "equality structural with nil/empty slices identified; values restricted to the wire-representable domain by per-codec predicates; decoders that drop unknown enum members are judged on canonical re-encoding only",
         "property-based testing (rapid, constructive value generators) + exhaustive mutation sweep + native coverage-guided fuzzing of the decoders and datagram splitters in the thorough tier; oracles = round trip, canonical fixed point, declared-length rules, exact partition"),
 "C19": ("exploration", "DTLS 1.2 sessions over 13 suites x CID/SRTP/ALPN/EMS/PSK, traffic prefix up to 50 records each way, export on client/server/both, optional second export, three orders of the API calls (serialise first, close first, another state serialised meanwhile), resumption from a new address; corruption of the serialised bytes (bit, every truncation, field-aware edits, random)",
         "export points are quiescent points; corruption judged 'key material intact' by re-decoding through a gob mirror",
         "property-based testing (rapid) + enumerated corruption grid; oracle = parameters/exporter unchanged, data both ways exactly once, sequence numbers monotone across the seam; corrupted state rejected or unable to authenticate, never a panic"),
 "C20": ("exploration", "1.3 sessions with generated operation lists for both sides (UpdateKeys with/without request, write bursts, idle, parallel goroutines) under fault scripts on post-handshake datagrams, total ACK starvation, forged unprotected ACK records and a lost NewSessionTicket; epochs that carried more than 2^16 records; judged on the decrypted tap",
         "traffic secrets observed through the verif hook, keys derived by the reference implementation; epoch overflow not reached",
         "property-based testing (rapid) of operation schedules with fault injection; oracle = ACK-before-success, exactly-once payload multiset, epoch monotonicity, traffic-update successor law via independent decoder"),
}

def main():
    props = [json.loads(l) for l in open(os.path.join(VERIF, "properties.jsonl"))]
    old = {}
    try:
        old = json.load(open(os.path.join(VERIF, "MANIFEST.json")))
    except Exception:
        pass
    claimed = [p for p in sorted(CHECKS) if p in TEXT]
    man = {
        "version": 1,
        "setup_cmd": "bin/setup",
        "hooks": {
            "guard": "verif",
            "enable": "go1.26.8 test -c -tags verif -overlay=<harness overlay> -modfile=<alt.mod> ./internal/zzverif/<pkg> (see bin/check build())",
            "baseline_off_cmd": "cd /repo && go test -mod=mod -vet=off -count=1 -timeout 25m ./...",
            "source_commits": (old.get("hooks") or {}).get("source_commits", []),
            "add_only": True,
        },
        "engines": [{"name": "pbt-driver", "path": "bin/check", "serves_properties": claimed,
                     "kind_free_text": "python driver: overlay build of the harness packages into the pion/dtls module (go1.26.8, testing/synctest virtual clock), sharded rapid v1.3.0 runs + deterministic enumerations + native go fuzzing, evidence merge, known-findings protocol, replay"}],
        "checks": [], "not_applicable": [],
        "notes": "All checks: bin/check <ID> <quick|thorough>; replay: bin/check <ID> quick --replay <file>. Known findings: known_findings.json. Design: DESIGN.md.",
    }
    for pid in claimed:
        lvl, text, note, tech = TEXT[pid]
        man["checks"].append({
            "property_id": pid, "quick_cmd": "bin/check %s quick" % pid, "thorough_cmd": "bin/check %s thorough" % pid,
            "evidence_file": "evidence/%s.json" % pid, "replay_cmd_template": "bin/check %s quick --replay {path}" % pid,
            "engine": "pbt-driver",
            "level_claimed": {"category": lvl, "text": text, "design_ref": "DESIGN.md section 3, %s" % pid},
            "level_note": note, "technique": tech})
    for p in props:
        if p["id"] not in claimed:
            man["not_applicable"].append({"property_id": p["id"], "reason": "generated check not built yet (work in progress; DESIGN.md section 3 describes it); the technique applies"})
    json.dump(man, open(os.path.join(VERIF, "MANIFEST.json"), "w"), indent=1)
    print("claimed:", claimed)

main()
