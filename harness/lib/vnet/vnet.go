// Package vnet is a harness-owned datagram network: in-memory net.PacketConn endpoints joined
// by a link whose every decision (drop, duplicate, swap, hold, rewrite, source rewrite,
// injection) comes from the generated case, with a tap recording every emission. It is meant
// to be used inside a testing/synctest bubble so that time is virtual.
package vnet

import (
	"errors"
	"net"
	"os"
	"strconv"
	"sync"
	"sync/atomic"
	"time"
)

// Addr is a symbolic network address.
type Addr string

// Network implements net.Addr.
func (a Addr) Network() string { return "vnet" }
func (a Addr) String() string  { return string(a) }

// Fault kinds.
const (
	Pass = 0
	Drop = 1
	Dup  = 2
	Swap = 3 // hold until the next datagram of the same direction was sent, deliver after it
	Hold = 4 // hold until datagram index Until of the same direction was sent, deliver after it
)

// Fault is the fate of one datagram (by index within its direction).
type Fault struct {
	Kind  int `json:"k"`
	Until int `json:"u,omitempty"`
}

// Event is one emission seen by the tap.
type Event struct {
	T       time.Duration // virtual time since the network was created
	From    string
	To      string
	Dir     int // index of the (From,To) pair in order of first appearance is not stable; use From/To. Dir: 0 = from endpoint A ("C"), 1 = otherwise
	Idx     int // index among the emissions of this sender towards this destination
	Data    []byte
	Verdict string // pass, drop, dup, swap, hold, rewritten, blocked
	Src     string // apparent source address delivered to the receiver
}

type dgram struct {
	data []byte
	from Addr
}

// Net is the virtual network.
type Net struct {
	mu       sync.Mutex
	overflow atomic.Int64
	start    time.Time
	eps      map[string]*Endpoint
	Tap      []Event

	// Faults[from] is the per-index fault list for datagrams sent by endpoint `from`.
	Faults map[string][]Fault
	// Mangle, if set, may replace a datagram before faults are applied: return nil to keep it,
	// an empty non-nil slice to delete it, or replacement datagrams.
	Mangle func(ev *Event) [][]byte
	// SrcRewrite, if set, returns the apparent source address for a datagram ("" = real).
	SrcRewrite func(ev *Event) string
	// FaultFn, if set, decides the fate of a datagram dynamically (overrides Faults when it
	// returns non-nil). It runs under the network lock and must not call back into the Net.
	FaultFn func(ev *Event) *Fault
	// Blocked[from] = true silently discards everything sent by that endpoint.
	Blocked map[string]bool
	// Redirect maps a destination address to the endpoint address that really receives it.
	Redirect map[string]string

	// MaxHold bounds how long a held (swap/hold) datagram is delayed when no later datagram
	// of its direction releases it: a delay is finite by definition. Default 2.5 s virtual.
	MaxHold time.Duration
	heldSeq int

	// MaxEvents bounds the tap (default 20000 emissions): beyond it nothing is delivered any more
	// and Stormed is set, so that a ping-pong that never lets virtual time advance ends.
	MaxEvents int
	Stormed   bool

	counts   map[string]int
	held     map[string][]heldDgram
	watchers []*watcher
	effFault int
}

type heldDgram struct {
	until int
	to    string
	d     dgram
	id    int
}

type watcher struct {
	from string
	n    int
	ch   chan struct{}
}

var defaultMaxEvents = func() int {
	if v, err := strconv.Atoi(os.Getenv("VERIF_VNET_MAXEVENTS")); err == nil && v > 0 {
		return v
	}

	return 300000
}()

// New creates a network; call inside the bubble.
func New() *Net {
	return &Net{
		start: time.Now(), eps: map[string]*Endpoint{}, Faults: map[string][]Fault{},
		Blocked: map[string]bool{}, Redirect: map[string]string{}, counts: map[string]int{}, held: map[string][]heldDgram{},
	}
}

// Now returns the virtual time since creation.
func (n *Net) Now() time.Duration { return time.Since(n.start) }

// Endpoint creates (or returns) the endpoint bound to addr.
func (n *Net) Endpoint(addr string) *Endpoint {
	n.mu.Lock()
	defer n.mu.Unlock()
	if e, ok := n.eps[addr]; ok {
		return e
	}
	e := &Endpoint{net: n, addr: Addr(addr), inbox: make(chan dgram, 8192), closed: make(chan struct{})}
	e.rd.init()
	n.eps[addr] = e

	return e
}

// Rebind replaces the endpoint bound to addr by a fresh one (the old one keeps existing but no
// longer receives).
func (n *Net) Rebind(addr string) *Endpoint {
	n.mu.Lock()
	delete(n.eps, addr)
	n.mu.Unlock()

	return n.Endpoint(addr)
}

// EffectiveFaults returns the number of non-pass faults that hit a datagram really sent.
func (n *Net) EffectiveFaults() int {
	n.mu.Lock()
	defer n.mu.Unlock()

	return n.effFault
}

// Sent returns how many datagrams `from` has emitted so far.
func (n *Net) Sent(from string) int {
	n.mu.Lock()
	defer n.mu.Unlock()

	return n.counts[from]
}

// WaitSent returns a channel closed once `from` has emitted at least k datagrams.
func (n *Net) WaitSent(from string, k int) <-chan struct{} {
	n.mu.Lock()
	defer n.mu.Unlock()
	ch := make(chan struct{})
	if n.counts[from] >= k {
		close(ch)

		return ch
	}
	n.watchers = append(n.watchers, &watcher{from, k, ch})

	return ch
}

// DropTap forgets the recorded emissions (memory measurements).
func (n *Net) DropTap() {
	n.mu.Lock()
	n.Tap = nil
	n.mu.Unlock()
}

// Events returns a copy of the tap.
func (n *Net) Events() []Event {
	n.mu.Lock()
	defer n.mu.Unlock()

	return append([]Event(nil), n.Tap...)
}

// EventsFrom returns the tap entries emitted by `from`.
func (n *Net) EventsFrom(from string) []Event {
	var out []Event
	for _, e := range n.Events() {
		if e.From == from {
			out = append(out, e)
		}
	}

	return out
}

// Inject delivers a harness-made datagram to `to`, apparently from `src`. It is recorded on the
// tap with From "inject:"+src.
func (n *Net) Inject(src, to string, data []byte) {
	n.mu.Lock()
	n.Tap = append(n.Tap, Event{T: time.Since(n.start), From: "inject:" + src, To: to, Data: append([]byte(nil), data...), Verdict: "inject", Src: src})
	e := n.eps[n.resolve(to)]
	n.mu.Unlock()
	if e != nil {
		e.deliver(dgram{append([]byte(nil), data...), Addr(src)})
	}
}

func (n *Net) resolve(to string) string {
	if r, ok := n.Redirect[to]; ok {
		return r
	}

	return to
}

func (n *Net) releaseID(key string, id int) {
	n.mu.Lock()
	var found *heldDgram
	hs := n.held[key]
	for i := range hs {
		if hs[i].id == id {
			h := hs[i]
			found = &h
			n.held[key] = append(append([]heldDgram(nil), hs[:i]...), hs[i+1:]...)

			break
		}
	}
	var ep *Endpoint
	if found != nil {
		ep = n.eps[n.resolve(found.to)]
	}
	n.mu.Unlock()
	if found != nil && ep != nil {
		ep.deliver(found.d)
	}
}

// FlushHeld releases every held datagram now.
func (n *Net) FlushHeld() {
	n.mu.Lock()
	var out []heldDgram
	for k, hs := range n.held {
		out = append(out, hs...)
		delete(n.held, k)
	}
	eps := make([]*Endpoint, len(out))
	for i, h := range out {
		eps[i] = n.eps[n.resolve(h.to)]
	}
	n.mu.Unlock()
	for i, h := range out {
		if eps[i] != nil {
			eps[i].deliver(h.d)
		}
	}
}

func (n *Net) send(from Addr, to string, data []byte) {
	type delivery struct {
		ep *Endpoint
		d  dgram
	}
	var dl []delivery
	n.mu.Lock()
	key := string(from)
	idx := n.counts[key]
	n.counts[key] = idx + 1
	dir := 1
	if from == "C" {
		dir = 0
	}
	ev := Event{T: time.Since(n.start), From: key, To: to, Dir: dir, Idx: idx, Data: data, Verdict: "pass", Src: key}
	payloads := [][]byte{data}
	maxEv := n.MaxEvents
	if maxEv <= 0 {
		maxEv = defaultMaxEvents
	}
	if len(n.Tap) >= maxEv {
		n.Stormed = true
		n.mu.Unlock()

		return
	}
	if n.Blocked[key] {
		ev.Verdict = "blocked"
		payloads = nil
	} else if n.Mangle != nil {
		if rep := n.Mangle(&ev); rep != nil {
			payloads = rep
			ev.Verdict = "rewritten"
		}
	}
	if n.SrcRewrite != nil {
		if s := n.SrcRewrite(&ev); s != "" {
			ev.Src = s
		}
	}
	f := Fault{}
	if fl := n.Faults[key]; idx < len(fl) {
		f = fl[idx]
	}
	if n.FaultFn != nil && payloads != nil {
		if ff := n.FaultFn(&ev); ff != nil {
			f = *ff
		}
	}
	dst := n.eps[n.resolve(to)]
	mk := func(p []byte) dgram { return dgram{append([]byte(nil), p...), Addr(ev.Src)} }
	if payloads != nil {
		switch f.Kind {
		case Drop:
			ev.Verdict += "+drop"
			n.effFault++
		case Dup:
			ev.Verdict += "+dup"
			n.effFault++
			for _, p := range payloads {
				dl = append(dl, delivery{dst, mk(p)}, delivery{dst, mk(p)})
			}
		case Swap, Hold:
			until := idx + 1
			if f.Kind == Hold && f.Until > idx {
				until = f.Until
			}
			ev.Verdict += "+hold"
			n.effFault++
			for _, p := range payloads {
				n.heldSeq++
				id := n.heldSeq
				n.held[key] = append(n.held[key], heldDgram{until, to, mk(p), id})
				mh := n.MaxHold
				if mh <= 0 {
					mh = 2500 * time.Millisecond
				}
				time.AfterFunc(mh, func() { n.releaseID(key, id) })
			}
		default:
			for _, p := range payloads {
				dl = append(dl, delivery{dst, mk(p)})
			}
		}
	}
	// release held datagrams of this direction whose release index has now been sent
	if hs := n.held[key]; len(hs) > 0 && f.Kind != Swap && f.Kind != Hold {
		var keep []heldDgram
		for _, h := range hs {
			if h.until <= idx {
				dl = append(dl, delivery{n.eps[n.resolve(h.to)], h.d})
			} else {
				keep = append(keep, h)
			}
		}
		n.held[key] = keep
	}
	n.Tap = append(n.Tap, ev)
	var fire []*watcher
	kept := n.watchers[:0]
	for _, w := range n.watchers {
		if w.from == key && n.counts[key] >= w.n {
			fire = append(fire, w)
		} else {
			kept = append(kept, w)
		}
	}
	n.watchers = kept
	n.mu.Unlock()
	for _, d := range dl {
		if d.ep != nil {
			d.ep.deliver(d.d)
		}
	}
	for _, w := range fire {
		close(w.ch)
	}
}

// ---- endpoint ---------------------------------------------------------------------------

type deadline struct {
	mu    sync.Mutex
	ch    chan struct{}
	timer *time.Timer
	fired bool
}

func (d *deadline) init() { d.ch = make(chan struct{}) }

func (d *deadline) set(t time.Time) {
	d.mu.Lock()
	defer d.mu.Unlock()
	if d.timer != nil {
		d.timer.Stop()
		d.timer = nil
	}
	if d.fired {
		d.ch = make(chan struct{})
		d.fired = false
	}
	if t.IsZero() {
		return
	}
	dur := time.Until(t)
	if dur <= 0 {
		close(d.ch)
		d.fired = true

		return
	}
	ch := d.ch
	d.timer = time.AfterFunc(dur, func() {
		d.mu.Lock()
		defer d.mu.Unlock()
		if d.ch == ch && !d.fired {
			close(ch)
			d.fired = true
		}
	})
}

func (d *deadline) done() <-chan struct{} {
	d.mu.Lock()
	defer d.mu.Unlock()

	return d.ch
}

// Endpoint is a net.PacketConn on the virtual network.
type Endpoint struct {
	net    *Net
	addr   Addr
	inbox  chan dgram
	closed chan struct{}
	once   sync.Once
	rd     deadline
	// WriteErr, if set, is returned by WriteTo (transport refusing writes).
	WriteErr error
	// WriteFail[k] makes the k-th WriteTo call of this endpoint (counted from 0) fail with a transport error;
	// nothing is emitted for it.
	WriteFail map[int]bool
	writeN    atomic.Int64
	detached  bool
}

func (e *Endpoint) deliver(d dgram) {
	select {
	case <-e.closed:
		return
	default:
	}
	select {
	case e.inbox <- d:
	default: // receive queue overflow: dropped, like a socket buffer
		e.net.overflow.Add(1)
	}
}

// Overflowed returns how many datagrams were dropped because a receive queue (8192 datagrams) was full:
// a burst the receiving goroutine did not drain in time. Which datagrams these are depends on goroutine
// scheduling, so a check that judges delivery must treat a run with overflow as not judged.
func (n *Net) Overflowed() int { return int(n.overflow.Load()) }

type timeoutErr struct{}

func (timeoutErr) Error() string   { return "vnet: i/o timeout" }
func (timeoutErr) Timeout() bool   { return true }
func (timeoutErr) Temporary() bool { return true }
func (timeoutErr) Unwrap() error   { return os.ErrDeadlineExceeded }

// ReadFrom implements net.PacketConn.
func (e *Endpoint) ReadFrom(p []byte) (int, net.Addr, error) {
	for {
		dl := e.rd.done()
		select {
		case <-dl:
			return 0, nil, timeoutErr{}
		default:
		}
		select {
		case d := <-e.inbox:
			n := copy(p, d.data)

			return n, d.from, nil
		case <-e.closed:
			return 0, nil, net.ErrClosed
		case <-dl:
			return 0, nil, timeoutErr{}
		}
	}
}

// WriteTo implements net.PacketConn.
func (e *Endpoint) WriteTo(p []byte, addr net.Addr) (int, error) {
	select {
	case <-e.closed:
		return 0, net.ErrClosed
	default:
	}
	if e.WriteErr != nil {
		return 0, e.WriteErr
	}
	if k := int(e.writeN.Add(1)) - 1; e.WriteFail[k] {
		return 0, errors.New("vnet: transport refused the datagram")
	}
	if e.isDetached() {
		return len(p), nil // swallowed: the endpoint was spliced out of the network
	}
	if addr == nil {
		return 0, errors.New("vnet: nil destination")
	}
	e.net.send(e.addr, addr.String(), append([]byte(nil), p...))

	return len(p), nil
}

// Writes is the number of WriteTo calls made so far (the index the next call will have in WriteFail).
func (e *Endpoint) Writes() int { return int(e.writeN.Load()) }

// Close implements net.PacketConn.
func (e *Endpoint) Close() error {
	e.once.Do(func() { close(e.closed) })

	return nil
}

// IsClosed reports whether Close was called.
func (e *Endpoint) IsClosed() bool {
	select {
	case <-e.closed:
		return true
	default:
		return false
	}
}

// LocalAddr implements net.PacketConn.
func (e *Endpoint) LocalAddr() net.Addr { return e.addr }

// SetDeadline implements net.PacketConn.
func (e *Endpoint) SetDeadline(t time.Time) error { e.rd.set(t); return nil }

// SetReadDeadline implements net.PacketConn.
func (e *Endpoint) SetReadDeadline(t time.Time) error { e.rd.set(t); return nil }

// SetWriteDeadline implements net.PacketConn (writes never block).
func (e *Endpoint) SetWriteDeadline(time.Time) error { return nil }

// Heal removes every fault, block and rewrite and releases held datagrams: the network is
// reliable from now on.
func (n *Net) Heal() {
	n.mu.Lock()
	n.Faults = map[string][]Fault{}
	n.Blocked = map[string]bool{}
	n.Mangle = nil
	n.FaultFn = nil
	n.mu.Unlock()
	n.FlushHeld()
}

// Detach splices the endpoint out of the network: what it sends from now on goes nowhere and
// is not recorded.
func (e *Endpoint) Detach() {
	e.net.mu.Lock()
	e.detached = true
	e.net.mu.Unlock()
}

func (e *Endpoint) isDetached() bool {
	e.net.mu.Lock()
	defer e.net.mu.Unlock()

	return e.detached
}

// HasStormed reports whether the emission bound was hit.
func (n *Net) HasStormed() bool {
	n.mu.Lock()
	defer n.mu.Unlock()

	return n.Stormed
}
