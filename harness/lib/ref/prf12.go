// Package ref holds reference models written from the RFCs, sharing no code with pion/dtls.
// Trusted base: Go standard library primitives and x/crypto chacha20/chacha20poly1305.
package ref

import (
	"crypto/hmac"
	"crypto/sha1" //nolint:gosec
	"crypto/sha256"
	"crypto/sha512"
	"hash"
)

// HashByName returns the hash constructor ("sha256", "sha384", "sha1").
func HashByName(n string) func() hash.Hash {
	switch n {
	case "sha384":
		return sha512.New384
	case "sha1":
		return sha1.New
	default:
		return sha256.New
	}
}

// PHash is RFC 5246 section 5: P_hash(secret, seed) truncated to n bytes.
func PHash(h func() hash.Hash, secret, seed []byte, n int) []byte {
	var out []byte
	mac := hmac.New(h, secret)
	mac.Write(seed)
	a := mac.Sum(nil) // A(1)
	for len(out) < n {
		mac = hmac.New(h, secret)
		mac.Write(a)
		mac.Write(seed)
		out = mac.Sum(out)
		mac = hmac.New(h, secret)
		mac.Write(a)
		a = mac.Sum(nil)
	}

	return out[:n]
}

// PRF is RFC 5246: PRF(secret, label, seed) = P_hash(secret, label + seed).
func PRF(h func() hash.Hash, secret []byte, label string, seed []byte, n int) []byte {
	return PHash(h, secret, append([]byte(label), seed...), n)
}

// MasterSecret is RFC 5246 8.1.
func MasterSecret(h func() hash.Hash, pre, clientRandom, serverRandom []byte) []byte {
	return PRF(h, pre, "master secret", append(append([]byte(nil), clientRandom...), serverRandom...), 48)
}

// ExtendedMasterSecret is RFC 7627 section 4.
func ExtendedMasterSecret(h func() hash.Hash, pre, sessionHash []byte) []byte {
	return PRF(h, pre, "extended master secret", sessionHash, 48)
}

// KeyBlock12 is the partition of RFC 5246 6.3.
type KeyBlock12 struct {
	ClientMAC, ServerMAC, ClientKey, ServerKey, ClientIV, ServerIV []byte
}

// KeyBlock derives the key block: note the seed order server_random + client_random.
func KeyBlock(h func() hash.Hash, master, clientRandom, serverRandom []byte, macLen, keyLen, ivLen int) KeyBlock12 {
	seed := append(append([]byte(nil), serverRandom...), clientRandom...)
	kb := PRF(h, master, "key expansion", seed, 2*macLen+2*keyLen+2*ivLen)
	take := func(n int) []byte {
		b := kb[:n]
		kb = kb[n:]

		return b
	}

	return KeyBlock12{take(macLen), take(macLen), take(keyLen), take(keyLen), take(ivLen), take(ivLen)}
}

// VerifyData is RFC 5246 7.4.9 (label "client finished" / "server finished").
func VerifyData(h func() hash.Hash, master []byte, label string, transcript []byte) []byte {
	d := h()
	d.Write(transcript)

	return PRF(h, master, label, d.Sum(nil), 12)
}

// Exporter12 is RFC 5705 without context.
func Exporter12(h func() hash.Hash, master []byte, label string, clientRandom, serverRandom []byte, n int) []byte {
	return PRF(h, master, label, append(append([]byte(nil), clientRandom...), serverRandom...), n)
}

// PSKPreMaster is RFC 4279 section 2: other_secret = N zero bytes.
func PSKPreMaster(psk []byte) []byte {
	n := len(psk)
	out := []byte{byte(n >> 8), byte(n)}
	out = append(out, make([]byte, n)...)
	out = append(out, byte(n>>8), byte(n))

	return append(out, psk...)
}

// ECDHEPSKPreMaster is RFC 5489 section 2: other_secret = ECDH shared secret Z.
func ECDHEPSKPreMaster(psk, z []byte) []byte {
	out := []byte{byte(len(z) >> 8), byte(len(z))}
	out = append(out, z...)
	out = append(out, byte(len(psk)>>8), byte(len(psk)))

	return append(out, psk...)
}
