package ref

import (
	"crypto/aes"
	"crypto/cipher"
	"crypto/hmac"
	"encoding/binary"
	"hash"

	"golang.org/x/crypto/chacha20"
	"golang.org/x/crypto/chacha20poly1305"
)

// HKDFExtract is RFC 5869 2.2.
func HKDFExtract(h func() hash.Hash, salt, ikm []byte) []byte {
	if salt == nil {
		salt = make([]byte, h().Size())
	}
	m := hmac.New(h, salt)
	m.Write(ikm)

	return m.Sum(nil)
}

// HKDFExpand is RFC 5869 2.3.
func HKDFExpand(h func() hash.Hash, prk, info []byte, n int) []byte {
	var out, t []byte
	for i := byte(1); len(out) < n; i++ {
		m := hmac.New(h, prk)
		m.Write(t)
		m.Write(info)
		m.Write([]byte{i})
		t = m.Sum(nil)
		out = append(out, t...)
	}

	return out[:n]
}

// ExpandLabel13 is HKDF-Expand-Label of RFC 8446 7.1 with the DTLS 1.3 label prefix "dtls13"
// (RFC 9147 5.9).
func ExpandLabel13(h func() hash.Hash, secret []byte, label string, context []byte, n int) []byte {
	full := "dtls13" + label
	info := []byte{byte(n >> 8), byte(n), byte(len(full))}
	info = append(info, full...)
	info = append(info, byte(len(context)))
	info = append(info, context...)

	return HKDFExpand(h, secret, info, n)
}

// DeriveSecret13 is Derive-Secret(Secret, Label, Messages) with the transcript hash given.
func DeriveSecret13(h func() hash.Hash, secret []byte, label string, transcriptHash []byte) []byte {
	return ExpandLabel13(h, secret, label, transcriptHash, h().Size())
}

// Suite13 describes a TLS 1.3 cipher suite.
type Suite13 struct {
	ID     uint16
	Kind   string // gcm | chacha
	Hash   string
	KeyLen int
}

// Suites13 lists the DTLS 1.3 suites (RFC 8446 B.4).
var Suites13 = map[uint16]Suite13{
	0x1301: {0x1301, "gcm", "sha256", 16},
	0x1302: {0x1302, "gcm", "sha384", 32},
	0x1303: {0x1303, "chacha", "sha256", 32},
}

// Keys13 are the record protection keys derived from one traffic secret (RFC 9147 4.2.3, RFC 8446 7.3).
type Keys13 struct {
	Suite Suite13
	Key   []byte
	IV    []byte
	SN    []byte
}

// TrafficKeys13 derives key, iv and sn key from a traffic secret.
func TrafficKeys13(s Suite13, secret []byte) Keys13 {
	h := HashByName(s.Hash)

	return Keys13{s, ExpandLabel13(h, secret, "key", nil, s.KeyLen), ExpandLabel13(h, secret, "iv", nil, 12), ExpandLabel13(h, secret, "sn", nil, s.KeyLen)}
}

// NextTrafficSecret13 is application_traffic_secret_N+1 (RFC 8446 7.2).
func NextTrafficSecret13(s Suite13, secret []byte) []byte {
	h := HashByName(s.Hash)

	return ExpandLabel13(h, secret, "traffic upd", nil, h().Size())
}

// FinishedKey13 / VerifyData13: RFC 8446 4.4.4.
func VerifyData13(s Suite13, baseKey, transcriptHash []byte) []byte {
	h := HashByName(s.Hash)
	fk := ExpandLabel13(h, baseKey, "finished", nil, h().Size())
	m := hmac.New(h, fk)
	m.Write(transcriptHash)

	return m.Sum(nil)
}

// Exporter13 is RFC 8446 7.5.
func Exporter13(s Suite13, exporterMaster []byte, label string, context []byte, n int) []byte {
	h := HashByName(s.Hash)
	empty := h().Sum(nil)
	derived := DeriveSecret13(h, exporterMaster, label, empty)
	ch := h()
	ch.Write(context)

	return ExpandLabel13(h, derived, "exporter", ch.Sum(nil), n)
}

// SNMask computes the record-number mask from the first 16 bytes of ciphertext (RFC 9147 4.2.3).
func (k Keys13) SNMask(ct []byte) ([]byte, bool) {
	if len(ct) < 16 {
		return nil, false
	}
	if k.Suite.Kind == "chacha" {
		c, err := chacha20.NewUnauthenticatedCipher(k.SN, ct[4:16])
		if err != nil {
			return nil, false
		}
		c.SetCounter(binary.LittleEndian.Uint32(ct[:4]))
		mask := make([]byte, 16)
		c.XORKeyStream(mask, mask)

		return mask, true
	}
	b, err := aes.NewCipher(k.SN)
	if err != nil {
		return nil, false
	}
	mask := make([]byte, 16)
	b.Encrypt(mask, ct[:16])

	return mask, true
}

func (k Keys13) aead() (cipher.AEAD, error) {
	if k.Suite.Kind == "chacha" {
		return chacha20poly1305.New(k.Key)
	}
	b, err := aes.NewCipher(k.Key)
	if err != nil {
		return nil, err
	}

	return cipher.NewGCM(b)
}

func (k Keys13) nonce(seq uint64) []byte {
	n := append([]byte(nil), k.IV...)
	var s [8]byte
	binary.BigEndian.PutUint64(s[:], seq)
	for i := 0; i < 8; i++ {
		n[4+i] ^= s[i]
	}

	return n
}

// Unified13 is a parsed unified header (RFC 9147 4).
type Unified13 struct {
	CBit, SBit, LBit bool
	EpochLow         byte
	CID              []byte
	HdrLen           int
	SeqOff           int
	SeqLen           int
}

// ParseUnified13 parses the header of a DTLSCiphertext record.
func ParseUnified13(rec []byte, cidLen int) (Unified13, bool) {
	if len(rec) < 1 || rec[0]&0xe0 != 0x20 {
		return Unified13{}, false
	}
	u := Unified13{CBit: rec[0]&0x10 != 0, SBit: rec[0]&0x08 != 0, LBit: rec[0]&0x04 != 0, EpochLow: rec[0] & 3}
	off := 1
	if u.CBit {
		if len(rec) < off+cidLen {
			return u, false
		}
		u.CID = rec[off : off+cidLen]
		off += cidLen
	}
	u.SeqOff, u.SeqLen = off, 1
	if u.SBit {
		u.SeqLen = 2
	}
	off += u.SeqLen
	if u.LBit {
		off += 2
	}
	if len(rec) < off {
		return u, false
	}
	u.HdrLen = off

	return u, true
}

// Open13 decrypts one DTLSCiphertext record (the bytes of exactly that record). expectedSeq is
// the receiver's next expected sequence number used to reconstruct the full number (RFC 9147 4.2.2).
// It returns the inner plaintext, the full sequence number.
func Open13(k Keys13, rec []byte, cidLen int, expectedSeq uint64) ([]byte, uint64, error) {
	u, ok := ParseUnified13(rec, cidLen)
	if !ok {
		return nil, 0, ErrFormat
	}
	ct := rec[u.HdrLen:]
	mask, ok := k.SNMask(ct)
	if !ok {
		return nil, 0, ErrFormat
	}
	hdr := append([]byte(nil), rec[:u.HdrLen]...)
	var low uint64
	for i := 0; i < u.SeqLen; i++ {
		hdr[u.SeqOff+i] ^= mask[i]
		low = low<<8 | uint64(hdr[u.SeqOff+i])
	}
	bits := uint(8 * u.SeqLen)
	seq := reconstruct(low, bits, expectedSeq)
	a, err := k.aead()
	if err != nil {
		return nil, 0, err
	}
	pt, err := a.Open(nil, k.nonce(seq), ct, hdr)
	if err != nil {
		return nil, 0, ErrAuth
	}

	return pt, seq, nil
}

func reconstruct(low uint64, bits uint, expected uint64) uint64 {
	win := uint64(1) << bits
	cand := (expected &^ (win - 1)) | low
	// choose the candidate closest to expected
	best := cand
	dist := func(a, b uint64) uint64 {
		if a > b {
			return a - b
		}

		return b - a
	}
	if cand >= win && dist(cand-win, expected) < dist(best, expected) {
		best = cand - win
	}
	if dist(cand+win, expected) < dist(best, expected) {
		best = cand + win
	}

	return best
}

// Seal13 builds a DTLSCiphertext record: header flags as given (S and L bits, optional CID).
func Seal13(k Keys13, epoch uint16, seq uint64, cid []byte, sbit, lbit bool, inner []byte) ([]byte, error) {
	b0 := byte(0x20) | byte(epoch&3)
	if len(cid) > 0 {
		b0 |= 0x10
	}
	if sbit {
		b0 |= 0x08
	}
	if lbit {
		b0 |= 0x04
	}
	hdr := []byte{b0}
	hdr = append(hdr, cid...)
	seqOff := len(hdr)
	seqLen := 1
	if sbit {
		hdr = append(hdr, byte(seq>>8), byte(seq))
		seqLen = 2
	} else {
		hdr = append(hdr, byte(seq))
	}
	a, err := k.aead()
	if err != nil {
		return nil, err
	}
	if lbit {
		n := len(inner) + a.Overhead()
		hdr = append(hdr, byte(n>>8), byte(n))
	}
	ct := a.Seal(nil, k.nonce(seq), inner, hdr)
	mask, ok := k.SNMask(ct)
	if !ok {
		return nil, ErrFormat
	}
	out := append(append([]byte(nil), hdr...), ct...)
	for i := 0; i < seqLen; i++ {
		out[seqOff+i] ^= mask[i]
	}

	return out, nil
}
