package ref

import (
	"crypto/aes"
	"crypto/cipher"
	"crypto/subtle"
	"errors"
)

// CCM is an independent implementation of AES-CCM (RFC 3610 / NIST SP 800-38C) with a
// 12-byte nonce (L = 3), as used by TLS (RFC 6655).
type CCM struct {
	b      cipher.Block
	tagLen int
}

// NewCCM creates AES-CCM with the given key and tag length (8 or 16).
func NewCCM(key []byte, tagLen int) (*CCM, error) {
	b, err := aes.NewCipher(key)
	if err != nil {
		return nil, err
	}

	return &CCM{b, tagLen}, nil
}

func (c *CCM) mac(nonce, plaintext, aad []byte) []byte {
	const l = 3
	var b0 [16]byte
	flags := byte(0)
	if len(aad) > 0 {
		flags |= 0x40
	}
	flags |= byte((c.tagLen-2)/2) << 3
	flags |= l - 1
	b0[0] = flags
	copy(b0[1:13], nonce)
	n := len(plaintext)
	b0[13], b0[14], b0[15] = byte(n>>16), byte(n>>8), byte(n)
	var x [16]byte
	c.b.Encrypt(x[:], b0[:])
	absorb := func(data []byte) {
		for len(data) > 0 {
			var blk [16]byte
			k := copy(blk[:], data)
			data = data[k:]
			for i := range x {
				x[i] ^= blk[i]
			}
			c.b.Encrypt(x[:], x[:])
		}
	}
	if len(aad) > 0 {
		var hdr []byte
		if len(aad) < 0xff00 {
			hdr = []byte{byte(len(aad) >> 8), byte(len(aad))}
		} else {
			hdr = []byte{0xff, 0xfe, byte(len(aad) >> 24), byte(len(aad) >> 16), byte(len(aad) >> 8), byte(len(aad))}
		}
		absorb(append(hdr, aad...))
	}
	absorb(plaintext)

	return x[:c.tagLen]
}

func (c *CCM) ctr(nonce []byte, i int) [16]byte {
	var a [16]byte
	a[0] = 2 // L-1
	copy(a[1:13], nonce)
	a[13], a[14], a[15] = byte(i>>16), byte(i>>8), byte(i)
	var s [16]byte
	c.b.Encrypt(s[:], a[:])

	return s
}

// Seal returns ciphertext || tag.
func (c *CCM) Seal(nonce, plaintext, aad []byte) []byte {
	t := c.mac(nonce, plaintext, aad)
	out := make([]byte, len(plaintext)+c.tagLen)
	for i := 0; i < len(plaintext); i += 16 {
		s := c.ctr(nonce, i/16+1)
		for j := 0; j < 16 && i+j < len(plaintext); j++ {
			out[i+j] = plaintext[i+j] ^ s[j]
		}
	}
	s0 := c.ctr(nonce, 0)
	for j := 0; j < c.tagLen; j++ {
		out[len(plaintext)+j] = t[j] ^ s0[j]
	}

	return out
}

// ErrAuth is returned when authentication fails.
var ErrAuth = errors.New("ref: authentication failed")

// Open verifies and decrypts ciphertext || tag.
func (c *CCM) Open(nonce, ct, aad []byte) ([]byte, error) {
	if len(ct) < c.tagLen {
		return nil, ErrAuth
	}
	body := ct[:len(ct)-c.tagLen]
	pt := make([]byte, len(body))
	for i := 0; i < len(body); i += 16 {
		s := c.ctr(nonce, i/16+1)
		for j := 0; j < 16 && i+j < len(body); j++ {
			pt[i+j] = body[i+j] ^ s[j]
		}
	}
	t := c.mac(nonce, pt, aad)
	s0 := c.ctr(nonce, 0)
	want := make([]byte, c.tagLen)
	for j := range want {
		want[j] = t[j] ^ s0[j]
	}
	if subtle.ConstantTimeCompare(want, ct[len(body):]) != 1 {
		return nil, ErrAuth
	}

	return pt, nil
}
