package ref

import (
	"bytes"
	"crypto/aes"
	"crypto/cipher"
	"crypto/hmac"
	"encoding/binary"
	"errors"
	"hash"

	"golang.org/x/crypto/chacha20poly1305"
)

// Suite12 describes a TLS 1.2 cipher suite as far as record protection and the PRF go.
type Suite12 struct {
	ID     uint16
	Kind   string // gcm, ccm, chacha, cbc
	PRF    string // sha256 | sha384
	MAC    string // cbc only: sha1 | sha256
	KeyLen int
	IVLen  int // fixed IV / salt length taken from the key block
	MACLen int
	TagLen int
}

// Suites12 lists every DTLS 1.2 suite of the library under test, from the RFCs that define them.
var Suites12 = map[uint16]Suite12{
	0xc02b: {0xc02b, "gcm", "sha256", "", 16, 4, 0, 16}, // RFC 5289
	0xc02f: {0xc02f, "gcm", "sha256", "", 16, 4, 0, 16},
	0xc02c: {0xc02c, "gcm", "sha384", "", 32, 4, 0, 16},
	0xc030: {0xc030, "gcm", "sha384", "", 32, 4, 0, 16},
	0x00a8: {0x00a8, "gcm", "sha256", "", 16, 4, 0, 16}, // RFC 5487
	0xc0ac: {0xc0ac, "ccm", "sha256", "", 16, 4, 0, 16}, // RFC 7251
	0xc0ae: {0xc0ae, "ccm", "sha256", "", 16, 4, 0, 8},
	0xc0a4: {0xc0a4, "ccm", "sha256", "", 16, 4, 0, 16}, // RFC 6655
	0xc0a8: {0xc0a8, "ccm", "sha256", "", 16, 4, 0, 8},
	0xc0a9: {0xc0a9, "ccm", "sha256", "", 32, 4, 0, 8},
	0xcca9: {0xcca9, "chacha", "sha256", "", 32, 12, 0, 16}, // RFC 7905
	0xcca8: {0xcca8, "chacha", "sha256", "", 32, 12, 0, 16},
	0xccab: {0xccab, "chacha", "sha256", "", 32, 12, 0, 16},
	0xc00a: {0xc00a, "cbc", "sha256", "sha1", 32, 16, 20, 0}, // RFC 8422 (AES_256_CBC_SHA)
	0xc014: {0xc014, "cbc", "sha256", "sha1", 32, 16, 20, 0},
	0x00ae: {0x00ae, "cbc", "sha256", "sha256", 16, 16, 32, 0}, // RFC 5487
	0xc037: {0xc037, "cbc", "sha256", "sha256", 16, 16, 32, 0}, // RFC 5489
}

// Keys12 are the write keys of one direction.
type Keys12 struct {
	Suite Suite12
	Key   []byte
	IV    []byte
	MAC   []byte
}

// DirectionKeys partitions the key block and returns (client write, server write).
func DirectionKeys(s Suite12, master, clientRandom, serverRandom []byte) (Keys12, Keys12) {
	kb := KeyBlock(HashByName(s.PRF), master, clientRandom, serverRandom, s.MACLen, s.KeyLen, s.IVLen)

	return Keys12{s, kb.ClientKey, kb.ClientIV, kb.ClientMAC}, Keys12{s, kb.ServerKey, kb.ServerIV, kb.ServerMAC}
}

// Hdr12 is a DTLS 1.2 record header (RFC 6347 / RFC 9146 for tls12_cid).
type Hdr12 struct {
	Type    byte
	Version [2]byte
	Epoch   uint16
	Seq     uint64
	CID     []byte // only for Type 25
}

// Marshal writes the header with the given body length.
func (h Hdr12) Marshal(bodyLen int) []byte {
	out := []byte{h.Type, h.Version[0], h.Version[1], byte(h.Epoch >> 8), byte(h.Epoch)}
	var s [8]byte
	binary.BigEndian.PutUint64(s[:], h.Seq)
	out = append(out, s[2:]...)
	if h.Type == 25 {
		out = append(out, h.CID...)
	}

	return append(out, byte(bodyLen>>8), byte(bodyLen))
}

func seqNum(h Hdr12) []byte {
	var s [8]byte
	binary.BigEndian.PutUint64(s[:], h.Seq)
	s[0], s[1] = byte(h.Epoch>>8), byte(h.Epoch)

	return s[:]
}

// aad is RFC 5246 6.2.3.3 (seq_num + type + version + length) or RFC 9146 section 5.
func aad(h Hdr12, plainLen int) []byte {
	if h.Type == 25 {
		out := bytes.Repeat([]byte{0xff}, 8)
		out = append(out, 25, byte(len(h.CID)), 25, h.Version[0], h.Version[1])
		out = append(out, seqNum(h)...)
		out = append(out, h.CID...)

		return append(out, byte(plainLen>>8), byte(plainLen))
	}
	out := append([]byte(nil), seqNum(h)...)

	return append(out, h.Type, h.Version[0], h.Version[1], byte(plainLen>>8), byte(plainLen))
}

// ErrFormat is returned for records too short for their suite.
var ErrFormat = errors.New("ref: malformed protected record")

func macOf(name string) func() hash.Hash { return HashByName(name) }

// cbcMAC is RFC 5246 6.2.3.1 MAC input, or RFC 9146 5.1 for tls12_cid where `plain` is the
// DTLSInnerPlaintext (content || real_type || zeros).
func cbcMAC(k Keys12, h Hdr12, plain []byte) []byte {
	m := hmac.New(macOf(k.Suite.MAC), k.MAC)
	m.Write(aad(h, len(plain)))
	m.Write(plain)

	return m.Sum(nil)
}

// Seal12 protects plain (for tls12_cid: the inner plaintext) and returns the whole record.
// explicitIV is used by CBC suites only (16 bytes).
func Seal12(k Keys12, h Hdr12, plain, explicitIV []byte) ([]byte, error) {
	var body []byte
	switch k.Suite.Kind {
	case "gcm", "ccm":
		nonce := append(append([]byte(nil), k.IV[:4]...), seqNum(h)...)
		body = append([]byte(nil), seqNum(h)...)
		if k.Suite.Kind == "gcm" {
			b, err := aes.NewCipher(k.Key)
			if err != nil {
				return nil, err
			}
			g, err := cipher.NewGCM(b)
			if err != nil {
				return nil, err
			}
			body = g.Seal(body, nonce, plain, aad(h, len(plain)))
		} else {
			c, err := NewCCM(k.Key, k.Suite.TagLen)
			if err != nil {
				return nil, err
			}
			body = append(body, c.Seal(nonce, plain, aad(h, len(plain)))...)
		}
	case "chacha":
		a, err := chacha20poly1305.New(k.Key)
		if err != nil {
			return nil, err
		}
		nonce := append([]byte(nil), k.IV...)
		sn := seqNum(h)
		for i := 0; i < 8; i++ {
			nonce[4+i] ^= sn[i]
		}
		body = a.Seal(nil, nonce, plain, aad(h, len(plain)))
	case "cbc":
		mac := cbcMAC(k, h, plain)
		data := append(append([]byte(nil), plain...), mac...)
		padLen := 16 - len(data)%16
		data = append(data, bytes.Repeat([]byte{byte(padLen - 1)}, padLen)...)
		b, err := aes.NewCipher(k.Key)
		if err != nil {
			return nil, err
		}
		cipher.NewCBCEncrypter(b, explicitIV).CryptBlocks(data, data)
		body = append(append([]byte(nil), explicitIV...), data...)
	default:
		return nil, ErrFormat
	}

	return append(h.Marshal(len(body)), body...), nil
}

// Open12 authenticates and decrypts the body of a record whose header is h.
func Open12(k Keys12, h Hdr12, body []byte) ([]byte, error) {
	switch k.Suite.Kind {
	case "gcm", "ccm":
		if len(body) < 8+k.Suite.TagLen {
			return nil, ErrFormat
		}
		nonce := append(append([]byte(nil), k.IV[:4]...), body[:8]...)
		ct := body[8:]
		plainLen := len(ct) - k.Suite.TagLen
		if k.Suite.Kind == "gcm" {
			b, err := aes.NewCipher(k.Key)
			if err != nil {
				return nil, err
			}
			g, err := cipher.NewGCM(b)
			if err != nil {
				return nil, err
			}
			pt, err := g.Open(nil, nonce, ct, aad(h, plainLen))
			if err != nil {
				return nil, ErrAuth
			}

			return pt, nil
		}
		c, err := NewCCM(k.Key, k.Suite.TagLen)
		if err != nil {
			return nil, err
		}

		return c.Open(nonce, ct, aad(h, plainLen))
	case "chacha":
		if len(body) < 16 {
			return nil, ErrFormat
		}
		a, err := chacha20poly1305.New(k.Key)
		if err != nil {
			return nil, err
		}
		nonce := append([]byte(nil), k.IV...)
		sn := seqNum(h)
		for i := 0; i < 8; i++ {
			nonce[4+i] ^= sn[i]
		}
		pt, err := a.Open(nil, nonce, body, aad(h, len(body)-16))
		if err != nil {
			return nil, ErrAuth
		}

		return pt, nil
	case "cbc":
		if len(body) < 32 || len(body)%16 != 0 {
			return nil, ErrFormat
		}
		b, err := aes.NewCipher(k.Key)
		if err != nil {
			return nil, err
		}
		data := append([]byte(nil), body[16:]...)
		cipher.NewCBCDecrypter(b, body[:16]).CryptBlocks(data, data)
		padLen := int(data[len(data)-1]) + 1
		if padLen > len(data) {
			return nil, ErrAuth
		}
		for _, x := range data[len(data)-padLen:] {
			if int(x) != padLen-1 {
				return nil, ErrAuth
			}
		}
		data = data[:len(data)-padLen]
		if len(data) < k.Suite.MACLen {
			return nil, ErrAuth
		}
		plain, mac := data[:len(data)-k.Suite.MACLen], data[len(data)-k.Suite.MACLen:]
		if !hmac.Equal(mac, cbcMAC(k, h, plain)) {
			return nil, ErrAuth
		}

		return plain, nil
	}

	return nil, ErrFormat
}

// InnerPlaintext splits a DTLSInnerPlaintext (RFC 9146 / RFC 9147): content || type || zeros.
func InnerPlaintext(p []byte) (content []byte, typ byte, zeros int, ok bool) {
	i := len(p) - 1
	for i >= 0 && p[i] == 0 {
		i--
	}
	if i < 0 {
		return nil, 0, 0, false
	}

	return p[:i], p[i], len(p) - 1 - i, true
}

// SealCBCRaw encrypts an arbitrary block-aligned byte string (attacker-chosen plaintext, MAC and
// padding included or not) under the CBC keys: an authenticated peer sending malformed content.
func SealCBCRaw(k Keys12, h Hdr12, blocks, explicitIV []byte) ([]byte, error) {
	if k.Suite.Kind != "cbc" || len(blocks)%16 != 0 || len(explicitIV) != 16 {
		return nil, ErrFormat
	}
	b, err := aes.NewCipher(k.Key)
	if err != nil {
		return nil, err
	}
	data := append([]byte(nil), blocks...)
	cipher.NewCBCEncrypter(b, explicitIV).CryptBlocks(data, data)
	body := append(append([]byte(nil), explicitIV...), data...)

	return append(h.Marshal(len(body)), body...), nil
}

// CBCMac exposes the MAC of the CBC suites for building deliberately odd records.
func CBCMac(k Keys12, h Hdr12, plain []byte) []byte { return cbcMAC(k, h, plain) }
