package ref

import (
	"bufio"
	"bytes"
	"encoding/binary"
	"encoding/hex"
	"strings"
)

// ParseKeyLog extracts (client_random, master_secret) pairs from NSS key log text.
func ParseKeyLog(text string) map[string][]byte {
	out := map[string][]byte{}
	sc := bufio.NewScanner(strings.NewReader(text))
	for sc.Scan() {
		f := strings.Fields(sc.Text())
		if len(f) == 3 && f[0] == "CLIENT_RANDOM" {
			ms, err := hex.DecodeString(f[2])
			if err == nil {
				out[strings.ToLower(f[1])] = ms
			}
		}
	}

	return out
}

// Decoded is one record as seen by the passive decoder.
type Decoded struct {
	From    string
	Kind    string // legacy | cid | unified
	Epoch   uint16
	Seq     uint64
	Type    byte   // real content type (inner type for cid / unified)
	Plain   []byte // plaintext content (nil if not decrypted)
	Zeros   int    // padding in the inner plaintext
	Protect bool   // record was protected
	OK      bool   // decrypted and authenticated (or plaintext epoch-0)
	CID     []byte
	Raw     []byte
	gen     int // index+1 of the generation that opened a unified record
}

// Gen13 is one DTLS 1.3 traffic generation known to the decoder.
type Gen13 struct {
	Epoch  uint16
	Secret []byte
	keys   Keys13
}

// Decoder passively decrypts the traffic of one session.
type Decoder struct {
	// DTLS 1.2
	S12      *Suite12
	CW, SW   Keys12
	Has12    bool
	Master   []byte
	Client   string // name of the client endpoint on the tap ("C")
	Gens     []Gen13
	S13      *Suite13
	expected map[string]uint64
}

// NewDecoder12 builds a decoder for a DTLS 1.2 session.
func NewDecoder12(suite uint16, master, clientRandom, serverRandom []byte) *Decoder {
	s, ok := Suites12[suite]
	if !ok {
		return nil
	}
	cw, sw := DirectionKeys(s, master, clientRandom, serverRandom)

	return &Decoder{S12: &s, CW: cw, SW: sw, Has12: true, Master: append([]byte(nil), master...), Client: "C", expected: map[string]uint64{}}
}

// NewDecoder13 builds a decoder for a DTLS 1.3 session; generations are added as they are seen.
func NewDecoder13(suite uint16) *Decoder {
	s, ok := Suites13[suite]
	if !ok {
		return nil
	}

	return &Decoder{S13: &s, Client: "C", expected: map[string]uint64{}}
}

// AddGen13 registers a traffic secret for an epoch (duplicates ignored).
func (d *Decoder) AddGen13(epoch uint16, secret []byte) {
	for _, g := range d.Gens {
		if g.Epoch == epoch && bytes.Equal(g.Secret, secret) {
			return
		}
	}
	d.Gens = append(d.Gens, Gen13{epoch, append([]byte(nil), secret...), TrafficKeys13(*d.S13, secret)})
}

// Decode splits a datagram sent by `from` into records and decrypts what it can. cidLen is the
// length of the connection ID expected by the receiver of this datagram.
func (d *Decoder) Decode(from string, dg []byte, cidLen int) (out []Decoded, wellFormed bool) {
	for len(dg) > 0 {
		if dg[0]&0xe0 == 0x20 {
			u, ok := ParseUnified13(dg, cidLen)
			if !ok {
				return out, false
			}
			end := len(dg)
			if u.LBit {
				l := int(binary.BigEndian.Uint16(dg[u.HdrLen-2:]))
				if u.HdrLen+l > len(dg) {
					return out, false
				}
				end = u.HdrLen + l
			}
			rec := dg[:end]
			dec := Decoded{From: from, Kind: "unified", Protect: true, CID: u.CID, Raw: rec, Epoch: uint16(u.EpochLow)}
			for gi, g := range d.Gens {
				if byte(g.Epoch&3) != u.EpochLow {
					continue
				}
				key := from + "|" + string(rune(g.Epoch)) + hex.EncodeToString(g.Secret[:4])
				pt, seq, err := Open13(g.keys, rec, cidLen, d.expected[key])
				if err != nil {
					continue
				}
				if seq+1 > d.expected[key] {
					d.expected[key] = seq + 1
				}
				content, typ, zeros, ok := InnerPlaintext(pt)
				dec.Epoch, dec.Seq, dec.OK = g.Epoch, seq, ok
				dec.Plain, dec.Type, dec.Zeros = content, typ, zeros
				dec.gen = gi + 1

				break
			}
			out = append(out, dec)
			dg = dg[end:]

			continue
		}
		if len(dg) < 13 {
			return out, false
		}
		h := Hdr12{Type: dg[0], Version: [2]byte{dg[1], dg[2]}, Epoch: binary.BigEndian.Uint16(dg[3:])}
		h.Seq = uint64(dg[5])<<40 | uint64(dg[6])<<32 | uint64(dg[7])<<24 | uint64(dg[8])<<16 | uint64(dg[9])<<8 | uint64(dg[10])
		off := 11
		kind := "legacy"
		if h.Type == 25 {
			kind = "cid"
			if len(dg) < off+cidLen+2 {
				return out, false
			}
			h.CID = dg[off : off+cidLen]
			off += cidLen
		}
		l := int(binary.BigEndian.Uint16(dg[off:]))
		off += 2
		if len(dg) < off+l {
			return out, false
		}
		body := dg[off : off+l]
		dec := Decoded{From: from, Kind: kind, Epoch: h.Epoch, Seq: h.Seq, Type: h.Type, CID: h.CID, Raw: dg[:off+l]}
		switch {
		case h.Epoch == 0 || h.Type == 20:
			dec.Plain, dec.OK = body, true
		case d.Has12:
			dec.Protect = true
			k := d.SW
			if from == d.Client {
				k = d.CW
			}
			pt, err := Open12(k, h, body)
			if err == nil {
				dec.OK = true
				if h.Type == 25 {
					content, typ, zeros, ok := InnerPlaintext(pt)
					dec.Plain, dec.Type, dec.Zeros, dec.OK = content, typ, zeros, ok
				} else {
					dec.Plain = pt
				}
			}
		default:
			dec.Protect = true
		}
		out = append(out, dec)
		dg = dg[off+l:]
	}

	return out, true
}

// Reseal13 protects the content of a decoded unified record once more under the same generation and
// record number, with the header layout a different conforming sender could have chosen: 8- or
// 16-bit sequence number (S), with or without the length field (L).
func (d *Decoder) Reseal13(dec Decoded, sbit, lbit bool) ([]byte, error) {
	if dec.gen == 0 || !dec.OK {
		return nil, ErrFormat
	}
	inner := append(append([]byte(nil), dec.Plain...), dec.Type)
	inner = append(inner, make([]byte, dec.Zeros)...)

	return Seal13(d.Gens[dec.gen-1].keys, dec.Epoch, dec.Seq, dec.CID, sbit, lbit, inner)
}
