package pbt

import (
	"fmt"
	"regexp"
	"runtime"
	"runtime/debug"
	"strings"
	"sync"
	"testing"
	"testing/synctest"
)

var (
	curT   *testing.T
	curTMu sync.Mutex
)

func setT(t *testing.T) {
	curTMu.Lock()
	curT = t
	curTMu.Unlock()
}

// BubbleError describes an abnormal end of a bubble.
type BubbleError struct {
	Deadlock bool
	Value    any
	Stack    string
}

func (e *BubbleError) Error() string { return fmt.Sprintf("bubble: %v", e.Value) }

// Bubble runs fn inside a testing/synctest bubble (virtual clock). It returns a *BubbleError
// if fn panicked or if goroutines were left durably blocked when fn returned.
func Bubble(fn func()) (berr *BubbleError) {
	curTMu.Lock()
	t := curT
	curTMu.Unlock()
	if t == nil {
		panic("pbt.Bubble outside RunAll/Replay")
	}
	done := make(chan struct{})
	go func() {
		defer close(done)
		defer func() {
			if rec := recover(); rec != nil {
				msg := fmt.Sprint(rec)
				berr = &BubbleError{Deadlock: strings.Contains(msg, "deadlock"), Value: rec, Stack: string(debug.Stack())}
			}
		}()
		synctest.Test(t, func(*testing.T) {
			defer func() {
				if rec := recover(); rec != nil {
					berr = &BubbleError{Value: rec, Stack: string(debug.Stack())}
				}
			}()
			fn()
		})
	}()
	<-done

	return berr
}

var bubbleRe = regexp.MustCompile(`(?m)^goroutine (\d+) (?:gp=\S+ m=\S+ )?(?:mp=\S+ )?\[([^\]]*)\]:`)

// BubbleGoroutines returns the stacks of the goroutines that belong to a synctest bubble,
// other than the calling goroutine. Call from inside the bubble after synctest.Wait().
func BubbleGoroutines() []string {
	buf := make([]byte, 1<<20)
	n := runtime.Stack(buf, true)
	all := strings.Split(string(buf[:n]), "\n\n")
	var out []string
	for i, g := range all {
		if i == 0 {
			continue // the caller
		}
		head := g
		if j := strings.IndexByte(g, '\n'); j >= 0 {
			head = g[:j]
		}
		if strings.Contains(head, "synctest bubble") && !strings.Contains(head, "durable") || strings.Contains(head, "synctest bubble") {
			out = append(out, g)
		}
	}

	return out
}
