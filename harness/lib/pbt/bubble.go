package pbt

import (
	"fmt"
	"regexp"
	"runtime"
	"runtime/debug"
	"sort"
	"strings"
	"sync"
	"testing"
	"testing/synctest"
	"time"
)

var (
	curT   *testing.T
	curTMu sync.Mutex
)

func setT(t *testing.T) {
	curTMu.Lock()
	curT = t
	curTMu.Unlock()
}

// BubbleError describes an abnormal end of a bubble.
type BubbleError struct {
	Deadlock bool
	Value    any
	Stack    string
}

func (e *BubbleError) Error() string { return fmt.Sprintf("bubble: %v", e.Value) }

// Bubble runs fn inside a testing/synctest bubble (virtual clock). It returns a *BubbleError
// if fn panicked or if goroutines were left durably blocked when fn returned.
func Bubble(fn func()) (berr *BubbleError) {
	curTMu.Lock()
	t := curT
	curTMu.Unlock()
	if t == nil {
		panic("pbt.Bubble outside RunAll/Replay")
	}
	done := make(chan struct{})
	go func() {
		defer close(done)
		defer func() {
			if rec := recover(); rec != nil {
				msg := fmt.Sprint(rec)
				berr = &BubbleError{Deadlock: strings.Contains(msg, "deadlock"), Value: rec, Stack: string(debug.Stack())}
			}
		}()
		synctest.Test(t, func(*testing.T) {
			defer func() {
				if rec := recover(); rec != nil {
					berr = &BubbleError{Value: rec, Stack: string(debug.Stack())}
				}
			}()
			fn()
		})
	}()
	<-done

	return berr
}

var gidRe = regexp.MustCompile(`^goroutine (\d+) `)

func snapshotBubble() map[string]string {
	buf := make([]byte, 1<<20)
	n := runtime.Stack(buf, true)
	all := strings.Split(string(buf[:n]), "\n\n")
	out := map[string]string{}
	for i, g := range all {
		if i == 0 {
			continue // the caller
		}
		head := g
		if j := strings.IndexByte(g, '\n'); j >= 0 {
			head = g[:j]
		}
		if !strings.Contains(head, "synctest bubble") {
			continue
		}
		// the bubble's own infrastructure
		if strings.Contains(g, "internal/synctest.Run(") || strings.Contains(g, "synctest.testingSynctestTest(") || strings.Contains(g, "testing.tRunner(") {
			continue
		}
		// a goroutine on its way out is not a leak
		if strings.Contains(head, "[runnable") || strings.Contains(head, "[running") {
			continue
		}
		if m := gidRe.FindStringSubmatch(head); m != nil {
			out[m[1]] = g
		}
	}

	return out
}

// BubbleGoroutines returns the stacks of goroutines (other than the caller and the bubble's
// own infrastructure) that are parked inside a synctest bubble and stay parked across a virtual
// second. Call from inside the bubble after everything was closed.
func BubbleGoroutines() []string {
	synctest.Wait()
	first := snapshotBubble()
	if len(first) == 0 {
		return nil
	}
	time.Sleep(time.Second)
	synctest.Wait()
	second := snapshotBubble()
	var out []string
	for id, g := range second {
		if _, ok := first[id]; ok {
			out = append(out, g)
		}
	}
	sort.Strings(out)

	return out
}
