// Package pbt is the small framework shared by every property check: it wraps rapid
// (generation + shrinking), deterministic enumerations, per-case verdicts with root-cause
// signatures, the known-findings protocol, evidence statistics and replay.
//
// Environment (set by /verif/bin/check):
//
//	VERIF_OUT     directory for statistics / failing cases (required for stats)
//	VERIF_SEED    integer seed
//	VERIF_TIER    quick | thorough
//	VERIF_SHARD   index of this process, VERIF_SHARDS total number
//	VERIF_KNOWN   path of known_findings.json
//	VERIF_REPLAY  path of a replay file: run exactly that case
//	VERIF_SCALE   float multiplier on case counts
//	VERIF_ONLY    regexp: run only props whose name matches
package pbt

import (
	"crypto/sha256"
	"encoding/binary"
	"encoding/json"
	"flag"
	"fmt"
	"hash/fnv"
	"os"
	"path/filepath"
	"regexp"
	"runtime"
	"runtime/debug"
	"sort"
	"strconv"
	"strings"
	"sync"
	"testing"
	"time"

	"pgregory.net/rapid"
)

// R is the verdict and the statistics of one executed case.
type R struct {
	prop   *propState
	failed bool
	Sig    string
	Msg    string

	evals    []eval
	selfNT   bool
	selfCls  []string
	selfKey  string
	excluded int
	known    map[string]string
}

type eval struct {
	key     string
	nt      bool
	classes []string
}

// Failf records a violation with a root-cause signature. If the signature is listed as a
// known finding it is only counted and false is returned (the run may continue past it).
func (r *R) Failf(sig, format string, a ...any) bool {
	msg := fmt.Sprintf(format, a...)
	if isKnown(sig) {
		if r.known == nil {
			r.known = map[string]string{}
		}
		if _, ok := r.known[sig]; !ok {
			r.known[sig] = msg
		}

		return false
	}
	if !r.failed {
		r.failed = true
		r.Sig = sig
		r.Msg = msg
	}

	return true
}

// Failed reports whether an unlisted violation has been recorded.
func (r *R) Failed() bool { return r.failed }

// NonTrivial marks the case itself as satisfying the property's non-triviality rule.
func (r *R) NonTrivial() { r.selfNT = true }

// Class adds the case to a class of the distribution histogram.
func (r *R) Class(c string) { r.selfCls = append(r.selfCls, c) }

// Classf is Class with formatting.
func (r *R) Classf(format string, a ...any) { r.Class(fmt.Sprintf(format, a...)) }

// Key overrides the distinctness key of the case (default: canonical JSON of the case).
func (r *R) Key(k string) { r.selfKey = k }

// Eval registers one sub-evaluation (e.g. one forgery of a session). When a case registers
// sub-evaluations, they are what is counted instead of the case itself.
func (r *R) Eval(key string, nontrivial bool, classes ...string) {
	r.evals = append(r.evals, eval{key, nontrivial, classes})
}

// Excluded counts inputs excluded by construction.
func (r *R) Excluded(n int) { r.excluded += n }

// Prop describes one generated check.
type Prop[C any] struct {
	Name     string
	Quick    int // total rapid cases in the quick tier (all shards together)
	Thorough int
	Gen      func(t *rapid.T) C
	// Enum, if set, enumerates a finite space deterministically (sharded by index).
	Enum       func(tier string, yield func(C) bool)
	Exhaustive bool // the enumeration is a complete finite sub-space
	Run        func(c C, r *R)
	Crashy     bool   // write the case to a side file before running it
	Rule       string // what is generated, what makes a case non-trivial and distinct
	// ShrinkTime bounds rapid's shrinking of a failing case (default: rapid's 30 s); for properties
	// whose failing evaluations are slow (real sockets, wall-clock waits).
	ShrinkTime time.Duration
}

type propState struct {
	name       string
	rule       string
	exhaustive bool
	runRapid   func(t *testing.T, n int, seed uint64)
	runEnum    func(t *testing.T, tier string, shard, shards int)
	replay     func(raw json.RawMessage) *R
	quick      int
	thorough   int

	mu          sync.Mutex
	evaluations int
	cases       int
	nontrivial  map[uint64]struct{}
	classes     map[string]int
	samples     []json.RawMessage
	excluded    int
	known       map[string]*knownHit
	violations  []violation
	lastFail    *violation
	enumSize    int
	wall        float64
}

type knownHit struct {
	Count int             `json:"count"`
	First string          `json:"first"`
	Case  json.RawMessage `json:"case,omitempty"` // first case that hit the listed signature
}

type violation struct {
	Sig  string          `json:"sig"`
	Msg  string          `json:"msg"`
	Case json.RawMessage `json:"case"`
	File string          `json:"file"`
}

var (
	registry []*propState
	knownSet = map[string]string{}
	knownMu  sync.Mutex
)

func isKnown(sig string) bool {
	knownMu.Lock()
	defer knownMu.Unlock()
	_, ok := knownSet[sig]

	return ok
}

func loadKnown() {
	path := os.Getenv("VERIF_KNOWN")
	if path == "" {
		return
	}
	raw, err := os.ReadFile(path)
	if err != nil {
		return
	}
	var kf struct {
		Findings []struct {
			Property  string `json:"property"`
			Signature string `json:"signature"`
			Status    string `json:"status"`
			What      string `json:"what"`
		} `json:"findings"`
	}
	if json.Unmarshal(raw, &kf) != nil {
		return
	}
	for _, f := range kf.Findings {
		if f.Status == "known" {
			knownSet[f.Signature] = f.What
		}
	}
}

func envInt(name string, def int) int {
	if v, err := strconv.Atoi(os.Getenv(name)); err == nil {
		return v
	}

	return def
}

func tier() string {
	if os.Getenv("VERIF_TIER") == "thorough" {
		return "thorough"
	}

	return "quick"
}

// Tier returns the current tier name.
func Tier() string { return tier() }

func scale() float64 {
	if v, err := strconv.ParseFloat(os.Getenv("VERIF_SCALE"), 64); err == nil && v > 0 {
		return v
	}

	return 1
}

func hash64(s string) uint64 {
	sum := sha256.Sum256([]byte(s))

	return binary.BigEndian.Uint64(sum[:8])
}

func (p *propState) account(caseJSON []byte, r *R) {
	p.mu.Lock()
	defer p.mu.Unlock()
	p.cases++
	p.excluded += r.excluded
	for sig, msg := range r.known {
		h := p.known[sig]
		if h == nil {
			h = &knownHit{First: msg, Case: append(json.RawMessage(nil), caseJSON...)}
			p.known[sig] = h
		}
		h.Count++
	}
	nt := false
	if len(r.evals) == 0 {
		p.evaluations++
		key := r.selfKey
		if key == "" {
			key = string(caseJSON)
		}
		if r.selfNT {
			nt = true
			p.nontrivial[hash64(key)] = struct{}{}
		}
		for _, c := range r.selfCls {
			p.classes[c]++
		}
	} else {
		for _, e := range r.evals {
			p.evaluations++
			if e.nt {
				nt = true
				p.nontrivial[hash64(e.key)] = struct{}{}
			}
			for _, c := range e.classes {
				p.classes[c]++
			}
		}
		for _, c := range r.selfCls {
			p.classes[c]++
		}
	}
	if len(caseJSON) <= 6000 {
		if (nt && len(p.samples) < 3) || p.cases == 50 || p.cases == 500 {
			p.samples = append(p.samples, json.RawMessage(append([]byte(nil), caseJSON...)))
		}
	} else if nt && len(p.samples) < 2 {
		trunc, _ := json.Marshal(map[string]any{"truncated_case_prefix": string(caseJSON[:3000])})
		p.samples = append(p.samples, trunc)
	}
}

func outDir() string { return os.Getenv("VERIF_OUT") }

func shardID() int { return envInt("VERIF_SHARD", 0) }

func (p *propState) recordFailure(caseJSON []byte, r *R) {
	p.mu.Lock()
	defer p.mu.Unlock()
	v := &violation{Sig: r.Sig, Msg: r.Msg, Case: append([]byte(nil), caseJSON...)}
	p.lastFail = v
	if dir := outDir(); dir != "" {
		v.File = filepath.Join(dir, fmt.Sprintf("fail-%d-%s.json", shardID(), p.name))
		writeReplay(v.File, p.name, v)
	}
}

func writeReplay(path, name string, v *violation) {
	raw, _ := json.MarshalIndent(map[string]any{
		"check": name, "signature": v.Sig, "message": v.Msg, "case": v.Case,
	}, "", " ")
	_ = os.WriteFile(path, raw, 0o644)
}

func sideFile(name string, caseJSON []byte) {
	dir := outDir()
	if dir == "" {
		return
	}
	raw, _ := json.Marshal(map[string]any{"check": name, "signature": "crash", "case": json.RawMessage(caseJSON)})
	_ = os.WriteFile(filepath.Join(dir, fmt.Sprintf("current-%d.json", shardID())), raw, 0o644)
}

var pionFrame = regexp.MustCompile(`github\.com/pion/dtls/v3(?:/[\w/]+)?\.[\w.()*\[\]]+`)

// PanicSig derives a root-cause signature from a panic stack: the innermost pion/dtls
// function that is not part of the harness.
func PanicSig(prefix string, stack []byte) string {
	for _, m := range pionFrame.FindAllString(string(stack), -1) {
		if strings.Contains(m, "zzverif") {
			continue
		}
		m = strings.TrimPrefix(m, "github.com/pion/dtls/v3")
		m = strings.TrimPrefix(m, "/")
		// drop the argument list "(0x...": only "(*T)" receivers keep their parenthesis
		for i := 0; i < len(m); i++ {
			if m[i] == '(' && (i+1 >= len(m) || m[i+1] != '*') {
				m = m[:i]

				break
			}
		}

		return prefix + "|panic|" + m
	}

	return prefix + "|panic|unknown"
}

func runGuarded[C any](p *Prop[C], c C, r *R, id string) {
	defer func() {
		if rec := recover(); rec != nil {
			st := debug.Stack()
			r.Failf(PanicSig(id, st), "panic: %v\n%s", rec, trimStack(st))
		}
	}()
	p.Run(c, r)
}

func trimStack(st []byte) string {
	s := string(st)
	if len(s) > 3000 {
		s = s[:3000]
	}

	return s
}

// watchdog aborts the process when one case exceeds VERIF_CASE_TIMEOUT seconds of wall time
// (default 120): inside a synctest bubble a goroutine parked on a mutex keeps virtual time from
// advancing, so a lock cycle (or a harness mistake) shows up as a wall-clock hang. The case is
// written to hang-<shard>.json, all stacks are dumped, exit status 4.
func watchdog(name string, caseJSON []byte) func() {
	secs := envInt("VERIF_CASE_TIMEOUT", 120)
	t := time.AfterFunc(time.Duration(secs)*time.Second, func() {
		if dir := outDir(); dir != "" {
			raw, _ := json.Marshal(map[string]any{"check": name, "signature": "hang", "case": json.RawMessage(caseJSON)})
			_ = os.WriteFile(filepath.Join(dir, fmt.Sprintf("hang-%d.json", shardID())), raw, 0o644)
		}
		buf := make([]byte, 1<<20)
		n := runtime.Stack(buf, true)
		fmt.Fprintf(os.Stderr, "VERIF-HANG check=%s case=%s\n%s\n", name, caseJSON, buf[:n])
		writeStats()
		os.Exit(4)
	})

	return func() { t.Stop() }
}

// replayWatchdog is the watchdog of the replay path: a case that does not finish within
// VERIF_CASE_TIMEOUT seconds prints REPLAY-HANG with all stacks and exits with status 4.
func replayWatchdog(name string) func() {
	secs := envInt("VERIF_CASE_TIMEOUT", 120)
	t := time.AfterFunc(time.Duration(secs)*time.Second, func() {
		buf := make([]byte, 1<<20)
		n := runtime.Stack(buf, true)
		fmt.Printf("REPLAY-HANG check=%s after %ds\n%s\n", name, secs, buf[:n])
		os.Exit(4)
	})

	return func() { t.Stop() }
}

var propID = "C??"

// SetID sets the property id used for panic signatures.
func SetID(id string) { propID = id }

// Register adds a property to the registry of this test binary.
func Register[C any](p Prop[C]) {
	ps := &propState{
		name: p.Name, rule: p.Rule, exhaustive: p.Exhaustive, quick: p.Quick, thorough: p.Thorough,
		nontrivial: map[uint64]struct{}{}, classes: map[string]int{}, known: map[string]*knownHit{},
	}
	exec := func(c C) (*R, []byte) {
		caseJSON, err := json.Marshal(c)
		if err != nil {
			panic(fmt.Sprintf("pbt: case of %s not serialisable: %v", p.Name, err))
		}
		if p.Crashy {
			sideFile(p.Name, caseJSON)
		}
		r := &R{prop: ps}
		stopWatch := watchdog(p.Name, caseJSON)
		runGuarded(&p, c, r, propID)
		stopWatch()
		ps.account(caseJSON, r)
		if r.failed {
			ps.recordFailure(caseJSON, r)
		}

		return r, caseJSON
	}
	if p.Gen != nil {
		ps.runRapid = func(t *testing.T, n int, seed uint64) {
			_ = flag.Set("rapid.checks", strconv.Itoa(n))
			_ = flag.Set("rapid.seed", strconv.FormatUint(seed, 10))
			_ = flag.Set("rapid.nofailfile", "true")
			if p.ShrinkTime > 0 {
				_ = flag.Set("rapid.shrinktime", p.ShrinkTime.String())
			} else {
				_ = flag.Set("rapid.shrinktime", "30s")
			}
			rapid.Check(t, func(rt *rapid.T) {
				c := p.Gen(rt)
				r, _ := exec(c)
				if r.failed {
					rt.Fatalf("%s", r.Sig)
				}
			})
		}
	}
	if p.Enum != nil {
		ps.runEnum = func(t *testing.T, tr string, shard, shards int) {
			i := 0
			p.Enum(tr, func(c C) bool {
				mine := i%shards == shard
				i++
				if !mine {
					return true
				}
				r, cj := exec(c)
				if r.failed {
					if os.Getenv("VERIF_CONTINUE") != "" {
						// triage mode: collect the first case of every distinct signature
						ps.mu.Lock()
						dup := false
						for _, v := range ps.violations {
							if v.Sig == r.Sig {
								dup = true
							}
						}
						if !dup {
							ps.violations = append(ps.violations, violation{Sig: r.Sig, Msg: r.Msg, Case: cj})
						}
						ps.lastFail = nil
						ps.mu.Unlock()

						return true
					}
					t.Errorf("%s: %s", r.Sig, r.Msg)

					return false
				}

				return true
			})
			ps.enumSize = i
		}
	}
	ps.replay = func(raw json.RawMessage) *R {
		var c C
		if err := json.Unmarshal(raw, &c); err != nil {
			r := &R{}
			r.failed = true
			r.Sig = "replay|undecodable"
			r.Msg = err.Error()

			return r
		}
		r := &R{prop: ps}
		runGuarded(&p, c, r, propID)

		return r
	}
	registry = append(registry, ps)
}

// RunAll runs every registered property for the current tier and shard.
func RunAll(t *testing.T) {
	if os.Getenv("VERIF_REPLAY") != "" {
		t.Skip("replay mode")
	}
	only := os.Getenv("VERIF_ONLY")
	var onlyRe *regexp.Regexp
	if only != "" {
		onlyRe = regexp.MustCompile(only)
	}
	shard, shards := shardID(), envInt("VERIF_SHARDS", 1)
	seed := uint64(envInt("VERIF_SEED", 1)) //nolint:gosec
	for _, ps := range registry {
		if onlyRe != nil && !onlyRe.MatchString(ps.name) {
			continue
		}
		ps := ps
		t.Run(ps.name, func(t *testing.T) {
			setT(t)
			start := time.Now()
			defer func() {
				ps.wall += time.Since(start).Seconds()
				if t.Failed() {
					ps.mu.Lock()
					if ps.lastFail != nil {
						ps.violations = append(ps.violations, *ps.lastFail)
					} else {
						ps.violations = append(ps.violations, violation{Sig: "unattributed", Msg: "test failed without a recorded case"})
					}
					ps.mu.Unlock()
				}
			}()
			if ps.runEnum != nil {
				ps.runEnum(t, tier(), shard, shards)
			}
			if ps.runRapid != nil && !t.Failed() {
				n := ps.quick
				if tier() == "thorough" {
					n = ps.thorough
				}
				n = int(float64(n)*scale()+float64(shards)-1) / shards
				if n < 1 {
					n = 1
				}
				h := fnv.New64a()
				_, _ = fmt.Fprintf(h, "%d/%d/%s", seed, shard, ps.name)
				s := h.Sum64() | 1
				ps.runRapid(t, n, s)
			}
		})
	}
}

// Replay runs the case stored in VERIF_REPLAY and fails the test if it violates.
func Replay(t *testing.T) {
	path := os.Getenv("VERIF_REPLAY")
	if path == "" {
		t.Skip("no VERIF_REPLAY")
	}
	if st, err := os.Stat(path); err == nil && st.IsDir() {
		// regression tier: every saved case in the directory, in name order
		ents, _ := os.ReadDir(path)
		n := 0
		for _, e := range ents {
			if e.IsDir() || !strings.HasSuffix(e.Name(), ".json") {
				continue
			}
			n++
			replayFile(t, filepath.Join(path, e.Name()))
		}
		fmt.Printf("REPLAY-OK files=%d\n", n)

		return
	}
	replayFile(t, path)
	fmt.Println("REPLAY-OK")
}

func replayFile(t *testing.T, path string) {
	raw, err := os.ReadFile(path)
	if err != nil {
		t.Fatalf("replay: %v", err)
	}
	var rf struct {
		Check string          `json:"check"`
		Case  json.RawMessage `json:"case"`
	}
	if err := json.Unmarshal(raw, &rf); err != nil {
		t.Fatalf("replay: %v", err)
	}
	for _, ps := range registry {
		if ps.name != rf.Check {
			continue
		}
		setT(t)
		stopWatch := replayWatchdog(rf.Check + " file=" + path)
		r := ps.replay(rf.Case)
		stopWatch()
		for sig := range r.known {
			fmt.Printf("REPLAY-KNOWN sig=%s\n", sig)
		}
		if r.failed {
			fmt.Printf("REPLAY-VIOLATION sig=%s file=%s\n%s\n", r.Sig, path, r.Msg)
			t.Fatalf("violation reproduced: %s", r.Sig)
		}

		return
	}
	t.Fatalf("replay: unknown check %q in %s", rf.Check, path)
}

type propOut struct {
	Name        string               `json:"name"`
	Rule        string               `json:"rule"`
	Exhaustive  bool                 `json:"exhaustive"`
	EnumSize    int                  `json:"enum_size"`
	Evaluations int                  `json:"evaluations"`
	Cases       int                  `json:"cases"`
	Hashes      []string             `json:"hashes"`
	Classes     map[string]int       `json:"classes"`
	Samples     []json.RawMessage    `json:"samples"`
	Excluded    int                  `json:"excluded"`
	Known       map[string]*knownHit `json:"known"`
	Violations  []violation          `json:"violations"`
	WallS       float64              `json:"wall_s"`
}

func writeStats() {
	dir := outDir()
	if dir == "" {
		return
	}
	out := struct {
		Shard int       `json:"shard"`
		Props []propOut `json:"props"`
	}{Shard: shardID()}
	for _, ps := range registry {
		po := propOut{
			Name: ps.name, Rule: ps.rule, Exhaustive: ps.exhaustive && ps.runEnum != nil, EnumSize: ps.enumSize,
			Evaluations: ps.evaluations, Cases: ps.cases, Classes: ps.classes, Samples: ps.samples,
			Excluded: ps.excluded, Known: ps.known, Violations: ps.violations, WallS: ps.wall,
		}
		hs := make([]uint64, 0, len(ps.nontrivial))
		for h := range ps.nontrivial {
			hs = append(hs, h)
		}
		sort.Slice(hs, func(i, j int) bool { return hs[i] < hs[j] })
		for _, h := range hs {
			po.Hashes = append(po.Hashes, strconv.FormatUint(h, 36))
		}
		out.Props = append(out.Props, po)
	}
	raw, _ := json.Marshal(out)
	tmp := filepath.Join(dir, fmt.Sprintf("shard-%d.json.tmp", shardID()))
	_ = os.WriteFile(tmp, raw, 0o644)
	_ = os.Rename(tmp, filepath.Join(dir, fmt.Sprintf("shard-%d.json", shardID())))
}

// Main is the TestMain body of every check package.
func Main(m *testing.M, id string) {
	SetID(id)
	loadKnown()
	runtime.GOMAXPROCS(envInt("VERIF_PROCS", runtime.GOMAXPROCS(0)))
	code := m.Run()
	if os.Getenv("VERIF_REPLAY") == "" {
		writeStats()
	}
	os.Exit(code)
}
