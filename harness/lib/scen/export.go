package scen

import (
	"bytes"
	"encoding/gob"
	"fmt"

	dtls "github.com/pion/dtls/v3"
	"github.com/pion/dtls/v3/internal/zzverif/lib/vnet"
)

// MirrorState mirrors the gob layout of an exported DTLS 1.2 state.
type MirrorState struct {
	Version               struct{ Major, Minor uint8 }
	LocalEpoch            uint16
	RemoteEpoch           uint16
	LocalRandom           [32]byte
	RemoteRandom          [32]byte
	CipherSuiteID         uint16
	MasterSecret          []byte
	SequenceNumber        uint64
	SRTPProtectionProfile uint16
	PeerSRTPMKI           []byte
	PeerCertificates      [][]byte
	IdentityHint          []byte
	SessionID             []byte
	LocalConnectionID     []byte
	RemoteConnectionID    []byte
	RRCNegotiated         bool
	IsClient              bool
	NegotiatedProtocol    string
}

// DecodeState decodes serialised state bytes into the mirror.
func DecodeState(raw []byte) (*MirrorState, error) {
	var m MirrorState
	if err := gob.NewDecoder(bytes.NewReader(raw)).Decode(&m); err != nil {
		return nil, fmt.Errorf("mirror decode: %w", err)
	}

	return &m, nil
}

// EncodeState re-encodes a mirror into bytes UnmarshalBinary accepts.
func EncodeState(m *MirrorState) ([]byte, error) {
	var b bytes.Buffer
	if err := gob.NewEncoder(&b).Encode(*m); err != nil {
		return nil, err
	}

	return b.Bytes(), nil
}

// ExportImport serialises the state of side s, detaches the old connection, and resumes from
// the (optionally rewritten) bytes on a fresh endpoint bound to the same address. mutate may be
// nil. The new connection replaces s.Conn; the old one is closed (its close_notify goes nowhere).
func (p *Pair) ExportImport(s *Side, env *Env, ep *EP, mutate func(raw []byte) []byte) (raw []byte, err error) {
	st, ok := s.Conn.ConnectionState()
	if !ok {
		return nil, fmt.Errorf("no connection state")
	}
	old, oldEP := s.Conn, s.EP
	if p.ExportOrder == "close-first" {
		// the snapshot is taken, the old connection goes away, and only then is the snapshot serialised
		oldEP.Detach()
		_ = old.Close()
		s.readerWG.Wait()
		Settle()
	}
	raw, err = st.MarshalBinary()
	if err != nil {
		return nil, err
	}
	if p.ExportOrder == "interleave" {
		// another state is serialised while the first result is still held (a process checkpointing
		// several connections before shipping the blobs)
		other := p.C
		if s == p.C {
			other = p.S
		}
		if ost, ok := other.Conn.ConnectionState(); ok {
			_, _ = ost.MarshalBinary()
		}
	}
	use := raw
	if mutate != nil {
		use = mutate(append([]byte(nil), raw...))
	}
	var st2 dtls.State
	if err := st2.UnmarshalBinary(use); err != nil {
		return raw, fmt.Errorf("unmarshal: %w", err)
	}
	if p.ExportOrder != "close-first" {
		oldEP.Detach()
	}
	newEP := p.Net.Rebind(s.Name)
	peer := "S"
	if s.Name == "S" {
		peer = "C"
	}
	var opts []dtls.Option
	opts = append(opts, dtls.WithLoggerFactory(env.Log), dtls.WithKeyLogWriter(env.KeyLog))
	if ep.Window > 0 {
		opts = append(opts, dtls.WithReplayProtectionWindow(ep.Window))
	}
	if ep.MTU > 0 {
		opts = append(opts, dtls.WithMTU(ep.MTU))
	}
	if ep.Store != "" {
		opts = append(opts, dtls.WithSessionStore(env.Store(ep.Store)))
	}
	if ep.ServerName != "" {
		opts = append(opts, dtls.WithServerName(ep.ServerName)) // a client's session store key
	}
	if ep.Padding > 0 {
		pd := uint(ep.Padding) //nolint:gosec
		opts = append(opts, dtls.WithPaddingLengthGenerator(func(uint) uint { return pd }))
	}
	conn, err := dtls.ResumeWithOptions(&st2, newEP, vnet.Addr(peer), opts...)
	if err != nil {
		return raw, fmt.Errorf("resume: %w", err)
	}
	_ = old.Close()
	s.readerWG.Wait()
	s.mu.Lock()
	s.Conn, s.EP, s.readerOn = conn, newEP, false
	s.ReadErr, s.ReadEnd = nil, false
	s.mu.Unlock()
	_ = oldEP.Close()

	return raw, nil
}
