package scen

import (
	"context"
	"errors"
	"fmt"
	"io"
	"net"
	"strings"
	"sync"
	"testing/synctest"
	"time"

	dtls "github.com/pion/dtls/v3"
	"github.com/pion/dtls/v3/internal/zzverif/lib/vnet"
)

// Side is one endpoint of a pair with its observation logs.
type Side struct {
	Name    string
	Conn    *dtls.Conn
	EP      *vnet.Endpoint
	CtorErr error

	mu       sync.Mutex
	HSErr    error
	HSDone   bool
	HSAt     time.Duration
	Reads    [][]byte
	ReadAt   []time.Duration
	ReadErr  error
	ReadEnd  bool
	SoftErrs []error
	readerOn bool
	readerWG sync.WaitGroup
	net      *vnet.Net
}

// Pair is a client and a server joined by a virtual network.
type Pair struct {
	Net *vnet.Net
	Env *Env
	C   *Side
	S   *Side
	// ExportOrder varies the order of API calls in ExportImport: "" (serialise, resume, close the old
	// connection), "close-first" (snapshot, close the old connection, then serialise the snapshot),
	// "interleave" (another connection's state is serialised while the first blob is still held)
	ExportOrder string
}

// NewPair builds the network and both connections (constructor errors are recorded in
// Side.CtorErr). Must be called inside a bubble.
func NewPair(env *Env, c, s *EP) *Pair {
	n := vnet.New()

	return NewPairOn(n, env, c, s)
}

// NewPairOn is NewPair on an existing network.
func NewPairOn(n *vnet.Net, env *Env, c, s *EP) *Pair {
	p := &Pair{Net: n, Env: env, C: &Side{Name: "C", net: n}, S: &Side{Name: "S", net: n}}
	p.C.EP = n.Endpoint("C")
	p.S.EP = n.Endpoint("S")
	copts, err := c.ClientOptions(env)
	if err != nil {
		p.C.CtorErr = err
	} else {
		p.C.Conn, p.C.CtorErr = dtls.ClientWithOptions(p.C.EP, vnet.Addr("S"), copts...)
	}
	sopts, err := s.ServerOptions(env)
	if err != nil {
		p.S.CtorErr = err
	} else {
		p.S.Conn, p.S.CtorErr = dtls.ServerWithOptions(p.S.EP, vnet.Addr("C"), sopts...)
	}

	return p
}

// StartHandshake launches HandshakeContext on the side with the given virtual timeout.
func (s *Side) StartHandshake(timeout time.Duration) <-chan struct{} {
	done := make(chan struct{})
	if s.Conn == nil {
		s.mu.Lock()
		s.HSErr, s.HSDone = s.CtorErr, true
		s.mu.Unlock()
		close(done)

		return done
	}
	go func() {
		defer close(done)
		ctx, cancel := context.WithTimeout(context.Background(), timeout)
		defer cancel()
		err := s.Conn.HandshakeContext(ctx)
		s.mu.Lock()
		s.HSErr, s.HSDone, s.HSAt = err, true, s.net.Now()
		s.mu.Unlock()
	}()

	return done
}

// Handshake runs both handshakes to completion (success or failure).
func (p *Pair) Handshake(timeout time.Duration) {
	sd := p.S.StartHandshake(timeout)
	cd := p.C.StartHandshake(timeout)
	<-sd
	<-cd
}

// OK reports whether the side's handshake succeeded.
func (s *Side) OK() bool {
	s.mu.Lock()
	defer s.mu.Unlock()

	return s.HSDone && s.HSErr == nil && s.Conn != nil
}

// Err returns the handshake error.
func (s *Side) Err() error {
	s.mu.Lock()
	defer s.mu.Unlock()

	return s.HSErr
}

// StartReader starts a goroutine that logs every Read result until an error.
func (s *Side) StartReader() {
	if s.Conn == nil || s.readerOn {
		return
	}
	s.readerOn = true
	s.readerWG.Add(1)
	go func() {
		defer s.readerWG.Done()
		buf := make([]byte, 8192)
		for {
			n, err := s.Conn.Read(buf)
			s.mu.Lock()
			if err != nil {
				if !isTerminal(err) && len(s.SoftErrs) < 64 {
					// an error surfaced through Read while the connection stays usable
					s.SoftErrs = append(s.SoftErrs, err)
					s.mu.Unlock()

					continue
				}
				s.ReadErr, s.ReadEnd = err, true
				s.mu.Unlock()

				return
			}
			s.Reads = append(s.Reads, append([]byte(nil), buf[:n]...))
			s.ReadAt = append(s.ReadAt, s.net.Now())
			s.mu.Unlock()
		}
	}()
}

func isTerminal(err error) bool {
	if errors.Is(err, io.EOF) || errors.Is(err, net.ErrClosed) || errors.Is(err, dtls.ErrConnClosed) ||
		errors.Is(err, context.Canceled) || errors.Is(err, context.DeadlineExceeded) {
		return true
	}
	var to interface{ Timeout() bool }
	if errors.As(err, &to) && to.Timeout() {
		return true
	}
	s := err.Error()

	return strings.Contains(s, "closed") || strings.Contains(s, "handshake failed") || strings.Contains(s, "alert: Alert Fatal")
}

// SoftErrors returns the non-terminal errors Read has surfaced so far.
func (s *Side) SoftErrors() []error {
	s.mu.Lock()
	defer s.mu.Unlock()

	return append([]error(nil), s.SoftErrs...)
}

func isTemporary(err error) bool {
	var te interface{ Temporary() bool }
	if errors.As(err, &te) && te.Temporary() && !errors.Is(err, io.EOF) {
		var to interface{ Timeout() bool }
		if errors.As(err, &to) && to.Timeout() {
			return false
		}

		return true
	}

	return false
}

// ReadLog returns a copy of the payloads read so far.
func (s *Side) ReadLog() [][]byte {
	s.mu.Lock()
	defer s.mu.Unlock()

	return append([][]byte(nil), s.Reads...)
}

// ReadState returns the terminal read error, if the reader has stopped.
func (s *Side) ReadState() (error, bool) {
	s.mu.Lock()
	defer s.mu.Unlock()

	return s.ReadErr, s.ReadEnd
}

// Close closes both connections and endpoints and waits for the readers.
func (p *Pair) Close() {
	for _, s := range []*Side{p.C, p.S} {
		if s.Conn != nil {
			_ = s.Conn.Close()
		}
		_ = s.EP.Close()
	}
	p.C.readerWG.Wait()
	p.S.readerWG.Wait()
}

// Settle waits until every goroutine in the bubble is durably blocked.
func Settle() { synctest.Wait() }

// Exchange writes payloads c2s from the client and s2c from the server, waits for quiescence
// (plus a virtual grace period) and returns what each side read.
func (p *Pair) Exchange(c2s, s2c [][]byte) (gotS, gotC [][]byte, werr error) {
	p.C.StartReader()
	p.S.StartReader()
	baseS, baseC := len(p.S.ReadLog()), len(p.C.ReadLog())
	for _, m := range c2s {
		if _, err := p.C.Conn.Write(m); err != nil && werr == nil {
			werr = err
		}
	}
	for _, m := range s2c {
		if _, err := p.S.Conn.Write(m); err != nil && werr == nil {
			werr = err
		}
	}
	synctest.Wait()

	return p.S.ReadLog()[baseS:], p.C.ReadLog()[baseC:], werr
}

// Dump prints the tap (for debugging replays).
func (p *Pair) Dump() string {
	out := ""
	for _, ev := range p.Net.Events() {
		out += fmt.Sprintf("%10v %s->%s #%d %-12s %s\n", ev.T, ev.From, ev.To, ev.Idx, ev.Verdict, Describe(ev.Data, 0))
	}

	return out
}
