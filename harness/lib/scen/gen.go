package scen

import (
	"github.com/pion/dtls/v3/internal/zzverif/lib/vnet"
	"pgregory.net/rapid"
)

// Cipher suite ids by family.
var (
	SuitesECDSA = []uint16{0xc0ac, 0xc0ae, 0xc02b, 0xc02c, 0xc00a, 0xcca9}
	SuitesRSA   = []uint16{0xc02f, 0xc030, 0xc014, 0xcca8}
	SuitesPSK   = []uint16{0xc0a4, 0xc0a8, 0xc0a9, 0x00a8, 0x00ae, 0xccab}
	SuitesEPSK  = []uint16{0xc037}
	Suites13    = []uint16{0x1301, 0x1302, 0x1303}
	AllCurves   = []uint16{0x0017, 0x0018, 0x001d}
	CurveMLKEM  = uint16(0x11ec)
	SRTPAll     = []uint16{0x0001, 0x0002, 0x0003, 0x0004, 0x0005, 0x0006, 0x0007, 0x0008}
	ALPNAll     = []string{"h2", "http/1.1", "webrtc", "c-webrtc", "coap"}
)

// SuiteName gives a short name for evidence classes.
func SuiteName(id uint16) string {
	m := map[uint16]string{
		0xc0ac: "ECDSA-CCM", 0xc0ae: "ECDSA-CCM8", 0xc02b: "ECDSA-GCM128", 0xc02c: "ECDSA-GCM256", 0xc00a: "ECDSA-CBC", 0xcca9: "ECDSA-CHACHA",
		0xc02f: "RSA-GCM128", 0xc030: "RSA-GCM256", 0xc014: "RSA-CBC", 0xcca8: "RSA-CHACHA",
		0xc0a4: "PSK-CCM", 0xc0a8: "PSK-CCM8", 0xc0a9: "PSK-256CCM8", 0x00a8: "PSK-GCM", 0x00ae: "PSK-CBC", 0xccab: "PSK-CHACHA",
		0xc037: "ECDHEPSK-CBC", 0x1301: "13-AES128GCM", 0x1302: "13-AES256GCM", 0x1303: "13-CHACHA",
	}
	if s, ok := m[id]; ok {
		return s
	}

	return "suite?"
}

func subsetWith[T comparable](t *rapid.T, label string, all []T, must T, hasMust bool) []T {
	var out []T
	for _, x := range all {
		if hasMust && x == must {
			continue
		}
		if rapid.IntRange(0, 2).Draw(t, label+"in") == 0 {
			out = append(out, x)
		}
	}
	if hasMust {
		out = append(out, must)
	}
	if len(out) > 1 {
		out = rapid.Permutation(out).Draw(t, label+"perm")
	}

	return out
}

// Meta describes how a generated pair was built.
type Meta struct {
	Version int    `json:"version"` // intended negotiated version 12/13
	Family  string `json:"family"`  // ecdsa, ed25519, rsa, psk, epsk
	Dual    string `json:"dual,omitempty"`
}

// GenOpts tunes GenPair.
type GenOpts struct {
	Only12    bool
	Only13    bool
	NoTinyMTU bool
	NoPSK     bool
}

// GenPair draws a client/server option pair by construction around an intended agreement, so
// that most pairs are compatible; a small fraction is deliberately left to chance.
func GenPair(t *rapid.T, o GenOpts) (c, s EP, m Meta) {
	vmode := rapid.IntRange(0, 9).Draw(t, "vmode")
	if o.Only12 {
		vmode = 0
	}
	if o.Only13 {
		vmode = 6
	}
	switch {
	case vmode <= 3: // 1.2 only on both (library default)
		m.Version = 12
		if vmode == 1 {
			c.MinVer, c.MaxVer, s.MinVer, s.MaxVer = 12, 12, 12, 12
		}
	case vmode == 4: // dual client, 1.2 server
		m.Version, m.Dual = 12, "client"
		c.MinVer, c.MaxVer = 12, 13
	case vmode == 5: // 1.2 client, dual server
		m.Version, m.Dual = 12, "server"
		s.MinVer, s.MaxVer = 12, 13
	case vmode <= 8: // 1.3 only both
		m.Version = 13
		c.MinVer, c.MaxVer, s.MinVer, s.MaxVer = 13, 13, 13, 13
	case rapid.Bool().Draw(t, "dualboth"): // dual both → 1.3
		m.Version, m.Dual = 13, "both"
		c.MinVer, c.MaxVer, s.MinVer, s.MaxVer = 12, 13, 12, 13
	default: // dual client, 1.3-only server
		m.Version, m.Dual = 13, "client"
		c.MinVer, c.MaxVer, s.MinVer, s.MaxVer = 12, 13, 13, 13
	}
	fams := []string{"ecdsa", "ecdsa", "ed25519", "rsa", "psk", "epsk"}
	if o.NoPSK {
		fams = []string{"ecdsa", "ecdsa", "ed25519", "rsa"}
	}
	if m.Version == 13 || m.Dual != "" {
		// DTLS 1.3 in this tree is certificate-only and has no RSA signature support
		fams = []string{"ecdsa", "ecdsa", "ed25519"}
	}
	m.Family = rapid.SampledFrom(fams).Draw(t, "family")
	var fam12 []uint16
	switch m.Family {
	case "ecdsa", "ed25519":
		fam12 = SuitesECDSA
		s.Cert = m.Family
		if m.Family == "ecdsa" {
			// chain shapes: leaf + root, leaf alone, leaf + intermediate
			s.Cert = rapid.SampledFrom([]string{"ecdsa", "ecdsa", "ecdsa-leafonly", "ecdsa-inter"}).Draw(t, "schain")
		}
	case "rsa":
		fam12 = SuitesRSA
		s.Cert = "rsa"
	case "psk":
		fam12 = SuitesPSK
	case "epsk":
		fam12 = SuitesEPSK
	}
	if m.Family == "psk" || m.Family == "epsk" {
		c.PSK, s.PSK = "verif-psk-key-0123", "verif-psk-key-0123"
		c.PSKHint, s.PSKHint = "client-id", "server-hint"
	} else {
		c.RootCA, c.ServerName = 1, ServerName
		if rapid.IntRange(0, 5).Draw(t, "noverify") == 0 {
			c.RootCA, c.ServerName, c.NoVerify = 0, "", true
			if rapid.Bool().Draw(t, "noverifysni") {
				c.ServerName = ServerName // still names the server it wants
			}
		}
	}
	// cipher suites: explicit lists on either side, or defaults
	pool := fam12
	if m.Version == 13 {
		pool = Suites13
	}
	if m.Dual != "" {
		pool = append(append([]uint16(nil), fam12...), Suites13...)
	}
	agreed := rapid.SampledFrom(pool).Draw(t, "agreed")
	if m.Dual != "" {
		// both versions' suites must be listed for a dual-stack endpoint to keep its range
		if m.Version == 13 {
			agreed = rapid.SampledFrom(Suites13).Draw(t, "agreed13")
		} else {
			agreed = rapid.SampledFrom(fam12).Draw(t, "agreed12")
		}
	}
	explicitC := rapid.IntRange(0, 2).Draw(t, "explC") != 0
	explicitS := rapid.IntRange(0, 2).Draw(t, "explS") != 0
	if m.Family == "psk" || m.Family == "epsk" {
		explicitC, explicitS = true, true
	}
	if (!explicitC || !explicitS) && agreed>>8 != 0x13 {
		// a side using the library defaults only offers/accepts the default 1.2 list (no CCM)
		def := []uint16{0xc02b, 0xcca9, 0xc00a, 0xc02c}
		if m.Family == "rsa" {
			def = []uint16{0xc02f, 0xcca8, 0xc014, 0xc030}
		}
		agreed = rapid.SampledFrom(def).Draw(t, "agreedDefault")
	}
	mk := func(label string, dualSide bool) []uint16 {
		l := subsetWith(t, label, pool, agreed, true)
		if dualSide {
			// keep at least one suite of each version so the configured range survives
			has12, has13 := false, false
			for _, x := range l {
				if x>>8 == 0x13 {
					has13 = true
				} else {
					has12 = true
				}
			}
			if !has12 {
				l = append(l, fam12[0])
			}
			if !has13 {
				l = append(l, Suites13[0])
			}
		}

		return l
	}
	if explicitC {
		c.Suites = mk("cs", m.Dual == "client" || m.Dual == "both")
	}
	if explicitS {
		s.Suites = mk("ss", m.Dual == "server" || m.Dual == "both")
	}
	// curves
	if rapid.IntRange(0, 2).Draw(t, "curvesC") == 0 {
		cv := rapid.SampledFrom(AllCurves).Draw(t, "curve")
		c.Curves = subsetWith(t, "cc", AllCurves, cv, true)
		if rapid.Bool().Draw(t, "curvesS") {
			s.Curves = subsetWith(t, "sc", AllCurves, cv, true)
		}
	}
	// EMS
	ems := rapid.SampledFrom([][2]int{{0, 0}, {0, 0}, {1, 0}, {0, 1}, {1, 1}, {2, 2}, {0, 2}, {2, 0}}).Draw(t, "ems")
	c.EMS, s.EMS = ems[0], ems[1]
	// client authentication
	if m.Family != "psk" && m.Family != "epsk" {
		s.ClientAuth = rapid.SampledFrom([]int{0, 0, 0, 1, 2, 3, 4}).Draw(t, "cauth")
		if s.ClientAuth >= 3 {
			s.ClientCAs = true
		}
		ccs := []string{"", "client-ecdsa", "client-ed25519", "client-ecdsa-leafonly", "client-ecdsa-inter", "client-rsa"}
		if m.Version == 13 || m.Dual != "" {
			ccs = ccs[:5]
		}
		cc := rapid.SampledFrom(ccs).Draw(t, "ccert")
		if s.ClientAuth == 2 || s.ClientAuth == 4 {
			if cc == "" {
				cc = "client-ecdsa"
			}
		}
		c.Cert = cc
		if cc != "" && rapid.IntRange(0, 2).Draw(t, "ccertcb") == 0 {
			c.CertCallback = true
		}
		if s.ClientCAs && rapid.Bool().Draw(t, "ccasmulti") {
			s.ClientCAsMulti = true
		}
	}
	// several server certificates: a decoy for another name in front, the requested name (sent in another
	// letter case than the certificate spells it) selects the right one
	// (the server filters its suite list by the key type of its first certificate, so the decoy has the family's type)
	if s.Cert != "" && m.Family != "rsa" && c.ServerName != "" && rapid.IntRange(0, 3).Draw(t, "smulti") == 0 {
		s.CertsBefore = []string{"wrongname"}
		c.ServerName = rapid.SampledFrom([]string{ServerName, "Server.Test", "SERVER.TEST", "server.TEST"}).Draw(t, "snicase")
	}
	// connection ids
	cidv := []int{0, 0, 0, -1, 1000, 1, 4, 8}
	c.CID = rapid.SampledFrom(cidv).Draw(t, "cidC")
	s.CID = rapid.SampledFrom(cidv).Draw(t, "cidS")
	if rapid.IntRange(0, 3).Draw(t, "cidBoth") == 0 {
		c.CID, s.CID = rapid.IntRange(1, 8).Draw(t, "cidCl"), rapid.IntRange(1, 8).Draw(t, "cidSl")
	}
	if c.CID != 0 && s.CID != 0 && rapid.IntRange(0, 3).Draw(t, "pad") == 0 {
		c.Padding = rapid.IntRange(1, 40).Draw(t, "padC")
		s.Padding = rapid.IntRange(1, 40).Draw(t, "padS")
	}
	// SRTP
	if rapid.IntRange(0, 2).Draw(t, "srtp") == 0 {
		p := rapid.SampledFrom(SRTPAll).Draw(t, "srtpP")
		c.SRTP = subsetWith(t, "srtpC", SRTPAll, p, true)
		s.SRTP = subsetWith(t, "srtpS", SRTPAll, p, true)
		switch rapid.IntRange(0, 3).Draw(t, "mki") {
		case 1:
			c.MKI = []byte{1, 2, 3, 4}
			s.MKI = []byte{1, 2, 3, 4}
		case 2:
			c.MKI = []byte{9, 9}
		case 3:
			c.MKI = []byte{7}
			s.MKI = []byte{8}
		}
	}
	// ALPN
	if rapid.IntRange(0, 2).Draw(t, "alpn") == 0 {
		p := rapid.SampledFrom(ALPNAll).Draw(t, "alpnP")
		c.ALPN = subsetWith(t, "alpnC", ALPNAll, p, true)
		if rapid.IntRange(0, 4).Draw(t, "alpnSrv") != 0 {
			s.ALPN = subsetWith(t, "alpnS", ALPNAll, p, true)
		}
	}
	// MTU
	genMTU := func(label string) int {
		switch rapid.IntRange(0, 5).Draw(t, label+"k") {
		case 0, 1, 2:
			return 0
		case 3:
			if o.NoTinyMTU {
				return rapid.IntRange(200, 600).Draw(t, label)
			}

			return rapid.IntRange(40, 200).Draw(t, label)
		default:
			return rapid.IntRange(200, 1500).Draw(t, label)
		}
	}
	c.MTU, s.MTU = genMTU("mtuC"), genMTU("mtuS")
	s.SkipHelloVfy = rapid.IntRange(0, 2).Draw(t, "skiphv") == 0
	c.MaxFirst, s.MaxFirst = rapid.Bool().Draw(t, "maxfirstC"), rapid.Bool().Draw(t, "maxfirstS")
	// a session store on one side only (the server then still issues a session id the client has no use
	// for; the client then offers nothing the server could know)
	switch rapid.IntRange(0, 7).Draw(t, "onestore") {
	case 0:
		s.Store = "ss-only"
	case 1:
		c.Store = "cs-only"
	}

	return c, s, m
}

// GenFaults draws a fault mask over the first n datagrams of one direction.
func GenFaults(t *rapid.T, label string, n int) []vnet.Fault {
	if rapid.IntRange(0, 3).Draw(t, label+"none") == 0 {
		return nil
	}
	k := rapid.IntRange(1, n).Draw(t, label+"n")
	out := make([]vnet.Fault, k)
	for i := range out {
		switch rapid.IntRange(0, 9).Draw(t, label+"kind") {
		case 0, 1:
			out[i].Kind = vnet.Drop
		case 2:
			out[i].Kind = vnet.Dup
		case 3:
			out[i].Kind = vnet.Swap
		case 4:
			out[i].Kind = vnet.Hold
			out[i].Until = i + rapid.IntRange(1, 4).Draw(t, label+"until")
		}
	}

	return out
}
