// Package scen is the scenario library: credentials, endpoint configurations, the pair runner
// on top of vnet, and a wire decoder.
package scen

import (
	"crypto"
	"crypto/ecdsa"
	"crypto/ed25519"
	"crypto/elliptic"
	"crypto/rand"
	"crypto/rsa"
	"crypto/tls"
	"crypto/x509"
	"crypto/x509/pkix"
	"math/big"
	"strings"
	"sync"
	"time"
)

// Virtual time inside a synctest bubble starts at 2000-01-01, so certificates are valid
// from 1990 to 2099 and the "expired" one ended in 1995.
var (
	notBefore = time.Date(1990, 1, 1, 0, 0, 0, 0, time.UTC)
	notAfter  = time.Date(2099, 1, 1, 0, 0, 0, 0, time.UTC)
	expiredAt = time.Date(1995, 1, 1, 0, 0, 0, 0, time.UTC)
)

// ServerName is the DNS name in the server leaves.
const ServerName = "server.test"

// UnderscoreName is a server name with an underscore: legal as a DNS SAN for x509, not an RFC 1123 host name.
const UnderscoreName = "db_primary.server.test"

// CA is a certificate authority of the fixture set.
type CA struct {
	Cert *x509.Certificate
	Key  *ecdsa.PrivateKey
	Pool *x509.CertPool
}

// Creds is the credential fixture set (generated once per process; not part of any case).
type Creds struct {
	CA1, CA2 *CA
	// CA3 issues nothing; ClientPoolMulti = {CA3, CA1} in this order (a server accepting two client CAs)
	CA3             *CA
	ClientPoolMulti *x509.CertPool
	leaves          map[string]tls.Certificate
}

var (
	credsOnce sync.Once
	creds     *Creds
)

func newCA(cn string) *CA {
	key, err := ecdsa.GenerateKey(elliptic.P256(), rand.Reader)
	if err != nil {
		panic(err)
	}
	tmpl := &x509.Certificate{
		SerialNumber: big.NewInt(1), Subject: pkix.Name{CommonName: cn}, NotBefore: notBefore, NotAfter: notAfter,
		IsCA: true, BasicConstraintsValid: true, KeyUsage: x509.KeyUsageCertSign | x509.KeyUsageDigitalSignature,
	}
	der, err := x509.CreateCertificate(rand.Reader, tmpl, tmpl, &key.PublicKey, key)
	if err != nil {
		panic(err)
	}
	cert, _ := x509.ParseCertificate(der)
	pool := x509.NewCertPool()
	pool.AddCert(cert)

	return &CA{cert, key, pool}
}

// sub creates an intermediate CA signed by ca.
func (ca *CA) sub(cn string) *CA {
	key, err := ecdsa.GenerateKey(elliptic.P256(), rand.Reader)
	if err != nil {
		panic(err)
	}
	serial++
	tmpl := &x509.Certificate{
		SerialNumber: big.NewInt(serial), Subject: pkix.Name{CommonName: cn}, NotBefore: notBefore, NotAfter: notAfter,
		IsCA: true, BasicConstraintsValid: true, KeyUsage: x509.KeyUsageCertSign | x509.KeyUsageDigitalSignature,
	}
	der, err := x509.CreateCertificate(rand.Reader, tmpl, ca.Cert, &key.PublicKey, ca.Key)
	if err != nil {
		panic(err)
	}
	cert, _ := x509.ParseCertificate(der)
	pool := x509.NewCertPool()
	pool.AddCert(cert)

	return &CA{cert, key, pool}
}

var serial int64 = 100

func (ca *CA) leaf(cn string, dns []string, key crypto.Signer, nb, na time.Time, usage []x509.ExtKeyUsage) tls.Certificate {
	serial++
	tmpl := &x509.Certificate{
		SerialNumber: big.NewInt(serial), Subject: pkix.Name{CommonName: cn}, NotBefore: nb, NotAfter: na,
		DNSNames: dns, KeyUsage: x509.KeyUsageDigitalSignature, ExtKeyUsage: usage,
	}
	der, err := x509.CreateCertificate(rand.Reader, tmpl, ca.Cert, key.Public(), ca.Key)
	if err != nil {
		panic(err)
	}
	leaf, _ := x509.ParseCertificate(der)

	return tls.Certificate{Certificate: [][]byte{der, ca.Cert.Raw}, PrivateKey: key, Leaf: leaf}
}

// GetCreds returns the process-wide fixture set.
func GetCreds() *Creds {
	credsOnce.Do(func() {
		c := &Creds{CA1: newCA("verif CA 1"), CA2: newCA("verif CA 2 (untrusted)"), leaves: map[string]tls.Certificate{}}
		ec := func() crypto.Signer {
			k, err := ecdsa.GenerateKey(elliptic.P256(), rand.Reader)
			if err != nil {
				panic(err)
			}

			return k
		}
		ed := func() crypto.Signer {
			_, k, err := ed25519.GenerateKey(rand.Reader)
			if err != nil {
				panic(err)
			}

			return k
		}
		rs := func() crypto.Signer {
			k, err := rsa.GenerateKey(rand.Reader, 2048)
			if err != nil {
				panic(err)
			}

			return k
		}
		both := []x509.ExtKeyUsage{x509.ExtKeyUsageServerAuth, x509.ExtKeyUsageClientAuth}
		srv := []string{ServerName}
		c.leaves["ecdsa"] = c.CA1.leaf(ServerName, srv, ec(), notBefore, notAfter, both)
		c.leaves["ecdsa2"] = c.CA1.leaf(ServerName, srv, ec(), notBefore, notAfter, both)
		c.leaves["ed25519"] = c.CA1.leaf(ServerName, srv, ed(), notBefore, notAfter, both)
		c.leaves["rsa"] = c.CA1.leaf(ServerName, srv, rs(), notBefore, notAfter, both)
		c.leaves["expired"] = c.CA1.leaf(ServerName, srv, ec(), notBefore, expiredAt, both)
		c.leaves["wrongname"] = c.CA1.leaf("other.test", []string{"other.test"}, ec(), notBefore, notAfter, both)
		c.leaves["ecdsa-uscore"] = c.CA1.leaf(UnderscoreName, []string{UnderscoreName}, ec(), notBefore, notAfter, both)
		c.leaves["wrongname-rsa"] = c.CA1.leaf("other.test", []string{"other.test"}, rs(), notBefore, notAfter, both)
		c.leaves["untrusted"] = c.CA2.leaf(ServerName, srv, ec(), notBefore, notAfter, both)
		c.leaves["client-ecdsa"] = c.CA1.leaf("client", nil, ec(), notBefore, notAfter, both)
		c.leaves["client-ed25519"] = c.CA1.leaf("client", nil, ed(), notBefore, notAfter, both)
		c.leaves["client-rsa"] = c.CA1.leaf("client", nil, rs(), notBefore, notAfter, both)
		c.leaves["client-untrusted"] = c.CA2.leaf("client", nil, ec(), notBefore, notAfter, both)
		c.leaves["client-expired"] = c.CA1.leaf("client", nil, ec(), notBefore, expiredAt, both)
		// certificate of "ecdsa" with the private key of "ecdsa2": cannot sign for its leaf
		mism := c.leaves["ecdsa"]
		mism.PrivateKey = c.leaves["ecdsa2"].PrivateKey
		c.leaves["mismatch"] = mism
		cm := c.leaves["client-ecdsa"]
		cm.PrivateKey = c.leaves["ecdsa2"].PrivateKey
		c.leaves["client-mismatch"] = cm
		// chain shapes: the leaf alone (root not sent) and a leaf issued by an intermediate
		// (chain = leaf + intermediate, root not sent); both verify against CA1.
		shape := func(name, base string) {
			l := c.leaves[base]
			l.Certificate = l.Certificate[:1:1]
			c.leaves[name] = l
		}
		shape("ecdsa-leafonly", "ecdsa")
		shape("client-ecdsa-leafonly", "client-ecdsa")
		inter := c.CA1.sub("verif intermediate CA")
		il := inter.leaf(ServerName, srv, ec(), notBefore, notAfter, both)
		il.Certificate = [][]byte{il.Certificate[0], inter.Cert.Raw}
		c.leaves["ecdsa-inter"] = il
		cl := inter.leaf("client", nil, ec(), notBefore, notAfter, both)
		cl.Certificate = [][]byte{cl.Certificate[0], inter.Cert.Raw}
		c.leaves["client-ecdsa-inter"] = cl
		c.CA3 = newCA("verif CA 3 (other clients)")
		c.ClientPoolMulti = x509.NewCertPool()
		c.ClientPoolMulti.AddCert(c.CA3.Cert)
		c.ClientPoolMulti.AddCert(c.CA1.Cert)
		creds = c
	})

	return creds
}

// Leaf returns a named certificate of the fixture set ("" → none).
func (c *Creds) Leaf(name string) (tls.Certificate, bool) {
	l, ok := c.leaves[name]

	return l, ok
}

// ChainDER returns the DER chain of a named certificate.
func (c *Creds) ChainDER(name string) [][]byte {
	l, ok := c.leaves[name]
	if !ok {
		return nil
	}

	return l.Certificate
}

// ExpectedServerChain models the documented choice among several configured certificates: a single
// certificate is always used; without a server name the first one; otherwise the one whose common name
// or DNS name matches the requested name case-insensitively (wildcards by replacing leading labels),
// else the first one.
func ExpectedServerChain(sv *EP, serverName string) [][]byte {
	names := append(append([]string(nil), sv.CertsBefore...), sv.Cert)
	if len(names) == 1 || serverName == "" {
		return GetCreds().ChainDER(names[0])
	}
	want := strings.TrimRight(strings.ToLower(serverName), ".")
	byName := map[string]string{}
	for _, n := range names {
		l, ok := GetCreds().Leaf(n)
		if !ok || l.Leaf == nil {
			continue
		}
		if l.Leaf.Subject.CommonName != "" {
			byName[strings.ToLower(l.Leaf.Subject.CommonName)] = n
		}
		for _, d := range l.Leaf.DNSNames {
			byName[strings.ToLower(d)] = n
		}
	}
	if n, ok := byName[want]; ok {
		return GetCreds().ChainDER(n)
	}
	labels := strings.Split(want, ".")
	for i := range labels {
		labels[i] = "*"
		if n, ok := byName[strings.Join(labels, ".")]; ok {
			return GetCreds().ChainDER(n)
		}
	}

	return GetCreds().ChainDER(names[0])
}
