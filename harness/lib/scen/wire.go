package scen

import (
	"encoding/binary"
	"fmt"
)

// Content types.
const (
	CTChangeCipherSpec = 20
	CTAlert            = 21
	CTHandshake        = 22
	CTAppData          = 23
	CTCID              = 25
	CTACK              = 26
	CTRRC              = 27
)

// Handshake message types.
const (
	HTHelloRequest        = 0
	HTClientHello         = 1
	HTServerHello         = 2
	HTHelloVerifyRequest  = 3
	HTNewSessionTicket    = 4
	HTEncryptedExtensions = 8
	HTCertificate         = 11
	HTServerKeyExchange   = 12
	HTCertificateRequest  = 13
	HTServerHelloDone     = 14
	HTCertificateVerify   = 15
	HTClientKeyExchange   = 16
	HTFinished            = 20
	HTKeyUpdate           = 24
)

// Rec is one record split out of a datagram (independent decoder, RFC 6347 / 9146 / 9147).
type Rec struct {
	Kind    string // "legacy", "cid", "unified"
	Type    int    // outer content type (legacy/cid); -1 for unified
	Version [2]byte
	Epoch   int // legacy/cid: full epoch; unified: low 2 bits
	Seq     uint64
	CID     []byte
	HdrLen  int
	Body    []byte // record payload (ciphertext or plaintext)
	Raw     []byte // whole record
	SBit    bool   // unified: 16-bit sequence number
	LBit    bool   // unified: length present
	CBit    bool
}

// SplitDatagram splits a datagram into records. cidLen is the length of the connection ID the
// receiver of this datagram expects (0 when none). ok is false if the datagram does not parse
// into whole records.
func SplitDatagram(d []byte, cidLen int) (recs []Rec, ok bool) {
	for len(d) > 0 {
		b0 := d[0]
		if b0&0xe0 == 0x20 { // unified header 001CSLEE
			r := Rec{Kind: "unified", Type: -1, Epoch: int(b0 & 3), CBit: b0&0x10 != 0, SBit: b0&0x08 != 0, LBit: b0&0x04 != 0}
			off := 1
			if r.CBit {
				if len(d) < off+cidLen {
					return recs, false
				}
				r.CID = d[off : off+cidLen]
				off += cidLen
			}
			if r.SBit {
				if len(d) < off+2 {
					return recs, false
				}
				r.Seq = uint64(binary.BigEndian.Uint16(d[off:]))
				off += 2
			} else {
				if len(d) < off+1 {
					return recs, false
				}
				r.Seq = uint64(d[off])
				off++
			}
			end := len(d)
			if r.LBit {
				if len(d) < off+2 {
					return recs, false
				}
				l := int(binary.BigEndian.Uint16(d[off:]))
				off += 2
				if len(d) < off+l {
					return recs, false
				}
				end = off + l
			}
			r.HdrLen = off
			r.Body = d[off:end]
			r.Raw = d[:end]
			recs = append(recs, r)
			d = d[end:]

			continue
		}
		if len(d) < 13 {
			return recs, false
		}
		r := Rec{Kind: "legacy", Type: int(b0), Version: [2]byte{d[1], d[2]}, Epoch: int(binary.BigEndian.Uint16(d[3:]))}
		r.Seq = uint64(d[5])<<40 | uint64(d[6])<<32 | uint64(d[7])<<24 | uint64(d[8])<<16 | uint64(d[9])<<8 | uint64(d[10])
		off := 11
		if b0 == CTCID {
			r.Kind = "cid"
			if len(d) < off+cidLen+2 {
				return recs, false
			}
			r.CID = d[off : off+cidLen]
			off += cidLen
		}
		l := int(binary.BigEndian.Uint16(d[off:]))
		off += 2
		if len(d) < off+l {
			return recs, false
		}
		r.HdrLen = off
		r.Body = d[off : off+l]
		r.Raw = d[:off+l]
		recs = append(recs, r)
		d = d[off+l:]
	}

	return recs, true
}

// HSFrag is one handshake fragment inside a plaintext handshake record.
type HSFrag struct {
	Type    int
	Length  int
	MsgSeq  int
	FragOff int
	FragLen int
	Body    []byte
}

// SplitHandshake splits the body of a plaintext handshake record into fragments.
func SplitHandshake(b []byte) (out []HSFrag, ok bool) {
	for len(b) > 0 {
		if len(b) < 12 {
			return out, false
		}
		f := HSFrag{
			Type: int(b[0]), Length: int(b[1])<<16 | int(b[2])<<8 | int(b[3]), MsgSeq: int(b[4])<<8 | int(b[5]),
			FragOff: int(b[6])<<16 | int(b[7])<<8 | int(b[8]), FragLen: int(b[9])<<16 | int(b[10])<<8 | int(b[11]),
		}
		if len(b) < 12+f.FragLen {
			return out, false
		}
		f.Body = b[12 : 12+f.FragLen]
		out = append(out, f)
		b = b[12+f.FragLen:]
	}

	return out, true
}

// Describe returns a short human-readable summary of a datagram (epoch-0 content decoded).
func Describe(d []byte, cidLen int) string {
	recs, ok := SplitDatagram(d, cidLen)
	s := ""
	for _, r := range recs {
		if s != "" {
			s += " "
		}
		switch {
		case r.Kind == "unified":
			s += fmt.Sprintf("U(e%d s%d %dB)", r.Epoch, r.Seq, len(r.Body))
		case r.Epoch == 0 && r.Type == CTHandshake:
			fr, _ := SplitHandshake(r.Body)
			s += fmt.Sprintf("HS(s%d", r.Seq)
			for _, f := range fr {
				s += fmt.Sprintf(" t%d#%d[%d+%d/%d]", f.Type, f.MsgSeq, f.FragOff, f.FragLen, f.Length)
			}
			s += ")"
		default:
			s += fmt.Sprintf("R(t%d e%d s%d %dB)", r.Type, r.Epoch, r.Seq, len(r.Body))
		}
	}
	if !ok {
		s += " !trunc"
	}

	return s
}

// PlainHSTypes lists the handshake message types carried in epoch-0 records of a datagram.
func PlainHSTypes(d []byte) []int {
	recs, _ := SplitDatagram(d, 0)
	var out []int
	for _, r := range recs {
		if r.Kind != "unified" && r.Epoch == 0 && r.Type == CTHandshake {
			fr, _ := SplitHandshake(r.Body)
			for _, f := range fr {
				out = append(out, f.Type)
			}
		}
	}

	return out
}
