package scen

import (
	"encoding/hex"
	"sync"

	"github.com/pion/dtls/v3/internal/state"
	"github.com/pion/dtls/v3/internal/zzverif/lib/ref"
)

// Gen13 is a DTLS 1.3 traffic generation observed through the verif hook.
type Gen13 struct {
	Epoch      uint16
	Generation uint64
	Secret     []byte
	Write      bool
	Keys       *state.TrafficKeyState
}

var (
	hookMu   sync.Mutex
	hookSink *[]Gen13
)

// CaptureGens13 routes the DTLS 1.3 traffic-generation hook into sink until the returned
// function is called. Only one capture is active at a time (cases run sequentially).
func CaptureGens13(sink *[]Gen13) func() {
	hookMu.Lock()
	hookSink = sink
	hookMu.Unlock()
	state.VerifTrafficHook = func(keys *state.TrafficKeyState, write, read *state.TrafficGeneration) {
		hookMu.Lock()
		defer hookMu.Unlock()
		if hookSink == nil {
			return
		}
		if write != nil {
			*hookSink = append(*hookSink, Gen13{write.Epoch, write.Generation, append([]byte(nil), write.Secret...), true, keys})
		}
		if read != nil {
			*hookSink = append(*hookSink, Gen13{read.Epoch, read.Generation, append([]byte(nil), read.Secret...), false, keys})
		}
	}

	return func() {
		hookMu.Lock()
		hookSink = nil
		hookMu.Unlock()
	}
}

// SnapshotGens13 returns a copy of what the active capture has collected so far (for decoders that work
// while the handshake is still running).
func SnapshotGens13() []Gen13 {
	hookMu.Lock()
	defer hookMu.Unlock()
	if hookSink == nil {
		return nil
	}

	return append([]Gen13(nil), *hookSink...)
}

// HelloRandoms extracts the client random of the last ClientHello and the server random of the
// (non-retry) ServerHello from the tap; ok is false if either hello was fragmented away.
func HelloRandoms(p *Pair) (cr, sr []byte, suite uint16, ok bool) {
	hrr := []byte{0xCF, 0x21, 0xAD, 0x74, 0xE5, 0x9A, 0x61, 0x11, 0xBE, 0x1D, 0x8C, 0x02, 0x1E, 0x65, 0xB8, 0x91, 0xC2, 0xA2, 0x11, 0x16, 0x7A, 0xBB, 0x8C, 0x5E, 0x07, 0x9E, 0x09, 0xE2, 0xC8, 0xA8, 0x33, 0x9C}
	for _, ev := range p.Net.Events() {
		recs, _ := SplitDatagram(ev.Data, 0)
		for _, r := range recs {
			if r.Kind == "unified" || r.Epoch != 0 || r.Type != CTHandshake {
				continue
			}
			fr, _ := SplitHandshake(r.Body)
			for _, f := range fr {
				if f.FragOff != 0 || len(f.Body) < 35 {
					continue
				}
				switch {
				case f.Type == HTClientHello && ev.From == "C":
					cr = append([]byte(nil), f.Body[2:34]...)
				case f.Type == HTServerHello && ev.From == "S":
					if string(f.Body[2:34]) == string(hrr) {
						continue
					}
					sr = append([]byte(nil), f.Body[2:34]...)
					sidLen := int(f.Body[34])
					if len(f.Body) >= 35+sidLen+2 {
						suite = uint16(f.Body[35+sidLen])<<8 | uint16(f.Body[36+sidLen])
					}
				}
			}
		}
	}

	return cr, sr, suite, cr != nil && sr != nil && suite != 0
}

// Decoder12 builds a passive DTLS 1.2 decoder from the key log and the hellos on the tap.
func Decoder12(p *Pair, env *Env) *ref.Decoder {
	cr, sr, suite, ok := HelloRandoms(p)
	if !ok {
		return nil
	}
	ms, ok := ref.ParseKeyLog(env.KeyLog.String())[hex.EncodeToString(cr)]
	if !ok {
		return nil
	}

	return ref.NewDecoder12(suite, ms, cr, sr)
}

// Decoder13 builds a passive DTLS 1.3 decoder from the generations captured by the hook.
func Decoder13(p *Pair, gens []Gen13) *ref.Decoder {
	_, _, suite, ok := HelloRandoms(p)
	if !ok {
		return nil
	}
	d := ref.NewDecoder13(suite)
	if d == nil {
		return nil
	}
	for _, g := range gens {
		d.AddGen13(g.Epoch, g.Secret)
	}

	return d
}

var (
	secretMu   sync.Mutex
	secretSink map[string][][]byte
)

// CaptureSecrets13 records the named DTLS 1.3 key-schedule secrets reported through the verif
// hook (kind -> secrets in order of derivation) until the returned function is called.
func CaptureSecrets13() (get func() map[string][][]byte, stop func()) {
	secretMu.Lock()
	secretSink = map[string][][]byte{}
	secretMu.Unlock()
	state.VerifSecretHook = func(kind string, secret []byte) {
		secretMu.Lock()
		defer secretMu.Unlock()
		if secretSink != nil {
			secretSink[kind] = append(secretSink[kind], append([]byte(nil), secret...))
		}
	}

	return func() map[string][][]byte {
			secretMu.Lock()
			defer secretMu.Unlock()
			out := map[string][][]byte{}
			for k, v := range secretSink {
				out[k] = append([][]byte(nil), v...)
			}

			return out
		}, func() {
			secretMu.Lock()
			secretSink = nil
			secretMu.Unlock()
		}
}
