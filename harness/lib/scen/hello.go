package scen

import "encoding/binary"

// Ext is a raw hello extension.
type Ext struct {
	Type uint16
	Data []byte
}

// ClientHello is an independently parsed ClientHello (RFC 6347 4.2.1 / RFC 5246 7.4.1.2).
type ClientHello struct {
	Version [2]byte
	Random  []byte
	SID     []byte
	Cookie  []byte
	Suites  []uint16
	Comp    []byte
	Exts    []Ext
	HasExts bool
}

// ServerHello is an independently parsed ServerHello.
type ServerHello struct {
	Version [2]byte
	Random  []byte
	SID     []byte
	Suite   uint16
	Comp    byte
	Exts    []Ext
	HasExts bool
}

func parseExts(b []byte) ([]Ext, bool) {
	if len(b) < 2 {
		return nil, false
	}
	n := int(binary.BigEndian.Uint16(b))
	b = b[2:]
	if len(b) != n {
		return nil, false
	}
	var out []Ext
	for len(b) > 0 {
		if len(b) < 4 {
			return nil, false
		}
		t := binary.BigEndian.Uint16(b)
		l := int(binary.BigEndian.Uint16(b[2:]))
		if len(b) < 4+l {
			return nil, false
		}
		out = append(out, Ext{t, append([]byte(nil), b[4:4+l]...)})
		b = b[4+l:]
	}

	return out, true
}

func marshalExts(exts []Ext) []byte {
	var body []byte
	for _, e := range exts {
		body = append(body, byte(e.Type>>8), byte(e.Type), byte(len(e.Data)>>8), byte(len(e.Data)))
		body = append(body, e.Data...)
	}

	return append([]byte{byte(len(body) >> 8), byte(len(body))}, body...)
}

// ParseClientHello parses a ClientHello body.
func ParseClientHello(b []byte) (*ClientHello, bool) {
	if len(b) < 35 {
		return nil, false
	}
	ch := &ClientHello{Version: [2]byte{b[0], b[1]}, Random: append([]byte(nil), b[2:34]...)}
	b = b[34:]
	take := func(lenBytes int) ([]byte, bool) {
		if len(b) < lenBytes {
			return nil, false
		}
		n := 0
		for i := 0; i < lenBytes; i++ {
			n = n<<8 | int(b[i])
		}
		if len(b) < lenBytes+n {
			return nil, false
		}
		v := append([]byte(nil), b[lenBytes:lenBytes+n]...)
		b = b[lenBytes+n:]

		return v, true
	}
	var ok bool
	if ch.SID, ok = take(1); !ok {
		return nil, false
	}
	if ch.Cookie, ok = take(1); !ok {
		return nil, false
	}
	su, ok := take(2)
	if !ok || len(su)%2 != 0 {
		return nil, false
	}
	for i := 0; i < len(su); i += 2 {
		ch.Suites = append(ch.Suites, binary.BigEndian.Uint16(su[i:]))
	}
	if ch.Comp, ok = take(1); !ok {
		return nil, false
	}
	if len(b) > 0 {
		ch.HasExts = true
		if ch.Exts, ok = parseExts(b); !ok {
			return nil, false
		}
	}

	return ch, true
}

// Marshal encodes the ClientHello body.
func (ch *ClientHello) Marshal() []byte {
	out := []byte{ch.Version[0], ch.Version[1]}
	out = append(out, ch.Random...)
	out = append(out, byte(len(ch.SID)))
	out = append(out, ch.SID...)
	out = append(out, byte(len(ch.Cookie)))
	out = append(out, ch.Cookie...)
	out = append(out, byte(len(ch.Suites)*2>>8), byte(len(ch.Suites)*2))
	for _, s := range ch.Suites {
		out = append(out, byte(s>>8), byte(s))
	}
	out = append(out, byte(len(ch.Comp)))
	out = append(out, ch.Comp...)
	if ch.HasExts {
		out = append(out, marshalExts(ch.Exts)...)
	}

	return out
}

// ParseServerHello parses a ServerHello body.
func ParseServerHello(b []byte) (*ServerHello, bool) {
	if len(b) < 38 {
		return nil, false
	}
	sh := &ServerHello{Version: [2]byte{b[0], b[1]}, Random: append([]byte(nil), b[2:34]...)}
	n := int(b[34])
	if len(b) < 35+n+3 {
		return nil, false
	}
	sh.SID = append([]byte(nil), b[35:35+n]...)
	b = b[35+n:]
	sh.Suite = binary.BigEndian.Uint16(b)
	sh.Comp = b[2]
	b = b[3:]
	if len(b) > 0 {
		sh.HasExts = true
		var ok bool
		if sh.Exts, ok = parseExts(b); !ok {
			return nil, false
		}
	}

	return sh, true
}

// Marshal encodes the ServerHello body.
func (sh *ServerHello) Marshal() []byte {
	out := []byte{sh.Version[0], sh.Version[1]}
	out = append(out, sh.Random...)
	out = append(out, byte(len(sh.SID)))
	out = append(out, sh.SID...)
	out = append(out, byte(sh.Suite>>8), byte(sh.Suite), sh.Comp)
	if sh.HasExts {
		out = append(out, marshalExts(sh.Exts)...)
	}

	return out
}

// HSRecord builds one plaintext handshake record (epoch 0) carrying a whole, unfragmented message.
func HSRecord(recSeq uint64, msgType byte, msgSeq uint16, body []byte) []byte {
	return HSRecordFrag(recSeq, msgType, msgSeq, len(body), 0, body)
}

// HSRecordFrag builds one plaintext handshake record carrying one fragment.
func HSRecordFrag(recSeq uint64, msgType byte, msgSeq uint16, total, off int, frag []byte) []byte {
	hs := []byte{msgType, byte(total >> 16), byte(total >> 8), byte(total), byte(msgSeq >> 8), byte(msgSeq),
		byte(off >> 16), byte(off >> 8), byte(off), byte(len(frag) >> 16), byte(len(frag) >> 8), byte(len(frag))}
	hs = append(hs, frag...)
	rec := []byte{CTHandshake, 0xfe, 0xfd, 0, 0, byte(recSeq >> 40), byte(recSeq >> 32), byte(recSeq >> 24), byte(recSeq >> 16), byte(recSeq >> 8), byte(recSeq),
		byte(len(hs) >> 8), byte(len(hs))}

	return append(rec, hs...)
}

// FirstPlainHS returns the first whole (unfragmented) plaintext handshake message of the given
// type found in a datagram.
func FirstPlainHS(d []byte, typ int) (HSFrag, bool) {
	recs, _ := SplitDatagram(d, 0)
	for _, r := range recs {
		if r.Kind == "unified" || r.Epoch != 0 || r.Type != CTHandshake {
			continue
		}
		fr, _ := SplitHandshake(r.Body)
		for _, f := range fr {
			if f.Type == typ && f.FragOff == 0 && f.FragLen == f.Length {
				return f, true
			}
		}
	}

	return HSFrag{}, false
}

// FindExt returns the extension of the given type.
func FindExt(exts []Ext, t uint16) ([]byte, bool) {
	for _, e := range exts {
		if e.Type == t {
			return e.Data, true
		}
	}

	return nil, false
}
