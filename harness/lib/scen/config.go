package scen

import (
	"bytes"
	"crypto/tls"
	"crypto/x509"
	"errors"
	"fmt"
	"io"
	"sync"
	"time"

	dtls "github.com/pion/dtls/v3"
	"github.com/pion/dtls/v3/pkg/crypto/elliptic"
	"github.com/pion/dtls/v3/pkg/protocol"
	"github.com/pion/logging"
)

// EP is the JSON-serialisable description of one endpoint's option set. Zero values mean
// "option not given" (library default).
type EP struct {
	MinVer  int      `json:"minv,omitempty"` // 12 | 13
	MaxVer  int      `json:"maxv,omitempty"`
	Suites  []uint16 `json:"suites,omitempty"`
	Curves  []uint16 `json:"curves,omitempty"`
	EMS     int      `json:"ems,omitempty"`  // 0 request, 1 require, 2 disable
	Cert    string   `json:"cert,omitempty"` // fixture name, "" none
	PSK     string   `json:"psk,omitempty"`  // hex-free ascii key, "" none
	PSKHint string   `json:"hint,omitempty"`
	// ClientAuth (server): 0 none, 1 request, 2 require-any, 3 verify-if-given, 4 require+verify
	ClientAuth int      `json:"cauth,omitempty"`
	ClientCAs  bool     `json:"ccas,omitempty"` // server: set ClientCAs to CA1
	SigSchemes []uint16 `json:"sigs,omitempty"`
	// CertSigSchemes: WithCertificateSignatureSchemes (signature schemes acceptable in the peer's chain)
	CertSigSchemes []uint16 `json:"certsigs,omitempty"`
	CID            int      `json:"cid,omitempty"` // 0 absent, -1 send-only (nil), n>0 length n ; 1000 = zero length
	SRTP           []uint16 `json:"srtp,omitempty"`
	MKI            []byte   `json:"mki,omitempty"`
	ALPN           []string `json:"alpn,omitempty"`
	MTU            int      `json:"mtu,omitempty"`
	SkipHelloVfy   bool     `json:"skiphv,omitempty"` // server: InsecureSkipVerifyHello
	Store          string   `json:"store,omitempty"`  // name of a session store in the Env
	Window         int      `json:"win,omitempty"`
	IntervalMs     int      `json:"ivl,omitempty"`
	IntervalUs     int      `json:"ivlus,omitempty"` // microseconds added to IntervalMs
	NoBackoff      bool     `json:"nobackoff,omitempty"`
	Padding        int      `json:"pad,omitempty"`
	ServerName     string   `json:"sni,omitempty"`
	NoVerify       bool     `json:"noverify,omitempty"` // InsecureSkipVerify
	RootCA         int      `json:"root,omitempty"`     // 0 none, 1 CA1, 2 CA2
	KeyLog         bool     `json:"-"`
	// CertsBefore: certificate fixtures configured in front of Cert (a server with several certificates,
	// the one for the requested name is picked)
	CertsBefore []string `json:"certsbefore,omitempty"`
	// CertCallback (client): Cert is not configured statically but returned by a GetClientCertificate
	// callback that offers a certificate of another CA first and uses CertificateRequestInfo.SupportsCertificate
	CertCallback bool `json:"certcb,omitempty"`
	// ClientCAsMulti (server, with ClientCAs): the pool holds a further CA in front of CA1
	ClientCAsMulti bool `json:"ccasmulti,omitempty"`
	// FixedRandom: WithHelloRandomBytesGenerator returning the same 28 bytes every time (the option is
	// documented for clients; a shared option, so it can be given to a server too)
	FixedRandom bool `json:"fixedrandom,omitempty"`
	// MaxFirst: WithMaxVersion is given before WithMinVersion (options are order-independent by contract)
	MaxFirst bool `json:"maxfirst,omitempty"`
}

// MemStore is a session store that records every call. Like the obvious application store (a map of
// dtls.Session values) it keeps the slices it is given and hands the same slices back: it makes no
// defensive copies. It remembers a private copy of every value at the time it was stored, so that a
// later change of the stored bytes by somebody else (Tampered) can be told.
type MemStore struct {
	mu    sync.Mutex
	M     map[string]dtls.Session
	orig  map[string]dtls.Session
	Calls []string
}

// NewMemStore creates an empty store.
func NewMemStore() *MemStore {
	return &MemStore{M: map[string]dtls.Session{}, orig: map[string]dtls.Session{}}
}

// Set implements dtls.SessionStore.
func (s *MemStore) Set(key []byte, v dtls.Session) error {
	s.mu.Lock()
	defer s.mu.Unlock()
	s.M[string(key)] = v
	s.orig[string(key)] = dtls.Session{ID: bytes.Clone(v.ID), Secret: bytes.Clone(v.Secret)}
	s.Calls = append(s.Calls, fmt.Sprintf("set %x", key))

	return nil
}

// Get implements dtls.SessionStore.
func (s *MemStore) Get(key []byte) (dtls.Session, error) {
	s.mu.Lock()
	defer s.mu.Unlock()
	s.Calls = append(s.Calls, fmt.Sprintf("get %x", key))
	v, ok := s.M[string(key)]
	if !ok {
		return dtls.Session{}, nil
	}

	return v, nil
}

// Tampered lists the entries whose bytes are no longer what was stored (changed in place through a
// slice shared with the store).
func (s *MemStore) Tampered() []string {
	s.mu.Lock()
	defer s.mu.Unlock()
	var out []string
	for k, v := range s.M {
		o := s.orig[k]
		if !bytes.Equal(v.ID, o.ID) || !bytes.Equal(v.Secret, o.Secret) {
			out = append(out, fmt.Sprintf("%x: secret %x.. was %x.. when stored", k, head(v.Secret), head(o.Secret)))
		}
	}

	return out
}

func head(b []byte) []byte {
	if len(b) > 6 {
		return b[:6]
	}

	return b
}

// Del implements dtls.SessionStore.
func (s *MemStore) Del(key []byte) error {
	s.mu.Lock()
	defer s.mu.Unlock()
	s.Calls = append(s.Calls, fmt.Sprintf("del %x", key))
	delete(s.M, string(key))
	delete(s.orig, string(key))

	return nil
}

// Snapshot returns a copy of the content.
func (s *MemStore) Snapshot() map[string]dtls.Session {
	s.mu.Lock()
	defer s.mu.Unlock()
	out := map[string]dtls.Session{}
	for k, v := range s.M {
		out[k] = dtls.Session{ID: bytes.Clone(v.ID), Secret: bytes.Clone(v.Secret)}
	}

	return out
}

// Env carries per-scenario runtime objects referenced by EP values.
type Env struct {
	Stores map[string]*MemStore
	// KeyLog receives NSS key log lines of both sides.
	KeyLog *LockedBuffer
	// CIDCounter makes generated connection IDs predictable and distinct.
	cidMu  sync.Mutex
	cidSeq byte
	// CIDs generated, in order, per role
	CIDs map[string][][]byte
	// Extra options appended to the generated ones.
	ExtraClient []dtls.ClientOption
	ExtraServer []dtls.ServerOption
	Log         *LogSink
	// key log lines by the role that wrote them ("C", "S"): what a decoder holding only that side's log sees
	keyLogBy map[string]*LockedBuffer
	// AcceptableCAs seen by the client's GetClientCertificate callback (EP.CertCallback), per call
	criMu         sync.Mutex
	AcceptableCAs [][][]byte
}

// KeyLogOf returns the key log written by one role only.
func (e *Env) KeyLogOf(role string) *LockedBuffer {
	e.criMu.Lock()
	defer e.criMu.Unlock()
	if e.keyLogBy == nil {
		e.keyLogBy = map[string]*LockedBuffer{}
	}
	if e.keyLogBy[role] == nil {
		e.keyLogBy[role] = &LockedBuffer{}
	}

	return e.keyLogBy[role]
}

func (e *Env) noteCRI(cas [][]byte) {
	e.criMu.Lock()
	defer e.criMu.Unlock()
	cp := make([][]byte, len(cas))
	for i := range cas {
		cp[i] = bytes.Clone(cas[i])
	}
	e.AcceptableCAs = append(e.AcceptableCAs, cp)
}

// NewEnv creates an empty environment.
func NewEnv() *Env {
	return &Env{Stores: map[string]*MemStore{}, KeyLog: &LockedBuffer{}, CIDs: map[string][][]byte{}}
}

// Store returns the named store, creating it on first use.
func (e *Env) Store(name string) *MemStore {
	if s, ok := e.Stores[name]; ok {
		return s
	}
	s := NewMemStore()
	e.Stores[name] = s

	return s
}

// LockedBuffer is a goroutine-safe bytes.Buffer.
type LockedBuffer struct {
	mu sync.Mutex
	b  bytes.Buffer
}

func (l *LockedBuffer) Write(p []byte) (int, error) {
	l.mu.Lock()
	defer l.mu.Unlock()

	return l.b.Write(p)
}

// String returns the content.
func (l *LockedBuffer) String() string {
	l.mu.Lock()
	defer l.mu.Unlock()

	return l.b.String()
}

func (e *Env) cidGen(role string, n int) func() []byte {
	return func() []byte {
		if n < 0 {
			return nil
		}
		if n == 1000 {
			e.cidMu.Lock()
			e.CIDs[role] = append(e.CIDs[role], []byte{})
			e.cidMu.Unlock()

			return []byte{}
		}
		e.cidMu.Lock()
		defer e.cidMu.Unlock()
		e.cidSeq++
		cid := make([]byte, n)
		for i := range cid {
			cid[i] = e.cidSeq*16 + byte(i) + 0x41
		}
		if role == "S" {
			cid[0] ^= 0x80
		}
		e.CIDs[role] = append(e.CIDs[role], cid)

		return cid
	}
}

// LogSink is a logging.LoggerFactory that discards (or keeps the last lines of) the library log.
type LogSink struct {
	mu    sync.Mutex
	Keep  bool
	Lines []string
}

type sinkLogger struct {
	s     *LogSink
	scope string
}

func (l *sinkLogger) add(level, msg string) {
	if !l.s.Keep {
		return
	}
	l.s.mu.Lock()
	if len(l.s.Lines) < 4000 {
		l.s.Lines = append(l.s.Lines, level+" "+msg)
	}
	l.s.mu.Unlock()
}
func (l *sinkLogger) Trace(msg string)          { l.add("T", msg) }
func (l *sinkLogger) Tracef(f string, a ...any) { l.add("T", fmt.Sprintf(f, a...)) }
func (l *sinkLogger) Debug(msg string)          { l.add("D", msg) }
func (l *sinkLogger) Debugf(f string, a ...any) { l.add("D", fmt.Sprintf(f, a...)) }
func (l *sinkLogger) Info(msg string)           { l.add("I", msg) }
func (l *sinkLogger) Infof(f string, a ...any)  { l.add("I", fmt.Sprintf(f, a...)) }
func (l *sinkLogger) Warn(msg string)           { l.add("W", msg) }
func (l *sinkLogger) Warnf(f string, a ...any)  { l.add("W", fmt.Sprintf(f, a...)) }
func (l *sinkLogger) Error(msg string)          { l.add("E", msg) }
func (l *sinkLogger) Errorf(f string, a ...any) { l.add("E", fmt.Sprintf(f, a...)) }

// NewLogger implements logging.LoggerFactory.
func (s *LogSink) NewLogger(scope string) logging.LeveledLogger { return &sinkLogger{s, scope} }

func ver(v int) (protocol.Version, bool) {
	switch v {
	case 12:
		return protocol.Version1_2, true
	case 13:
		return protocol.Version1_3, true
	}

	return protocol.Version{}, false
}

// ErrBadFixture is returned when an EP references an unknown fixture.
var ErrBadFixture = errors.New("scen: unknown fixture")

func (ep *EP) shared(env *Env, role string) ([]dtls.Option, error) {
	var o []dtls.Option
	if env.Log == nil {
		env.Log = &LogSink{}
	}
	o = append(o, dtls.WithLoggerFactory(env.Log))
	if v, ok := ver(ep.MaxVer); ok && ep.MaxFirst {
		o = append(o, dtls.WithMaxVersion(v))
	}
	if v, ok := ver(ep.MinVer); ok {
		o = append(o, dtls.WithMinVersion(v))
	}
	if v, ok := ver(ep.MaxVer); ok && !ep.MaxFirst {
		o = append(o, dtls.WithMaxVersion(v))
	}
	if len(ep.Suites) > 0 {
		ids := make([]dtls.CipherSuiteID, len(ep.Suites))
		for i, s := range ep.Suites {
			ids[i] = dtls.CipherSuiteID(s)
		}
		o = append(o, dtls.WithCipherSuites(ids...))
	}
	if len(ep.Curves) > 0 {
		cs := make([]elliptic.Curve, len(ep.Curves))
		for i, c := range ep.Curves {
			cs[i] = elliptic.Curve(c)
		}
		o = append(o, dtls.WithEllipticCurves(cs...))
	}
	if ep.EMS != 0 {
		o = append(o, dtls.WithExtendedMasterSecret(dtls.ExtendedMasterSecretType(ep.EMS)))
	}
	if ep.Cert != "" {
		c, ok := GetCreds().Leaf(ep.Cert)
		if !ok {
			return nil, ErrBadFixture
		}
		if ep.CertCallback && role == "C" {
			decoy, _ := GetCreds().Leaf("client-untrusted")
			cands := []tls.Certificate{decoy, c}
			o = append(o, dtls.WithGetClientCertificate(func(cri *dtls.CertificateRequestInfo) (*tls.Certificate, error) {
				env.noteCRI(cri.AcceptableCAs)
				for i := range cands {
					if cri.SupportsCertificate(&cands[i]) == nil {
						return &cands[i], nil
					}
				}

				return new(tls.Certificate), nil
			}))
		} else {
			list := make([]tls.Certificate, 0, len(ep.CertsBefore)+1)
			for _, n := range ep.CertsBefore {
				b, ok := GetCreds().Leaf(n)
				if !ok {
					return nil, ErrBadFixture
				}
				list = append(list, b)
			}
			o = append(o, dtls.WithCertificates(append(list, c)...))
		}
	}
	if ep.PSK != "" {
		key := []byte(ep.PSK)
		o = append(o, dtls.WithPSK(func([]byte) ([]byte, error) { return key, nil }))
		hint := ep.PSKHint
		if hint == "" {
			hint = "verif-hint"
		}
		o = append(o, dtls.WithPSKIdentityHint([]byte(hint)))
	}
	if len(ep.SigSchemes) > 0 {
		ss := make([]tls.SignatureScheme, len(ep.SigSchemes))
		for i, s := range ep.SigSchemes {
			ss[i] = tls.SignatureScheme(s)
		}
		o = append(o, dtls.WithSignatureSchemes(ss...))
	}
	if len(ep.CertSigSchemes) > 0 {
		ss := make([]tls.SignatureScheme, len(ep.CertSigSchemes))
		for i, s := range ep.CertSigSchemes {
			ss[i] = tls.SignatureScheme(s)
		}
		o = append(o, dtls.WithCertificateSignatureSchemes(ss...))
	}
	if ep.CID != 0 {
		o = append(o, dtls.WithConnectionIDGenerator(env.cidGen(role, ep.CID)))
	}
	if len(ep.SRTP) > 0 {
		ps := make([]dtls.SRTPProtectionProfile, len(ep.SRTP))
		for i, p := range ep.SRTP {
			ps[i] = dtls.SRTPProtectionProfile(p)
		}
		o = append(o, dtls.WithSRTPProtectionProfiles(ps...))
		if len(ep.MKI) > 0 {
			o = append(o, dtls.WithSRTPMasterKeyIdentifier(ep.MKI))
		}
	}
	if len(ep.ALPN) > 0 {
		o = append(o, dtls.WithSupportedProtocols(ep.ALPN...))
	}
	if ep.MTU > 0 {
		o = append(o, dtls.WithMTU(ep.MTU))
	}
	if ep.Store != "" {
		o = append(o, dtls.WithSessionStore(env.Store(ep.Store)))
	}
	if ep.Window > 0 {
		o = append(o, dtls.WithReplayProtectionWindow(ep.Window))
	}
	if ep.IntervalMs > 0 || ep.IntervalUs > 0 {
		o = append(o, dtls.WithFlightInterval(time.Duration(ep.IntervalMs)*time.Millisecond+time.Duration(ep.IntervalUs)*time.Microsecond))
	}
	if ep.NoBackoff {
		o = append(o, dtls.WithDisableRetransmitBackoff(true))
	}
	if ep.Padding > 0 {
		p := uint(ep.Padding) //nolint:gosec
		o = append(o, dtls.WithPaddingLengthGenerator(func(uint) uint { return p }))
	}
	if ep.FixedRandom {
		o = append(o, dtls.WithHelloRandomBytesGenerator(func() [28]byte {
			var b [28]byte
			copy(b[:], "deterministic-hello-random!!")

			return b
		}))
	}
	if ep.NoVerify {
		o = append(o, dtls.WithInsecureSkipVerify(true))
	}
	if ep.RootCA != 0 {
		o = append(o, dtls.WithRootCAs(caPool(ep.RootCA)))
	}
	if ep.ServerName != "" {
		o = append(o, dtls.WithServerName(ep.ServerName))
	}
	if ep.KeyLog || true {
		o = append(o, dtls.WithKeyLogWriter(io.MultiWriter(env.KeyLog, env.KeyLogOf(role))))
	}

	return o, nil
}

func caPool(i int) *x509.CertPool {
	if i == 2 {
		return GetCreds().CA2.Pool
	}

	return GetCreds().CA1.Pool
}

// ClientOptions builds the option list of a client.
func (ep *EP) ClientOptions(env *Env) ([]dtls.ClientOption, error) {
	sh, err := ep.shared(env, "C")
	if err != nil {
		return nil, err
	}
	out := make([]dtls.ClientOption, 0, len(sh)+len(env.ExtraClient))
	for _, o := range sh {
		out = append(out, o)
	}

	return append(out, env.ExtraClient...), nil
}

// ServerOptions builds the option list of a server.
func (ep *EP) ServerOptions(env *Env) ([]dtls.ServerOption, error) {
	sh, err := ep.shared(env, "S")
	if err != nil {
		return nil, err
	}
	out := make([]dtls.ServerOption, 0, len(sh)+4+len(env.ExtraServer))
	for _, o := range sh {
		out = append(out, o)
	}
	if ep.ClientAuth != 0 {
		out = append(out, dtls.WithClientAuth(dtls.ClientAuthType(ep.ClientAuth)))
	}
	if ep.ClientCAs {
		pool := GetCreds().CA1.Pool
		if ep.ClientCAsMulti {
			pool = GetCreds().ClientPoolMulti
		}
		out = append(out, dtls.WithClientCAs(pool))
	}
	if ep.SkipHelloVfy {
		out = append(out, dtls.WithInsecureSkipVerifyHello(true))
	}

	return append(out, env.ExtraServer...), nil
}
