package c19

import (
	"bytes"
	"errors"
	"fmt"
	"reflect"
	"testing"
	"time"

	dtls "github.com/pion/dtls/v3"
	"github.com/pion/dtls/v3/internal/zzverif/lib/pbt"
	"github.com/pion/dtls/v3/internal/zzverif/lib/ref"
	"github.com/pion/dtls/v3/internal/zzverif/lib/scen"
	"github.com/pion/dtls/v3/internal/zzverif/lib/vnet"
	"pgregory.net/rapid"
)

func TestMain(m *testing.M) { pbt.Main(m, "C19") }

func TestProps(t *testing.T) { pbt.RunAll(t) }

func TestReplay(t *testing.T) { pbt.Replay(t) }

// Case: a DTLS 1.2 session, traffic, export/import point(s), more traffic.
type Case struct {
	Suite  uint16   `json:"suite"`
	CIDC   int      `json:"cidc,omitempty"`
	CIDS   int      `json:"cids,omitempty"`
	SRTP   []uint16 `json:"srtp,omitempty"`
	ALPN   []string `json:"alpn,omitempty"`
	EMS    int      `json:"ems,omitempty"`
	CCert  bool     `json:"ccert,omitempty"`
	A      int      `json:"a"`    // records client->server before the export
	B      int      `json:"b"`    // records server->client before the export
	Side   string   `json:"side"` // C, S, both
	C2     int      `json:"c2"`   // records each way after the import
	Second bool     `json:"second,omitempty"`
	// NewAddr: the resumed endpoint shows up from a different address (process restarted behind a NAT):
	// with connection IDs and return routability negotiated the untouched peer validates the new path
	NewAddr bool     `json:"newaddr,omitempty"`
	Corrupt *Corrupt `json:"corrupt,omitempty"`
	// Order of the API calls at the export point: "", "close-first", "interleave" (scen.Pair.ExportOrder)
	Order string `json:"order,omitempty"`
}

// Corrupt describes a corruption of the serialised bytes.
type Corrupt struct {
	Kind string `json:"kind"` // bit, trunc, field, random, splice
	Pos  int    `json:"pos"`
	Arg  int    `json:"arg"`
}

var pskSuites = map[uint16]bool{0xc0a4: true, 0xc0a8: true, 0xc0a9: true, 0x00a8: true, 0x00ae: true, 0xccab: true, 0xc037: true}

func epsFor(c *Case) (cl, sv scen.EP) {
	cl = scen.EP{RootCA: 1, ServerName: scen.ServerName, Suites: []uint16{c.Suite}}
	sv = scen.EP{Cert: "ecdsa", Suites: []uint16{c.Suite}}
	switch {
	case c.Suite == 0xc02f || c.Suite == 0xc030 || c.Suite == 0xc014 || c.Suite == 0xcca8:
		sv.Cert = "rsa"
	case pskSuites[c.Suite]:
		cl = scen.EP{PSK: "export-psk-0001", PSKHint: "client-identity", Suites: []uint16{c.Suite}}
		sv = scen.EP{PSK: "export-psk-0001", PSKHint: "server-hint", Suites: []uint16{c.Suite}}
	}
	cl.CID, sv.CID = c.CIDC, c.CIDS
	cl.SRTP, sv.SRTP = c.SRTP, c.SRTP
	if len(c.SRTP) > 0 {
		// a master key identifier as well: each side then holds the peer's, which an export has to carry
		cl.MKI, sv.MKI = []byte{0xa1, 0xb2, 0xc3, 0xd4}, []byte{0xa1, 0xb2, 0xc3, 0xd4}
	}
	cl.ALPN, sv.ALPN = c.ALPN, c.ALPN
	cl.EMS, sv.EMS = c.EMS, c.EMS
	if c.CCert && !pskSuites[c.Suite] {
		cl.Cert = "client-ecdsa"
		sv.ClientAuth, sv.ClientCAs = 4, true
	}

	return cl, sv
}

func pl(tag byte, i int) []byte {
	return []byte{0xC1, 0x9C, tag, byte(i >> 8), byte(i), 0x55, 0xAA}
}

type snapshot struct {
	suite   dtls.CipherSuiteID
	alpn    string
	certs   [][]byte
	sid     []byte
	hint    []byte
	srtp    dtls.SRTPProtectionProfile
	srtpOK  bool
	mki     []byte
	exports [][]byte
}

var labels = []string{"EXTRACTOR-dtls_srtp", "verif export label", "x"}

func snap(conn *dtls.Conn) (*snapshot, error) {
	st, ok := conn.ConnectionState()
	if !ok {
		return nil, errors.New("no connection state")
	}
	s := &snapshot{suite: st.CipherSuiteID, alpn: st.NegotiatedProtocol, certs: st.PeerCertificates, sid: st.SessionID, hint: st.IdentityHint}
	s.srtp, s.srtpOK = conn.SelectedSRTPProtectionProfile()
	s.mki, _ = conn.RemoteSRTPMasterKeyIdentifier()
	for i, l := range labels {
		e, err := st.ExportKeyingMaterial(l, nil, 20+i*13)
		if err != nil {
			return nil, err
		}
		s.exports = append(s.exports, e)
	}

	return s, nil
}

func eqChains(a, b [][]byte) bool {
	if len(a) != len(b) {
		return false
	}
	for i := range a {
		if !bytes.Equal(a[i], b[i]) {
			return false
		}
	}

	return true
}

func (s *snapshot) diff(o *snapshot) string {
	switch {
	case s.suite != o.suite:
		return "cipher-suite"
	case s.alpn != o.alpn:
		return "alpn"
	case !eqChains(s.certs, o.certs):
		return "peer-certificates"
	case !bytes.Equal(s.sid, o.sid):
		return "session-id"
	case !bytes.Equal(s.hint, o.hint):
		return "identity-hint"
	case s.srtp != o.srtp || s.srtpOK != o.srtpOK:
		return "srtp-profile"
	case !bytes.Equal(s.mki, o.mki):
		return "srtp-mki"
	case !reflect.DeepEqual(s.exports, o.exports):
		return "exported-keying-material"
	}

	return ""
}

// exchange writes n payloads each way (tags distinguish phases) and checks exact delivery.
func exchange(p *scen.Pair, tag byte, nC2S, nS2C int, r *pbt.R, what string) bool {
	var c2s, s2c [][]byte
	for i := 0; i < nC2S; i++ {
		c2s = append(c2s, pl(tag, i))
	}
	for i := 0; i < nS2C; i++ {
		s2c = append(s2c, pl(tag|0x80, i))
	}
	gotS, gotC, werr := p.Exchange(c2s, s2c)
	if werr != nil {
		r.Failf("C19|"+what+"|write-error", "write failed: %v", werr)

		return false
	}
	same := func(a, b [][]byte) bool {
		if len(a) != len(b) {
			return false
		}
		for i := range a {
			if !bytes.Equal(a[i], b[i]) {
				return false
			}
		}

		return true
	}
	if !same(gotS, c2s) {
		r.Failf("C19|"+what+"|data-c2s", "server read %d payloads, client wrote %d (or bytes differ)", len(gotS), len(c2s))

		return false
	}
	if !same(gotC, s2c) {
		r.Failf("C19|"+what+"|data-s2c", "client read %d payloads, server wrote %d (or bytes differ)", len(gotC), len(s2c))

		return false
	}

	return true
}

func cidLens(c *Case, env *scen.Env) map[string]int {
	out := map[string]int{}
	if c.CIDC != 0 && c.CIDS != 0 {
		for _, n := range []string{"C", "S"} {
			if l := env.CIDs[n]; len(l) > 0 {
				out[n] = len(l[len(l)-1])
			}
		}
	}

	return out
}

func seqMonotone(p *scen.Pair, cl map[string]int, r *pbt.R) bool {
	type key struct {
		from  string
		epoch int
	}
	last := map[key]uint64{}
	seen := map[key]bool{}
	for _, ev := range p.Net.Events() {
		if ev.From != "C" && ev.From != "S" {
			continue
		}
		to := "S"
		if ev.From == "S" {
			to = "C"
		}
		recs, _ := scen.SplitDatagram(ev.Data, cl[to])
		for _, rc := range recs {
			k := key{ev.From, rc.Epoch}
			if seen[k] && rc.Seq <= last[k] {
				r.Failf("C19|sequence-reused-across-import", "%s epoch %d: sequence %d after %d", ev.From, rc.Epoch, rc.Seq, last[k])

				return false
			}
			seen[k], last[k] = true, rc.Seq
			if rc.Epoch >= 1 && rc.Type != scen.CTChangeCipherSpec {
				if cl[to] > 0 && rc.Kind != "cid" {
					r.Failf("C19|record-without-cid", "%s sent a protected record without the peer's connection id after import", ev.From)

					return false
				}
			}
		}
	}

	return true
}

func run(c Case, r *pbt.R) {
	berr := pbt.Bubble(func() {
		cEP, sEP := epsFor(&c)
		env := scen.NewEnv()
		p := scen.NewPair(env, &cEP, &sEP)
		p.ExportOrder = c.Order
		if c.Order != "" {
			r.Class("order:" + c.Order)
		}
		defer p.Close()
		p.Handshake(10 * time.Minute)
		if !(p.C.OK() && p.S.OK()) {
			r.Failf("C19|harness|handshake", "setup failed: %v %v", p.C.Err(), p.S.Err())

			return
		}
		if !exchange(p, 1, c.A, c.B, r, "before-export") {
			return
		}
		before := map[string]*snapshot{}
		for _, sd := range []*scen.Side{p.C, p.S} {
			s, err := snap(sd.Conn)
			if err != nil {
				r.Failf("C19|harness|snapshot", "%v", err)

				return
			}
			before[sd.Name] = s
		}
		sides := []*scen.Side{p.C}
		switch c.Side {
		case "S":
			sides = []*scen.Side{p.S}
		case "both":
			sides = []*scen.Side{p.C, p.S}
		}
		epOf := map[string]*scen.EP{"C": &cEP, "S": &sEP}
		rounds := 1
		if c.Second {
			rounds = 2
		}
		for round := 0; round < rounds; round++ {
			for _, sd := range sides {
				if _, err := p.ExportImport(sd, env, epOf[sd.Name], nil); err != nil {
					r.Failf("C19|export-import-failed", "side %s round %d: %v", sd.Name, round, err)

					return
				}
				scen.Settle()
				after, err := snap(sd.Conn)
				if err != nil {
					// ConnectionState needs the resumed connection to have entered its finished state
					_ = sd.Conn.Handshake()
					scen.Settle()
					after, err = snap(sd.Conn)
				}
				if err != nil {
					r.Failf("C19|no-state-after-import", "side %s: %v", sd.Name, err)

					return
				}
				if d := before[sd.Name].diff(after); d != "" {
					r.Failf("C19|parameter-changed|"+d, "side %s reports a different %s after export/import", sd.Name, d)

					return
				}
			}
			if c.NewAddr && c.Side != "both" {
				moved := sides[0].Name
				alias := moved + "2"
				p.Net.Redirect[alias] = moved
				p.Net.SrcRewrite = func(ev *vnet.Event) string {
					if ev.From == moved {
						return alias
					}

					return ""
				}
				r.Class("resumed-from-new-address")
			}
			if !exchange(p, byte(2+round), c.C2, c.C2, r, "after-import") {
				return
			}
			if c.NewAddr && c.Side != "both" {
				// the path validation triggered by the first exchange has run by now: data must still flow
				if !exchange(p, byte(6+round), max(c.C2, 1), max(c.C2, 1), r, "after-import-and-migration") {
					return
				}
			}
		}
		if !seqMonotone(p, cidLens(&c, env), r) {
			return
		}
		if (c.A > 0 && c.B > 0) || c.CIDC != 0 || len(c.SRTP) > 0 || len(c.ALPN) > 0 || pskSuites[c.Suite] {
			r.NonTrivial()
		}
		r.Class("side=" + c.Side)
		r.Class(scen.SuiteName(c.Suite))
		if c.CIDC != 0 && c.CIDS != 0 {
			r.Class("cid")
		}
		if c.Second {
			r.Class("second-export")
		}
	})
	report(berr, r)
}

func report(berr *pbt.BubbleError, r *pbt.R) {
	if berr != nil {
		if berr.Deadlock {
			r.Failf("C19|bubble-deadlock", "goroutines left blocked: %v", berr.Value)
		} else {
			r.Failf(pbt.PanicSig("C19", []byte(berr.Stack)), "panic: %v\n%s", berr.Value, berr.Stack)
		}
	}
}

// ---- corruption --------------------------------------------------------------------------

func corruptBytes(raw []byte, k *Corrupt) []byte {
	out := append([]byte(nil), raw...)
	switch k.Kind {
	case "bit":
		i := k.Pos % (len(out) * 8)
		out[i/8] ^= 1 << (i % 8)
	case "trunc":
		out = out[:k.Pos%len(out)]
	case "random":
		x := uint32(k.Pos*7919 + k.Arg) //nolint:gosec
		for i := range out {
			x = x*1664525 + 1013904223
			out[i] = byte(x >> 24)
		}
	case "field":
		m, err := scen.DecodeState(raw)
		if err != nil {
			return out
		}
		epochs := []uint16{m.LocalEpoch + 1, m.LocalEpoch + 2, m.LocalEpoch + 3, 0, 0xffff, 0xfffe, 0x8000, 0x0100, 0x7fff}
		switch k.Pos % 13 {
		case 0:
			m.MasterSecret = append([]byte(nil), m.MasterSecret...)
			if len(m.MasterSecret) > 0 {
				m.MasterSecret[k.Arg%len(m.MasterSecret)] ^= 0x10
			}
		case 1:
			m.MasterSecret = m.MasterSecret[:k.Arg%(len(m.MasterSecret)+1)]
		case 2:
			m.LocalRandom[k.Arg%32] ^= 1
		case 3:
			m.RemoteRandom[k.Arg%32] ^= 1
		case 4:
			m.CipherSuiteID = []uint16{0xc02b, 0xc02c, 0xcca9, 0xc0ac, 0xc00a, 0x00a8, 0x1301, 0x0000, 0xffff}[k.Arg%9]
		case 5:
			m.IsClient = !m.IsClient
		case 6:
			m.LocalEpoch = epochs[k.Arg%len(epochs)]
		case 7:
			m.RemoteEpoch = epochs[k.Arg%len(epochs)] - m.LocalEpoch + m.RemoteEpoch
		case 8:
			m.LocalConnectionID = append(append([]byte(nil), m.LocalConnectionID...), byte(k.Arg))
		case 9:
			m.RemoteConnectionID = append(append([]byte(nil), m.RemoteConnectionID...), byte(k.Arg))
		case 10:
			m.LocalRandom, m.RemoteRandom = m.RemoteRandom, m.LocalRandom
		case 11:
			m.Version.Minor = byte(k.Arg)
		case 12:
			m.SequenceNumber = []uint64{0, 1<<48 - 1, 1 << 48, 1 << 63, 1<<64 - 1, m.SequenceNumber + 1000, 1<<48 - 2, 1<<48 + 5, 1<<16 - 1}[k.Arg%9]
		}
		if enc, err := scen.EncodeState(m); err == nil {
			out = enc
		}
	}

	return out
}

// keyFieldsIntact reports whether the fields that determine the record keys are unchanged:
// record-protection class of the suite, master secret, both randoms and the role. Epoch and
// connection-ID edits do not change keys; a connection resumed from them may still authenticate
// the peer's genuine records, which is harmless, so nothing is asserted for them beyond "no panic".
func keyFieldsIntact(orig, mut []byte) bool {
	a, err1 := scen.DecodeState(orig)
	b, err2 := scen.DecodeState(mut)
	if err1 != nil || err2 != nil {
		return false
	}
	sa, oka := ref.Suites12[a.CipherSuiteID]
	sb, okb := ref.Suites12[b.CipherSuiteID]
	sameCrypto := oka && okb && sa.Kind == sb.Kind && sa.PRF == sb.PRF && sa.MAC == sb.MAC && sa.KeyLen == sb.KeyLen && sa.TagLen == sb.TagLen

	// (the master secret is only ever used as an HMAC key, and HMAC pads its key with zeros: secrets that differ
	// in trailing zero bytes - a truncation that removed a zero byte, one time in 256 - give the same keys)
	sameMaster := bytes.Equal(bytes.TrimRight(a.MasterSecret, "\x00"), bytes.TrimRight(b.MasterSecret, "\x00"))

	return sameCrypto && sameMaster && a.LocalRandom == b.LocalRandom &&
		a.RemoteRandom == b.RemoteRandom && a.IsClient == b.IsClient
}

func runCorrupt(c Case, r *pbt.R) {
	if c.Corrupt == nil {
		return
	}
	berr := pbt.Bubble(func() {
		cEP, sEP := epsFor(&c)
		env := scen.NewEnv()
		p := scen.NewPair(env, &cEP, &sEP)
		defer p.Close()
		p.Handshake(10 * time.Minute)
		if !(p.C.OK() && p.S.OK()) {
			r.Failf("C19|harness|handshake", "setup failed: %v %v", p.C.Err(), p.S.Err())

			return
		}
		if !exchange(p, 1, c.A, c.B, r, "before-export") {
			return
		}
		sd, peer := p.C, p.S
		if c.Side == "S" {
			sd, peer = p.S, p.C
		}
		epOf := map[string]*scen.EP{"C": &cEP, "S": &sEP}
		var orig, mutated []byte
		_, err := p.ExportImport(sd, env, epOf[sd.Name], func(raw []byte) []byte {
			orig = append([]byte(nil), raw...)
			mutated = corruptBytes(raw, c.Corrupt)

			return mutated
		})
		changed := !bytes.Equal(orig, mutated)
		intact := keyFieldsIntact(orig, mutated)
		cls := "rejected"
		if err == nil {
			cls = "accepted"
		}
		r.Class(c.Corrupt.Kind + ":" + cls)
		if err != nil {
			// rejected by UnmarshalBinary / ResumeWithOptions: fine. (the old connection is still in place)
			if changed {
				r.NonTrivial()
			}

			return
		}
		if !changed || intact {
			r.Class("semantically-intact")
			// A state whose write counter says MORE records were sent than really were (up to
			// "exhausted", >= 2^48) is accepted: the resumed connection must continue at or above that
			// counter - and refuse to write when it is exhausted - never wrap or restart below it.
			mo, e1 := scen.DecodeState(orig)
			mm, e2 := scen.DecodeState(mutated)
			// (judged only for counters a genuine session can hold: below 2^48, or exhausted plus the
			// failed writes since; a counter near 2^64 exists in corrupted blobs only)
			if e1 == nil && e2 == nil && mm.LocalEpoch == mo.LocalEpoch && mm.SequenceNumber > mo.SequenceNumber && mm.SequenceNumber < 1<<48+1<<20 {
				mark := len(p.Net.Events())
				_, werr1 := sd.Conn.Write(pl(8, 1))
				_, werr2 := sd.Conn.Write(pl(8, 2))
				scen.Settle()
				cl := cidLens(&c, env)
				to := "S"
				if sd.Name == "S" {
					to = "C"
				}
				for _, ev := range p.Net.Events()[mark:] {
					if ev.From != sd.Name {
						continue
					}
					recs, _ := scen.SplitDatagram(ev.Data, cl[to])
					for _, rc := range recs {
						if rc.Epoch != int(mo.LocalEpoch) || rc.Type == scen.CTAlert {
							continue
						}
						if mm.SequenceNumber >= 1<<48 || rc.Seq < mm.SequenceNumber {
							r.Failf("C19|sequence-counter-not-honoured-after-import", "state with write counter %d (original %d) resumed: a record with sequence number %d was emitted (write errors: %v, %v)", mm.SequenceNumber, mo.SequenceNumber, rc.Seq, werr1, werr2)

							return
						}
					}
				}
				r.Class("write-counter-advanced")
				r.NonTrivial()
			}

			return
		}
		// the corrupted connection must not be able to exchange authenticated records with the untouched peer
		sd.StartReader()
		peer.StartReader()
		scen.Settle()
		baseP, baseS := len(peer.ReadLog()), len(sd.ReadLog())
		_, _ = sd.Conn.Write(pl(9, 1))
		_, _ = peer.Conn.Write(pl(9, 2))
		scen.Settle()
		time.Sleep(5 * time.Second)
		scen.Settle()
		if len(peer.ReadLog()) != baseP {
			r.Failf("C19|corrupted-state-authenticates|peer-accepts", "state with a changed key field (%+v) produced a record the untouched peer accepted", *c.Corrupt)

			return
		}
		if len(sd.ReadLog()) != baseS {
			r.Failf("C19|corrupted-state-authenticates|accepts-peer", "connection resumed from a state with a changed key field (%+v) accepted the peer's record", *c.Corrupt)

			return
		}
		r.NonTrivial()
	})
	report(berr, r)
}

var suites = []uint16{0xc02b, 0xc02c, 0xc0ac, 0xc0ae, 0xc00a, 0xcca9, 0xc02f, 0xc014, 0x00a8, 0xc0a4, 0x00ae, 0xccab, 0xc037}

func genBase(t *rapid.T) Case {
	c := Case{Suite: rapid.SampledFrom(suites).Draw(t, "suite")}
	switch rapid.IntRange(0, 3).Draw(t, "cidmode") {
	case 1:
		c.CIDC, c.CIDS = rapid.IntRange(1, 8).Draw(t, "cidc"), rapid.IntRange(1, 8).Draw(t, "cids")
	case 2:
		c.CIDC, c.CIDS = rapid.IntRange(1, 8).Draw(t, "cidc"), -1
	case 3:
		c.CIDC, c.CIDS = -1, rapid.IntRange(1, 8).Draw(t, "cids")
	}
	c.NewAddr = rapid.IntRange(0, 2).Draw(t, "newaddr") == 0
	if rapid.IntRange(0, 2).Draw(t, "srtp") == 0 {
		c.SRTP = []uint16{uint16(rapid.IntRange(1, 8).Draw(t, "profile"))} //nolint:gosec
	}
	if rapid.IntRange(0, 2).Draw(t, "alpn") == 0 {
		c.ALPN = []string{rapid.SampledFrom([]string{"h2", "webrtc", "coap"}).Draw(t, "proto")}
	}
	c.EMS = rapid.SampledFrom([]int{0, 0, 1, 2}).Draw(t, "ems")
	c.CCert = rapid.IntRange(0, 3).Draw(t, "ccert") == 0
	c.A = rapid.SampledFrom([]int{0, 0, 1, 2, 5, 50}).Draw(t, "a")
	c.B = rapid.SampledFrom([]int{0, 0, 1, 2, 5, 50}).Draw(t, "b")
	c.Side = rapid.SampledFrom([]string{"C", "S", "both"}).Draw(t, "side")
	c.C2 = rapid.IntRange(1, 6).Draw(t, "c2")
	c.Second = rapid.IntRange(0, 3).Draw(t, "second") == 0
	c.Order = rapid.SampledFrom([]string{"", "", "close-first", "interleave"}).Draw(t, "order")

	return c
}

func genCorrupt(t *rapid.T) Case {
	c := genBase(t)
	if c.Side == "both" {
		c.Side = "C"
	}
	c.A, c.B = min(c.A, 3), min(c.B, 3)
	c.Order = ""
	c.Corrupt = &Corrupt{
		Kind: rapid.SampledFrom([]string{"bit", "bit", "trunc", "field", "field", "field", "random"}).Draw(t, "kind"),
		Pos:  rapid.IntRange(0, 1<<16).Draw(t, "pos"),
		Arg:  rapid.IntRange(0, 255).Draw(t, "arg"),
	}

	return c
}

// every truncation length and every field edit for one default session
func enumCorrupt(_ string, yield func(Case) bool) {
	for _, side := range []string{"C", "S"} {
		for _, cid := range []int{0, 4} {
			base := Case{Suite: 0xc02b, CIDC: cid, CIDS: cid, A: 1, B: 1, Side: side, C2: 1}
			for n := 0; n < 700; n++ {
				c := base
				c.Corrupt = &Corrupt{Kind: "trunc", Pos: n}
				if !yield(c) {
					return
				}
			}
			for f := 0; f < 13; f++ {
				for a := 0; a < 9; a++ {
					c := base
					c.Corrupt = &Corrupt{Kind: "field", Pos: f, Arg: a}
					if !yield(c) {
						return
					}
				}
			}
		}
	}
}

func init() {
	pbt.Register(pbt.Prop[Case]{
		Name: "export-import", Quick: 1500, Thorough: 40000, Gen: genBase, Run: run, Crashy: true,
		Rule: "DTLS 1.2 session (13 suites x CID none/one-way/both x SRTP x ALPN x EMS x PSK/cert x client cert) with a traffic prefix of a,b <= 50 records, export point on client, server or both " +
			"(ConnectionState -> MarshalBinary -> UnmarshalBinary -> ResumeWithOptions on a fresh PacketConn spliced onto the same link; also with the old connection closed before the snapshot is serialised, and with another state serialised while the blob is held), c more records each way, optional second export; " +
			"oracle: payloads flow both ways exactly once, exporter output and every negotiated parameter unchanged, (epoch, seq) strictly increasing across the seam, records keep the peer's CID. " +
			"non-trivial = traffic in both directions before export or CID/SRTP/ALPN/PSK in play; distinct = whole case",
	})
	pbt.Register(pbt.Prop[Case]{
		Name: "corrupted-state", Quick: 3000, Thorough: 80000, Gen: genCorrupt, Run: runCorrupt, Crashy: true,
		Rule: "serialised state corrupted (bit flip, truncation, field-aware edit through a gob mirror, random bytes): UnmarshalBinary/ResumeWithOptions reject it, or - when a key field " +
			"(record-protection class of the suite, master secret, randoms, role) changed - the resumed connection exchanges no authenticated record with the untouched peer; never a panic. " +
			"non-trivial = bytes changed and either rejected or judged on traffic; distinct = whole case",
	})
	pbt.Register(pbt.Prop[Case]{
		Name: "corrupted-state-grid", Enum: enumCorrupt, Exhaustive: true, Run: runCorrupt, Crashy: true,
		Rule: "GRID: every truncation length 0..699 and every field edit (13 fields x 9 values incl. epoch and sequence-number boundary values) for a default session, both sides, with and without CID; same oracle as corrupted-state",
	})
	_ = vnet.Pass
	_ = fmt.Sprint
}
