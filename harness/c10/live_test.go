package c10

import (
	"bytes"
	"context"
	"encoding/hex"
	"fmt"
	"hash"
	"os"
	"sort"
	"strings"
	"time"

	dtls "github.com/pion/dtls/v3"
	"github.com/pion/dtls/v3/internal/zzverif/lib/pbt"
	"github.com/pion/dtls/v3/internal/zzverif/lib/ref"
	"github.com/pion/dtls/v3/internal/zzverif/lib/scen"
	"pgregory.net/rapid"
)

// LiveCase: a whole session judged by a passive decoder.
type LiveCase struct {
	Suite  uint16 `json:"suite"`
	CIDC   int    `json:"cidc,omitempty"`
	CIDS   int    `json:"cids,omitempty"`
	Pad    int    `json:"pad,omitempty"`
	EMS    int    `json:"ems,omitempty"`
	SkipHV bool   `json:"skiphv,omitempty"`
	CCert  bool   `json:"ccert,omitempty"`
	Sizes  []int  `json:"sizes"`
	Label  string `json:"label"`
	ExpLen int    `json:"explen"`
	// Updates (1.3): after the first exchange every side performs this many key updates (alternately with and
	// without requesting the peer's), then the payloads are exchanged once more under the later generations
	Updates int `json:"updates,omitempty"`
	// Resume (1.2): session stores on both sides and a preceding connection: the judged one is abbreviated
	Resume bool `json:"resume,omitempty"`
}

var pskSuite = map[uint16]bool{0xc0a4: true, 0xc0a8: true, 0xc0a9: true, 0x00a8: true, 0x00ae: true, 0xccab: true, 0xc037: true}

func liveEPs(c *LiveCase) (cl, sv scen.EP) {
	cl = scen.EP{RootCA: 1, ServerName: scen.ServerName, Suites: []uint16{c.Suite}}
	sv = scen.EP{Cert: "ecdsa", Suites: []uint16{c.Suite}}
	switch {
	case c.Suite>>8 == 0x13:
		cl.MinVer, cl.MaxVer, sv.MinVer, sv.MaxVer = 13, 13, 13, 13
		cl.Curves, sv.Curves = []uint16{0x1d}, []uint16{0x1d}
	case c.Suite == 0xc02f || c.Suite == 0xc030 || c.Suite == 0xc014 || c.Suite == 0xcca8:
		sv.Cert = "rsa"
		cl.MTU, sv.MTU = 1500, 1500
	case pskSuite[c.Suite]:
		cl = scen.EP{PSK: "live-psk-key-0001", PSKHint: "id", Suites: []uint16{c.Suite}}
		sv = scen.EP{PSK: "live-psk-key-0001", PSKHint: "hint", Suites: []uint16{c.Suite}}
	}
	cl.CID, sv.CID = c.CIDC, c.CIDS
	cl.Padding, sv.Padding = c.Pad, c.Pad
	cl.EMS, sv.EMS = c.EMS, c.EMS
	sv.SkipHelloVfy = c.SkipHV
	if c.CCert && !pskSuite[c.Suite] {
		cl.Cert = "client-ecdsa"
		sv.ClientAuth, sv.ClientCAs = 4, true
	}

	return cl, sv
}

type hsMsg struct {
	from string
	typ  int
	seq  int
	body []byte
	at   int
}

func full12(m hsMsg) []byte {
	n := len(m.body)
	h := []byte{byte(m.typ), byte(n >> 16), byte(n >> 8), byte(n), byte(m.seq >> 8), byte(m.seq), 0, 0, 0, byte(n >> 16), byte(n >> 8), byte(n)}

	return append(h, m.body...)
}

func full13(m hsMsg) []byte {
	n := len(m.body)

	return append([]byte{byte(m.typ), byte(n >> 16), byte(n >> 8), byte(n)}, m.body...)
}

var hrrRandom = []byte{0xCF, 0x21, 0xAD, 0x74, 0xE5, 0x9A, 0x61, 0x11, 0xBE, 0x1D, 0x8C, 0x02, 0x1E, 0x65, 0xB8, 0x91, 0xC2, 0xA2, 0x11, 0x16, 0x7A, 0xBB, 0x8C, 0x5E, 0x07, 0x9E, 0x09, 0xE2, 0xC8, 0xA8, 0x33, 0x9C}

func runLive(c LiveCase, r *pbt.R) {
	is13 := c.Suite>>8 == 0x13
	var gens []scen.Gen13
	stop := scen.CaptureGens13(&gens)
	defer stop()
	getSecrets, stopSecrets := scen.CaptureSecrets13()
	defer stopSecrets()
	berr := pbt.Bubble(func() {
		cEP, sEP := liveEPs(&c)
		env := scen.NewEnv()
		if c.Resume && !is13 {
			cEP.Store, sEP.Store = "cs", "ss"
			p0 := scen.NewPair(env, &cEP, &sEP)
			p0.Handshake(10 * time.Minute)
			ok0 := p0.C.OK() && p0.S.OK()
			p0.Close()
			scen.Settle()
			if !ok0 {
				r.Failf("C10|harness|handshake", "first connection failed (suite %04x)", c.Suite)

				return
			}
			r.Class("resumed")
		}
		p := scen.NewPair(env, &cEP, &sEP)
		defer p.Close()
		p.Handshake(10 * time.Minute)
		if !(p.C.OK() && p.S.OK()) {
			r.Failf("C10|harness|handshake", "setup failed (suite %04x): %v %v", c.Suite, p.C.Err(), p.S.Err())

			return
		}
		var c2s, s2c [][]byte
		for i, n := range c.Sizes {
			b := bytes.Repeat([]byte{byte(0x30 + i)}, n)
			c2s = append(c2s, append([]byte("C2S:"), b...))
			s2c = append(s2c, append([]byte("S2C:"), b...))
		}
		gotS, gotC, werr := p.Exchange(c2s, s2c)
		if werr != nil || len(gotS) != len(c2s) || len(gotC) != len(s2c) {
			r.Failf("C10|harness|exchange", "exchange failed: %v", werr)

			return
		}
		time.Sleep(3 * time.Second)
		scen.Settle()
		if is13 && c.Updates > 0 {
			for u := 0; u < c.Updates; u++ {
				for _, sd := range []*scen.Side{p.C, p.S} {
					ctx, cancel := context.WithTimeout(context.Background(), time.Minute)
					err := sd.Conn.UpdateKeys(ctx, dtls.KeyUpdateOptions{RequestPeerUpdate: u%2 == 1})
					cancel()
					if err != nil {
						r.Failf("C10|harness|update-keys", "UpdateKeys %d on %s: %v", u, sd.Name, err)

						return
					}
				}
			}
			var c2s2, s2c2 [][]byte
			for i, n := range c.Sizes {
				b := bytes.Repeat([]byte{byte(0x40 + i)}, n)
				c2s2 = append(c2s2, append([]byte("C2S/2:"), b...))
				s2c2 = append(s2c2, append([]byte("S2C/2:"), b...))
			}
			gotS2, gotC2, werr2 := p.Exchange(c2s2, s2c2)
			if werr2 != nil || len(gotS2) != len(c2s2) || len(gotC2) != len(s2c2) {
				r.Failf("C10|harness|exchange-after-update", "exchange after %d key updates failed: %v", c.Updates, werr2)

				return
			}
			c2s, s2c = append(c2s, c2s2...), append(s2c, s2c2...)
			time.Sleep(3 * time.Second)
			scen.Settle()
			r.Class("key-updates")
		}
		stC, _ := p.C.Conn.ConnectionState()
		stS, _ := p.S.Conn.ConnectionState()
		var dec *ref.Decoder
		if is13 {
			// the passive decoder holds the handshake and first application traffic secrets only; every later
			// generation is its own RFC 8446 7.2 successor of those, never what the library says it installed
			var base []scen.Gen13
			for _, g := range gens {
				if g.Epoch <= 3 {
					base = append(base, g)
				}
			}
			dec = scen.Decoder13(p, base)
			if dec != nil {
				if su, ok := ref.Suites13[c.Suite]; ok {
					for _, g := range base {
						if g.Epoch != 3 {
							continue
						}
						sec := g.Secret
						for e := uint16(4); e <= uint16(3+2*c.Updates+1); e++ { //nolint:gosec
							sec = ref.NextTrafficSecret13(su, sec)
							dec.AddGen13(e, sec)
						}
					}
				}
			}
		} else {
			dec = scen.Decoder12(p, env)
		}
		if dec == nil {
			r.Failf("C10|live|no-decoder", "the key log / secrets and the hellos on the wire do not yield a decoder (suite %04x)", c.Suite)

			return
		}
		cidLen := map[string]int{}
		if c.CIDC != 0 && c.CIDS != 0 {
			for _, n := range []string{"C", "S"} {
				if l := env.CIDs[n]; len(l) > 0 {
					cidLen[n] = len(l[len(l)-1])
				}
			}
		}
		// decode everything
		var msgs []hsMsg
		asm := map[string]map[int][]byte{"C": {}, "S": {}}
		seenApp := map[string][][]byte{}
		nProt := 0
		for i, ev := range p.Net.Events() {
			if ev.From != "C" && ev.From != "S" {
				continue
			}
			to := "S"
			if ev.From == "S" {
				to = "C"
			}
			ds, ok := dec.Decode(ev.From, ev.Data, cidLen[to])
			if !ok {
				r.Failf("C10|live|datagram-does-not-split", "a datagram from %s does not split into records: %s", ev.From, scen.Describe(ev.Data, cidLen[to]))

				return
			}
			for _, d := range ds {
				if d.Protect {
					nProt++
					if !d.OK {
						layout := d.Kind
						r.Failf(fmt.Sprintf("C10|live|passive-decoder-cannot-open|%s|%s", kindOf(c.Suite), layout),
							"suite %04x: a protected %s record from %s (epoch %d seq %d) does not decrypt with the key-log/hook secrets and the RFC formulas", c.Suite, d.Kind, ev.From, d.Epoch, d.Seq)

						return
					}
				}
				switch d.Type {
				case scen.CTAppData:
					seenApp[ev.From] = append(seenApp[ev.From], d.Plain)
				case scen.CTHandshake:
					fr, _ := scen.SplitHandshake(d.Plain)
					for _, f := range fr {
						if f.FragOff == 0 && f.FragLen == f.Length {
							if _, dup := asm[ev.From][f.MsgSeq]; !dup {
								asm[ev.From][f.MsgSeq] = f.Body
								msgs = append(msgs, hsMsg{ev.From, f.Type, f.MsgSeq, f.Body, i})
							}
						} else {
							r.Class("fragmented-handshake")
						}
					}
				}
			}
		}
		for _, dir := range []struct {
			from string
			want [][]byte
		}{{"C", c2s}, {"S", s2c}} {
			if len(seenApp[dir.from]) != len(dir.want) {
				r.Failf("C10|live|application-records", "decoder saw %d application records from %s, %d were written", len(seenApp[dir.from]), dir.from, len(dir.want))

				return
			}
			for i := range dir.want {
				if !bytes.Equal(seenApp[dir.from][i], dir.want[i]) {
					r.Failf("C10|live|application-plaintext", "record %d from %s decrypts to other bytes than were written", i, dir.from)

					return
				}
			}
		}
		// ---- Finished verify_data from the transcript
		if !is13 {
			cr, sr, _, _ := scen.HelloRandoms(p)
			ms := dec.Master
			// the key log of either side alone must key a decoder: CLIENT_RANDOM <client random> <master secret>
			for _, role := range []string{"C", "S"} {
				got, ok := ref.ParseKeyLog(env.KeyLogOf(role).String())[hex.EncodeToString(cr)]
				if !ok || !bytes.Equal(got, ms) {
					r.Failf("C10|live|key-log-unusable|"+role, "suite %04x (resumed=%v): the key log written by %s has no CLIENT_RANDOM line for this connection's client random %x with its master secret (lines: %q)",
						c.Suite, c.Resume, role, cr, env.KeyLogOf(role).String())

					return
				}
			}
			h := ref.HashByName(dec.S12.PRF)
			// transcript: last ClientHello (with cookie), then all messages in (sender, seq) order as they happened
			sort.SliceStable(msgs, func(i, j int) bool { return msgs[i].at < msgs[j].at })
			var transcript []byte
			lastCH := -1
			for i, m := range msgs {
				if m.typ == scen.HTClientHello {
					lastCH = i
				}
			}
			abbreviated := true
			for _, m := range msgs {
				if m.typ == scen.HTServerHelloDone {
					abbreviated = false
				}
			}
			for i, m := range msgs {
				if m.typ == scen.HTHelloVerifyRequest || (m.typ == scen.HTClientHello && i != lastCH) {
					continue
				}
				if m.typ == scen.HTFinished {
					label := "client finished"
					if m.from == "S" {
						label = "server finished"
					}
					want := ref.VerifyData(h, ms, label, transcript)
					if !bytes.Equal(want, m.body) {
						r.Failf("C10|live|finished12|"+label, "suite %04x: %s verify_data on the wire %x != PRF(master, label, Hash(transcript)) %x (abbreviated=%v)", c.Suite, label, m.body, want, abbreviated)

						return
					}
				}
				transcript = append(transcript, full12(m)...)
			}
			// exporter
			for _, st := range []struct {
				name string
				exp  func(string, []byte, int) ([]byte, error)
			}{{"client", stC.ExportKeyingMaterial}, {"server", stS.ExportKeyingMaterial}} {
				got, err := st.exp(c.Label, nil, c.ExpLen)
				want := ref.Exporter12(h, ms, c.Label, cr, sr, c.ExpLen)
				if err != nil || !bytes.Equal(got, want) {
					r.Failf("C10|live|exporter12", "%s: ExportKeyingMaterial(%q,%d) = %x, RFC 5705 gives %x (%v)", st.name, c.Label, c.ExpLen, got, want, err)

					return
				}
			}
		} else {
			su := ref.Suites13[c.Suite]
			h := ref.HashByName(su.Hash)
			// transcript per RFC 9147 5.2: TLS 1.3 framing (type + length); with HelloRetryRequest the first
			// ClientHello is replaced by message_hash
			sort.SliceStable(msgs, func(i, j int) bool { return msgs[i].at < msgs[j].at })
			var th hash.Hash = h()
			sawHRR := false
			var ch1 []byte
			var hsC, hsS []byte // handshake traffic secrets (epoch 2): client write / server write
			for _, g := range gens {
				if g.Epoch == 2 && g.Write {
					// the side whose write secret this is: distinguish by trying both below
					_ = g
				}
			}
			// epoch-2 secrets: two distinct ones; decide which is the client's by decrypting a client record
			var ep2 [][]byte
			for _, g := range gens {
				if g.Epoch == 2 {
					dup := false
					for _, s := range ep2 {
						dup = dup || bytes.Equal(s, g.Secret)
					}
					if !dup {
						ep2 = append(ep2, g.Secret)
					}
				}
			}
			if len(ep2) == 2 {
				for _, ev := range p.Net.Events() {
					if ev.From != "C" {
						continue
					}
					recs, _ := scen.SplitDatagram(ev.Data, cidLen["S"])
					for _, rc := range recs {
						if rc.Kind == "unified" && rc.Epoch == 2 && hsC == nil {
							for i, s := range ep2 {
								if _, _, err := ref.Open13(ref.TrafficKeys13(su, s), rc.Raw, cidLen["S"], 0); err == nil {
									hsC, hsS = ep2[i], ep2[1-i]
								}
							}
						}
					}
				}
			}
			for _, m := range msgs {
				switch {
				case m.typ == scen.HTClientHello && !sawHRR && ch1 == nil:
					ch1 = full13(m)
					th.Write(ch1)
				case m.typ == scen.HTServerHello && len(m.body) >= 34 && bytes.Equal(m.body[2:34], hrrRandom):
					sawHRR = true
					d := h()
					d.Write(ch1)
					sum := d.Sum(nil)
					th = h()
					th.Write(append([]byte{254, 0, 0, byte(len(sum))}, sum...))
					th.Write(full13(m))
				case m.typ == scen.HTFinished:
					base := hsC
					who := "client"
					if m.from == "S" {
						base, who = hsS, "server"
					}
					if base != nil {
						want := ref.VerifyData13(su, base, th.Sum(nil))
						if !bytes.Equal(want, m.body) {
							r.Failf("C10|live|finished13|"+who, "suite %04x: %s Finished on the wire %x != HMAC(finished_key, transcript hash) %x (hrr=%v)", c.Suite, who, m.body, want, sawHRR)

							return
						}
						r.Class("finished13-verified")
					}
					th.Write(full13(m))
				case m.typ == scen.HTNewSessionTicket || m.typ == scen.HTKeyUpdate:
				default:
					th.Write(full13(m))
				}
			}
			// exporter: RFC 8446 7.5 keyed with the exporter master secret (reported by the verif hook)
			a, e1 := stC.ExportKeyingMaterial(c.Label, nil, c.ExpLen)
			b, e2 := stS.ExportKeyingMaterial(c.Label, nil, c.ExpLen)
			if e1 != nil || e2 != nil || !bytes.Equal(a, b) {
				r.Failf("C10|live|exporter13-sides-differ", "exporter values differ between the two sides: %v %v", e1, e2)

				return
			}
			ems := getSecrets()["exporter_master"]
			if len(ems) == 0 {
				r.Failf("C10|harness|no-exporter-master", "the hook reported no exporter master secret")

				return
			}
			for _, em := range ems {
				if !bytes.Equal(em, ems[0]) {
					r.Failf("C10|live|exporter-master-differs", "client and server derived different exporter master secrets")

					return
				}
			}
			if want := ref.Exporter13(su, ems[0], c.Label, nil, c.ExpLen); !bytes.Equal(a, want) {
				r.Failf("C10|live|exporter13", "ExportKeyingMaterial(%q,%d) = %x, RFC 8446 7.5 (dtls13 labels) gives %x", c.Label, c.ExpLen, a, want)

				return
			}
		}
		if os.Getenv("VERIF_DEBUG") != "" {
			fmt.Println(p.Dump())
		}
		if nProt >= 2 {
			r.NonTrivial()
		}
		r.Class(kindOf(c.Suite))
		r.Classf("suite=%04x", c.Suite)
		if cidLen["C"]+cidLen["S"] > 0 {
			r.Class("cid")
		}
	})
	if berr != nil {
		if berr.Deadlock {
			r.Failf("C10|bubble-deadlock", "goroutines left blocked: %v", berr.Value)
		} else {
			r.Failf(pbt.PanicSig("C10", []byte(berr.Stack)), "panic: %v\n%s", berr.Value, berr.Stack)
		}
	}
}

func kindOf(suite uint16) string {
	if s, ok := ref.Suites12[suite]; ok {
		return s.Kind
	}
	if s, ok := ref.Suites13[suite]; ok {
		return "13-" + s.Kind
	}

	return "?"
}

var liveSuites = []uint16{
	0xc0ac, 0xc0ae, 0xc02b, 0xc02c, 0xc00a, 0xcca9, 0xc02f, 0xc030, 0xc014, 0xcca8,
	0xc0a4, 0xc0a8, 0xc0a9, 0x00a8, 0x00ae, 0xccab, 0xc037, 0x1301, 0x1302, 0x1303,
}

func genLive(t *rapid.T) LiveCase {
	c := LiveCase{Suite: rapid.SampledFrom(liveSuites).Draw(t, "suite")}
	switch rapid.IntRange(0, 3).Draw(t, "cidmode") {
	case 1:
		c.CIDC, c.CIDS = rapid.IntRange(1, 8).Draw(t, "cidc"), rapid.IntRange(1, 8).Draw(t, "cids")
	case 2:
		c.CIDC, c.CIDS = rapid.IntRange(1, 8).Draw(t, "cidc"), -1
	case 3:
		c.CIDC, c.CIDS = -1, rapid.IntRange(1, 8).Draw(t, "cids")
	}
	if c.CIDC != 0 && rapid.Bool().Draw(t, "pad") {
		c.Pad = rapid.IntRange(1, 20).Draw(t, "padn")
	}
	c.EMS = rapid.SampledFrom([]int{0, 0, 1, 2}).Draw(t, "ems")
	c.SkipHV = rapid.Bool().Draw(t, "skiphv")
	c.CCert = rapid.IntRange(0, 3).Draw(t, "ccert") == 0
	c.Sizes = rapid.SliceOfN(rapid.SampledFrom([]int{0, 1, 15, 16, 17, 100, 1000}), 1, 3).Draw(t, "sizes")
	c.Label = rapid.SampledFrom([]string{"EXTRACTOR-dtls_srtp", "EXPORTER-verif", "x", strings.Repeat("label", 5)}).Draw(t, "label")
	c.ExpLen = rapid.SampledFrom([]int{1, 16, 32, 60, 100}).Draw(t, "explen")
	if c.Suite>>8 == 0x13 {
		c.Updates = rapid.SampledFrom([]int{0, 1, 2, 3}).Draw(t, "updates")
	} else {
		c.Resume = rapid.IntRange(0, 3).Draw(t, "resume") == 0
	}

	return c
}

func enumLive(_ string, yield func(LiveCase) bool) {
	for _, su := range liveSuites {
		for _, cid := range []int{0, 4} {
			for _, skip := range []bool{false, true} {
				lc := LiveCase{Suite: su, CIDC: cid, CIDS: cid, Pad: cid / 2, SkipHV: skip, Sizes: []int{5, 0, 300}, Label: "EXTRACTOR-dtls_srtp", ExpLen: 60}
				if su>>8 == 0x13 && skip {
					lc.Updates = 3
				}
				if !yield(lc) {
					return
				}
			}
		}
	}
}

func init() {
	rule := "live session (20 suites x CID layout x padding x EMS x hello-verify x client certificate x payload sizes): a passive decoder keyed from the key log (1.2) or the hook secrets (1.3) " +
		"and built only from the RFC formulas must split every datagram, decrypt every protected record of both directions, recover the written payloads, reproduce both Finished verify_data " +
		"values from the reassembled transcript, and RFC 5705 must reproduce ExportKeyingMaterial (1.2). non-trivial = >=2 protected records decoded; distinct = whole case"
	pbt.Register(pbt.Prop[LiveCase]{Name: "live-decoder", Quick: 1500, Thorough: 40000, Gen: genLive, Run: runLive, Crashy: true, Rule: "SAMPLED: " + rule})
	pbt.Register(pbt.Prop[LiveCase]{Name: "live-decoder-grid", Enum: enumLive, Exhaustive: true, Run: runLive, Crashy: true,
		Rule: "GRID (20 suites x {no CID, CID 4 + padding} x hello-verify on/off): " + rule})
}
