package c10

import (
	"bytes"
	"encoding/binary"
	"fmt"
	"sort"
	"time"

	"github.com/pion/dtls/v3/internal/zzverif/lib/pbt"
	"github.com/pion/dtls/v3/internal/zzverif/lib/ref"
	"github.com/pion/dtls/v3/internal/zzverif/lib/scen"
	"github.com/pion/dtls/v3/internal/zzverif/lib/vnet"
	"pgregory.net/rapid"
)

// RelayoutCase: the "vice versa" half of the property for the DTLS 1.3 record header. RFC 9147 4 lets a
// sender choose an 8- or 16-bit sequence number and omit the length of the last record of a datagram;
// this library always writes S=1, L=1, so its own traffic never shows how it reads the other layouts.
// Here a translator on the path (it holds the hook secrets) re-protects every application record of one
// direction under the same keys and record number with the chosen layout - exactly what a conforming
// peer with that preference would have sent - while some records are lost or overtaken.
type RelayoutCase struct {
	Suite uint16 `json:"suite"`
	CID   int    `json:"cid,omitempty"`
	From  string `json:"from"` // direction that is translated: "C" or "S"
	SBit  bool   `json:"s"`
	LBit  bool   `json:"l"`
	N     int    `json:"n"`
	Drop  []int  `json:"drop,omitempty"` // ordinals (0-based, among the N application records) that are lost
	Late  []int  `json:"late,omitempty"` // ordinals delivered after their successor
}

func runRelayout(c RelayoutCase, r *pbt.R) {
	var gens []scen.Gen13
	stop := scen.CaptureGens13(&gens)
	defer stop()
	berr := pbt.Bubble(func() {
		cEP := scen.EP{RootCA: 1, ServerName: scen.ServerName, Suites: []uint16{c.Suite}, MinVer: 13, MaxVer: 13, Curves: []uint16{0x1d}, CID: c.CID}
		sEP := scen.EP{Cert: "ecdsa", Suites: []uint16{c.Suite}, MinVer: 13, MaxVer: 13, Curves: []uint16{0x1d}, CID: c.CID}
		env := scen.NewEnv()
		p := scen.NewPair(env, &cEP, &sEP)
		defer p.Close()
		p.Handshake(10 * time.Minute)
		if !(p.C.OK() && p.S.OK()) {
			r.Failf("C10|harness|handshake", "setup failed (suite %04x): %v %v", c.Suite, p.C.Err(), p.S.Err())

			return
		}
		p.C.StartReader()
		p.S.StartReader()
		time.Sleep(3 * time.Second)
		scen.Settle()
		dec := scen.Decoder13(p, gens)
		if dec == nil {
			r.Failf("C10|live|no-decoder", "no decoder")

			return
		}
		// bring the decoder's per-sender record counters up to date
		for _, ev := range p.Net.Events() {
			if ev.From == "C" || ev.From == "S" {
				dec.Decode(ev.From, ev.Data, c.CID)
			}
		}
		drop, late := map[int]bool{}, map[int]bool{}
		for _, d := range c.Drop {
			drop[d] = true
		}
		for _, d := range c.Late {
			late[d] = true
		}
		ord := 0
		var stash [][]byte
		var delivered [][]byte
		var crossed, harnessErr int
		var lastSeq uint64
		p.Net.Mangle = func(ev *vnet.Event) [][]byte {
			if ev.From != c.From {
				return nil
			}
			ds, ok := dec.Decode(ev.From, ev.Data, c.CID)
			if !ok || len(ds) != 1 || !ds[0].OK || ds[0].Kind != "unified" || ds[0].Type != scen.CTAppData {
				return nil
			}
			me := ord
			ord++
			if drop[me] {
				return [][]byte{}
			}
			rec, err := dec.Reseal13(ds[0], c.SBit, c.LBit)
			if err != nil {
				harnessErr++

				return nil
			}
			if lastSeq>>8 != ds[0].Seq>>8 && lastSeq != 0 {
				crossed++
			}
			lastSeq = ds[0].Seq
			delivered = append(delivered, ds[0].Plain)
			if late[me] {
				stash = append(stash, rec)

				return [][]byte{}
			}
			out := append([][]byte{rec}, stash...)
			stash = nil

			return out
		}
		snd, rcv := p.C, p.S
		if c.From == "S" {
			snd, rcv = p.S, p.C
		}
		base := len(rcv.ReadLog())
		var wrote [][]byte
		for i := 0; i < c.N; i++ {
			pl := make([]byte, 12)
			copy(pl, "relayout")
			binary.BigEndian.PutUint32(pl[8:], uint32(i)) //nolint:gosec
			if _, err := snd.Conn.Write(pl); err != nil {
				r.Failf("C10|harness|write", "write %d: %v", i, err)

				return
			}
			wrote = append(wrote, pl)
		}
		scen.Settle()
		p.Net.Mangle = nil
		for _, rec := range stash {
			p.Net.Inject(c.From, rcv.Name, rec)
		}
		time.Sleep(time.Second)
		scen.Settle()
		if harnessErr > 0 || ord != c.N {
			r.Failf("C10|harness|relayout", "translator handled %d of %d application records (%d errors)", ord, c.N, harnessErr)

			return
		}
		got := rcv.ReadLog()[base:]
		key := func(l [][]byte) []string {
			var o []string
			for _, b := range l {
				o = append(o, string(b))
			}
			sort.Strings(o)

			return o
		}
		g, w := key(got), key(delivered)
		layout := fmt.Sprintf("S=%v,L=%v", c.SBit, c.LBit)
		if len(g) != len(w) {
			missing := ""
			seen := map[string]bool{}
			for _, x := range g {
				seen[x] = true
			}
			for _, x := range delivered {
				if !seen[string(x)] {
					missing = fmt.Sprintf("first missing: payload #%d", binary.BigEndian.Uint32(x[8:]))

					break
				}
			}
			r.Failf("C10|relayout|conforming-record-not-accepted|"+layout,
				"%s wrote %d payloads; %d records reached %s re-protected with the header layout %s (same keys, same record numbers), %d were read. %s",
				c.From, len(wrote), len(w), rcv.Name, layout, len(g), missing)

			return
		}
		for i := range g {
			if g[i] != w[i] {
				r.Failf("C10|relayout|other-plaintext|"+layout, "read payloads differ from the delivered ones")

				return
			}
		}
		for _, x := range got {
			if !bytes.HasPrefix(x, []byte("relayout")) {
				r.Failf("C10|relayout|foreign-payload", "read %x", x)

				return
			}
		}
		r.Class(layout)
		if crossed > 0 {
			r.Class("crossed-256-boundary")
		}
		if len(c.Drop) > 0 {
			r.Class("loss")
		}
		if len(c.Late) > 0 {
			r.Class("reordering")
		}
		r.Eval(fmt.Sprintf("%+v", c), !(c.SBit && c.LBit) && c.N >= 2, scen.SuiteName(c.Suite))
	})
	if berr != nil {
		if berr.Deadlock {
			r.Failf("C10|goroutine-left-blocked", "goroutines left durably blocked at teardown: %v", berr.Value)
		} else {
			r.Failf(pbt.PanicSig("C10", []byte(berr.Stack)), "panic: %v\n%s", berr.Value, berr.Stack)
		}
	}
}

func genRelayout(t *rapid.T) RelayoutCase {
	c := RelayoutCase{
		Suite: rapid.SampledFrom([]uint16{0x1301, 0x1302, 0x1303}).Draw(t, "suite"),
		From:  rapid.SampledFrom([]string{"C", "S"}).Draw(t, "from"),
		SBit:  rapid.IntRange(0, 3).Draw(t, "s") == 0,
		LBit:  rapid.Bool().Draw(t, "l"),
		N:     rapid.SampledFrom([]int{3, 40, 300, 300, 600}).Draw(t, "n"),
	}
	if rapid.IntRange(0, 2).Draw(t, "cid") == 0 {
		c.CID = rapid.IntRange(1, 8).Draw(t, "cidlen")
	}
	pick := func(label string) []int {
		var out []int
		n := rapid.IntRange(0, 4).Draw(t, label+"n")
		for i := 0; i < n; i++ {
			var v int
			switch rapid.IntRange(0, 2).Draw(t, label+"where") {
			case 0: // around the first wrap of an 8-bit sequence number
				v = rapid.IntRange(240, 262).Draw(t, label+"v")
			case 1:
				v = rapid.IntRange(496, 520).Draw(t, label+"v")
			default:
				v = rapid.IntRange(0, max(c.N-1, 0)).Draw(t, label+"v")
			}
			if v < c.N-1 {
				out = append(out, v)
			}
		}

		return out
	}
	c.Drop = pick("drop")
	c.Late = pick("late")

	return c
}

func init() {
	_ = ref.ErrFormat
	pbt.Register(pbt.Prop[RelayoutCase]{
		Name: "foreign-header-layout", Quick: 300, Thorough: 8000, Gen: genRelayout, Run: runRelayout, Crashy: true,
		Rule: "DTLS 1.3 session (3 suites x CID); a translator holding the hook secrets re-protects every application record of one direction with the same keys and record number " +
			"but another legal unified-header layout (8-bit sequence number and/or no length field: what a conforming peer may send, RFC 9147 4), 3..600 records, with losses and " +
			"overtaking placed around the wraps of the 8-bit number; oracle: the receiver reads exactly the payloads whose record arrived. " +
			"non-trivial = layout differs from the library's own (S=1,L=1) and >=2 records; distinct = whole case",
	})
}
