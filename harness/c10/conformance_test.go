package c10

import (
	"bytes"
	"crypto/aes"
	"crypto/ecdh"
	"crypto/sha256"
	"crypto/sha512"
	"encoding/hex"
	"fmt"
	"hash"
	"testing"

	"github.com/pion/dtls/v3/internal/ciphersuite"
	"github.com/pion/dtls/v3/internal/zzverif/lib/pbt"
	"github.com/pion/dtls/v3/internal/zzverif/lib/ref"
	"github.com/pion/dtls/v3/pkg/crypto/ccm"
	"github.com/pion/dtls/v3/pkg/crypto/elliptic"
	"github.com/pion/dtls/v3/pkg/crypto/keyschedule"
	"github.com/pion/dtls/v3/pkg/crypto/prf"
	"github.com/pion/dtls/v3/pkg/protocol"
	"github.com/pion/dtls/v3/pkg/protocol/recordlayer"
	"pgregory.net/rapid"
)

// ecdhScalar derives a valid private scalar for the curve from the case's seed.
func ecdhScalar(c ecdh.Curve, seed []byte, salt byte) []byte {
	n := 32
	if c == ecdh.P384() {
		n = 48
	}
	h := sha512.Sum512(append([]byte{salt}, seed...))
	out := append([]byte(nil), h[:n]...)
	out[0] &= 0x3f // below the group order for the NIST curves
	out[n-1] |= 1

	return out
}

func TestMain(m *testing.M) { pbt.Main(m, "C10") }

func TestProps(t *testing.T) { pbt.RunAll(t) }

func TestReplay(t *testing.T) { pbt.Replay(t) }

func hx(b []byte) string { return hex.EncodeToString(b) }

func unhex(s string) []byte { b, _ := hex.DecodeString(s); return b }

func hashOf(name string) func() hash.Hash {
	if name == "sha384" {
		return sha512.New384
	}

	return sha256.New
}

// ---- PRF family ---------------------------------------------------------------------------

// PRFCase exercises the TLS 1.2 key derivation functions.
type PRFCase struct {
	Hash   string `json:"hash"`
	Secret string `json:"secret"`
	Seed   string `json:"seed"`
	CR     string `json:"cr"`
	SR     string `json:"sr"`
	N      int    `json:"n"`
	Mac    int    `json:"mac"`
	Key    int    `json:"key"`
	IV     int    `json:"iv"`
}

func genBytes(t *rapid.T, label string, minN, maxN int) string {
	n := rapid.IntRange(minN, maxN).Draw(t, label+"len")
	switch rapid.IntRange(0, 5).Draw(t, label+"kind") {
	case 0:
		return hx(make([]byte, n))
	case 1:
		return hx(bytes.Repeat([]byte{0xff}, n))
	default:
		return hx(rapid.SliceOfN(rapid.Byte(), n, n).Draw(t, label))
	}
}

func genPRF(t *rapid.T) PRFCase {
	return PRFCase{
		Hash: rapid.SampledFrom([]string{"sha256", "sha384"}).Draw(t, "hash"), Secret: genBytes(t, "secret", 0, 80), Seed: genBytes(t, "seed", 0, 200),
		CR: genBytes(t, "cr", 32, 32), SR: genBytes(t, "sr", 32, 32), N: rapid.SampledFrom([]int{0, 1, 12, 31, 32, 33, 47, 48, 49, 64, 100, 255, 1000}).Draw(t, "n"),
		Mac: rapid.SampledFrom([]int{0, 20, 32}).Draw(t, "mac"), Key: rapid.SampledFrom([]int{16, 32}).Draw(t, "key"), IV: rapid.SampledFrom([]int{4, 12, 16}).Draw(t, "iv"),
	}
}

func runPRF(c PRFCase, r *pbt.R) {
	h := hashOf(c.Hash)
	secret, seed, cr, sr := unhex(c.Secret), unhex(c.Seed), unhex(c.CR), unhex(c.SR)
	got, err := prf.PHash(secret, seed, c.N, h)
	if err != nil || !bytes.Equal(got, ref.PHash(h, secret, seed, c.N)) {
		r.Failf("C10|prf|PHash", "PHash(%s) differs from RFC 5246 P_hash: got %x (%v)", c.Hash, got, err)

		return
	}
	ms, err := prf.MasterSecret(secret, cr, sr, h)
	if err != nil || !bytes.Equal(ms, ref.MasterSecret(h, secret, cr, sr)) {
		r.Failf("C10|prf|MasterSecret", "MasterSecret differs from RFC 5246 8.1 (%v)", err)

		return
	}
	ems, err := prf.ExtendedMasterSecret(secret, seed, h)
	if err != nil || !bytes.Equal(ems, ref.ExtendedMasterSecret(h, secret, seed)) {
		r.Failf("C10|prf|ExtendedMasterSecret", "ExtendedMasterSecret differs from RFC 7627 (%v)", err)

		return
	}
	keys, err := prf.GenerateEncryptionKeys(ms, cr, sr, c.Mac, c.Key, c.IV, h)
	if err != nil {
		r.Failf("C10|prf|GenerateEncryptionKeys", "error %v", err)

		return
	}
	kb := ref.KeyBlock(h, ms, cr, sr, c.Mac, c.Key, c.IV)
	if !bytes.Equal(keys.ClientMACKey, kb.ClientMAC) || !bytes.Equal(keys.ServerMACKey, kb.ServerMAC) || !bytes.Equal(keys.ClientWriteKey, kb.ClientKey) ||
		!bytes.Equal(keys.ServerWriteKey, kb.ServerKey) || !bytes.Equal(keys.ClientWriteIV, kb.ClientIV) || !bytes.Equal(keys.ServerWriteIV, kb.ServerIV) {
		r.Failf("C10|prf|key-block-partition", "key block partition differs from RFC 5246 6.3 (mac=%d key=%d iv=%d)", c.Mac, c.Key, c.IV)

		return
	}
	vc, err1 := prf.VerifyDataClient(ms, seed, h)
	vs, err2 := prf.VerifyDataServer(ms, seed, h)
	if err1 != nil || err2 != nil || !bytes.Equal(vc, ref.VerifyData(h, ms, "client finished", seed)) || !bytes.Equal(vs, ref.VerifyData(h, ms, "server finished", seed)) {
		r.Failf("C10|prf|verify_data", "Finished verify_data differs from RFC 5246 7.4.9")

		return
	}
	if !bytes.Equal(prf.PSKPreMasterSecret(secret), ref.PSKPreMaster(secret)) {
		r.Failf("C10|prf|psk-premaster", "PSK premaster secret differs from RFC 4279 section 2")

		return
	}
	// RFC 5489 section 2: premaster = len(Z) || Z || len(psk) || psk with Z from an independent ECDH
	for _, cv := range []struct {
		id elliptic.Curve
		c  ecdh.Curve
	}{{elliptic.X25519, ecdh.X25519()}, {elliptic.P256, ecdh.P256()}, {elliptic.P384, ecdh.P384()}}[len(seed)%3:][:1] {
		a, errA := cv.c.NewPrivateKey(ecdhScalar(cv.c, seed, 1))
		b, errB := cv.c.NewPrivateKey(ecdhScalar(cv.c, seed, 2))
		if errA != nil || errB != nil {
			continue
		}
		z, err := a.ECDH(b.PublicKey())
		if err != nil {
			continue
		}
		got, err := prf.EcdhePSKPreMasterSecret(secret, b.PublicKey().Bytes(), a.Bytes(), cv.id)
		if err != nil {
			r.Failf("C10|prf|ecdhe-psk-premaster", "EcdhePSKPreMasterSecret(%v): %v", cv.id, err)

			return
		}
		if !bytes.Equal(got, ref.ECDHEPSKPreMaster(secret, z)) {
			r.Failf("C10|prf|ecdhe-psk-premaster", "ECDHE_PSK premaster secret differs from RFC 5489 section 2 (curve %v, psk %d bytes)", cv.id, len(secret))

			return
		}
	}
	r.NonTrivial()
	r.Key(fmt.Sprintf("%s|%d|%d|%d|%d|%d|%d", c.Hash, len(secret), len(seed), c.N, c.Mac, c.Key, c.IV))
	r.Class(c.Hash)
}

// ---- HKDF / DTLS 1.3 labels ----------------------------------------------------------------

// HKDFCase exercises the DTLS 1.3 key schedule primitives.
type HKDFCase struct {
	Hash    string `json:"hash"`
	Secret  string `json:"secret"`
	Salt    string `json:"salt"`
	Label   string `json:"label"`
	Context string `json:"context"`
	N       int    `json:"n"`
}

func genHKDF(t *rapid.T) HKDFCase {
	return HKDFCase{
		Hash: rapid.SampledFrom([]string{"sha256", "sha384"}).Draw(t, "hash"), Secret: genBytes(t, "secret", 1, 64), Salt: genBytes(t, "salt", 0, 64),
		Label:   rapid.SampledFrom([]string{"key", "iv", "sn", "finished", "traffic upd", "derived", "c hs traffic", "s ap traffic", "exp master", "exporter", "res master", "x"}).Draw(t, "label"),
		Context: genBytes(t, "ctx", 0, 64), N: rapid.SampledFrom([]int{1, 12, 16, 32, 48, 64, 255}).Draw(t, "n"),
	}
}

func runHKDF(c HKDFCase, r *pbt.R) {
	h := hashOf(c.Hash)
	secret, salt, ctx := unhex(c.Secret), unhex(c.Salt), unhex(c.Context)
	got, err := keyschedule.HkdfExpandLabel(h, secret, c.Label, ctx, c.N)
	want := ref.ExpandLabel13(h, secret, c.Label, ctx, c.N)
	if err != nil || !bytes.Equal(got, want) {
		r.Failf("C10|hkdf|expand-label", "HkdfExpandLabel(%q) differs from RFC 8446 7.1 with the dtls13 prefix (RFC 9147 5.9): got %x want %x (%v)", c.Label, got, want, err)

		return
	}
	ex, err := keyschedule.HkdfExtract(h, salt, secret)
	var s []byte
	if len(salt) > 0 {
		s = salt
	}
	if err != nil || !bytes.Equal(ex, ref.HKDFExtract(h, s, secret)) {
		r.Failf("C10|hkdf|extract", "HkdfExtract differs from RFC 5869 (%v)", err)

		return
	}
	th := h()
	th.Write(ctx)
	ds, err := keyschedule.DeriveSecret(h, secret, c.Label, th)
	sum := h()
	sum.Write(ctx)
	if err != nil || !bytes.Equal(ds, ref.DeriveSecret13(h, secret, c.Label, sum.Sum(nil))) {
		r.Failf("C10|hkdf|derive-secret", "DeriveSecret(%q) differs from RFC 8446 7.1 (%v)", c.Label, err)

		return
	}
	r.NonTrivial()
	r.Key(fmt.Sprintf("%s|%s|%d|%d|%d", c.Hash, c.Label, len(secret), len(ctx), c.N))
}

// ---- DTLS 1.2 record protection -----------------------------------------------------------

// Rec12Case: one record protected by the library and by the reference.
type Rec12Case struct {
	Suite   uint16 `json:"suite"`
	Master  string `json:"master"`
	CR      string `json:"cr"`
	SR      string `json:"sr"`
	Client  bool   `json:"client"` // the library encrypts as the client
	Type    int    `json:"type"`
	Epoch   int    `json:"epoch"`
	Seq     uint64 `json:"seq"`
	CID     string `json:"cid,omitempty"` // non-empty: tls12_cid record
	Pad     int    `json:"pad,omitempty"`
	Payload string `json:"payload"`
	IV      string `json:"iv"`
}

var suites12 = []uint16{0xc02b, 0xc02f, 0xc02c, 0xc030, 0x00a8, 0xc0ac, 0xc0ae, 0xc0a4, 0xc0a8, 0xc0a9, 0xcca9, 0xcca8, 0xccab, 0xc00a, 0xc014, 0x00ae, 0xc037}

func genRec12(t *rapid.T) Rec12Case {
	c := Rec12Case{
		Suite: rapid.SampledFrom(suites12).Draw(t, "suite"), Master: genBytes(t, "master", 48, 48), CR: genBytes(t, "cr", 32, 32), SR: genBytes(t, "sr", 32, 32),
		Client: rapid.Bool().Draw(t, "client"), Type: rapid.SampledFrom([]int{21, 22, 23, 23, 23}).Draw(t, "type"),
		Epoch: rapid.SampledFrom([]int{1, 1, 1, 2, 255, 256, 65535}).Draw(t, "epoch"),
		Seq:   rapid.SampledFrom([]uint64{0, 1, 2, 255, 256, 65535, 65536, 1<<32 - 1, 1 << 32, 1<<48 - 1}).Draw(t, "seq"),
		IV:    genBytes(t, "iv", 16, 16),
	}
	if rapid.IntRange(0, 2).Draw(t, "cid") == 0 {
		c.CID = genBytes(t, "cidv", 1, 20)
		c.Pad = rapid.SampledFrom([]int{0, 0, 1, 7, 40}).Draw(t, "pad")
	}
	n := rapid.SampledFrom([]int{0, 1, 15, 16, 17, 31, 32, 33, 100, 1000, 4000}).Draw(t, "plen")
	c.Payload = hx(rapid.SliceOfN(rapid.Byte(), n, n).Draw(t, "payload"))

	return c
}

func runRec12(c Rec12Case, r *pbt.R) {
	su, ok := ref.Suites12[c.Suite]
	if !ok {
		return
	}
	master, cr, sr := unhex(c.Master), unhex(c.CR), unhex(c.SR)
	payload, cid := unhex(c.Payload), unhex(c.CID)
	libEnc := ciphersuite.ForID(ciphersuite.ID(c.Suite), nil)
	libDec := ciphersuite.ForID(ciphersuite.ID(c.Suite), nil)
	if libEnc == nil || libDec == nil {
		r.Failf("C10|harness|suite", "suite %04x unknown to the library", c.Suite)

		return
	}
	if err := libEnc.Init(master, cr, sr, c.Client); err != nil {
		r.Failf("C10|rec12|init", "Init: %v", err)

		return
	}
	if err := libDec.Init(master, cr, sr, !c.Client); err != nil {
		r.Failf("C10|rec12|init", "Init: %v", err)

		return
	}
	cw, sw := ref.DirectionKeys(su, master, cr, sr)
	k := sw
	if c.Client {
		k = cw
	}
	// plaintext as the record layer hands it to the cipher: content, or content||type||zeros for tls12_cid
	plain := payload
	h := ref.Hdr12{Type: byte(c.Type), Version: [2]byte{0xfe, 0xfd}, Epoch: uint16(c.Epoch), Seq: c.Seq}                                                 //nolint:gosec
	libHdr := recordlayer.Header{ContentType: protocol.ContentType(c.Type), Version: protocol.Version1_2, Epoch: uint16(c.Epoch), SequenceNumber: c.Seq} //nolint:gosec
	if len(cid) > 0 {
		plain = append(append(append([]byte(nil), payload...), byte(c.Type)), make([]byte, c.Pad)...)
		h.Type, h.CID = 25, cid
		libHdr.ContentType, libHdr.ConnectionID = protocol.ContentTypeConnectionID, cid
	}
	libHdr.ContentLen = uint16(len(plain)) //nolint:gosec
	rawHdr, err := libHdr.Marshal()
	if err != nil {
		r.Failf("C10|harness|header", "%v", err)

		return
	}
	raw := append(rawHdr, plain...)
	layout := su.Kind
	if len(cid) > 0 {
		layout += "+cid"
	}
	enc, err := libEnc.Encrypt(&recordlayer.RecordLayer{Header: libHdr}, raw)
	if err != nil {
		r.Failf("C10|rec12|"+layout+"|encrypt-error", "library Encrypt: %v", err)

		return
	}
	refRec, err := ref.Seal12(k, h, plain, unhex(c.IV))
	if err != nil {
		r.Failf("C10|harness|ref-seal", "%v", err)

		return
	}
	hdrLen := len(rawHdr)
	if su.Kind != "cbc" {
		// deterministic construction: byte-identical records
		if !bytes.Equal(enc, refRec) {
			r.Failf("C10|rec12|"+layout+"|record-differs", "suite %04x epoch %d seq %d: library record %x != RFC record %x", c.Suite, c.Epoch, c.Seq, enc[:min(len(enc), 80)], refRec[:min(len(refRec), 80)])

			return
		}
	} else {
		// random explicit IV: cross-decrypt both ways
		pt, err := ref.Open12(k, h, enc[hdrLen:])
		if err != nil || !bytes.Equal(pt, plain) {
			r.Failf("C10|rec12|"+layout+"|reference-cannot-open-library-record", "suite %04x: a standards-conforming peer cannot process the library's record: %v", c.Suite, err)

			return
		}
	}
	// reference record -> library decrypt
	decHdr := recordlayer.Header{}
	if len(cid) > 0 {
		decHdr.ConnectionID = make([]byte, len(cid))
	}
	out, err := libDec.Decrypt(decHdr, append([]byte(nil), refRec...))
	if err != nil {
		r.Failf("C10|rec12|"+layout+"|library-cannot-open-reference-record", "suite %04x: the library rejects a record built from the RFC formulas: %v", c.Suite, err)

		return
	}
	if len(out) < hdrLen || !bytes.Equal(out[hdrLen:], plain) {
		r.Failf("C10|rec12|"+layout+"|library-decrypts-wrong-plaintext", "suite %04x: plaintext differs after decrypting the reference record", c.Suite)

		return
	}
	r.NonTrivial()
	r.Key(fmt.Sprintf("%04x|%v|%d|%d|%d|%d|%d|%d", c.Suite, c.Client, c.Type, c.Epoch, c.Seq, len(cid), c.Pad, len(payload)))
	r.Class(layout)
	r.Classf("suite=%04x", c.Suite)
}

// ---- CCM primitive ---------------------------------------------------------------------------

// CCMCase compares the library's CCM with the independent one.
type CCMCase struct {
	Key   string `json:"key"`
	Nonce string `json:"nonce"`
	AAD   string `json:"aad"`
	PT    string `json:"pt"`
	Tag   int    `json:"tag"`
}

func genCCM(t *rapid.T) CCMCase {
	return CCMCase{
		Key: genBytes(t, "key", 16, 16), Nonce: genBytes(t, "nonce", 12, 12), AAD: genBytes(t, "aad", 0, 70), PT: genBytes(t, "pt", 0, 300),
		Tag: rapid.SampledFrom([]int{8, 16}).Draw(t, "tag"),
	}
}

func runCCM(c CCMCase, r *pbt.R) {
	key, nonce, aad, pt := unhex(c.Key), unhex(c.Nonce), unhex(c.AAD), unhex(c.PT)
	b, err := aes.NewCipher(key)
	if err != nil {
		return
	}
	lib, err := ccm.NewCCM(b, c.Tag, 12)
	if err != nil {
		r.Failf("C10|ccm|new", "%v", err)

		return
	}
	rf, _ := ref.NewCCM(key, c.Tag)
	got := lib.Seal(nil, nonce, pt, aad)
	want := rf.Seal(nonce, pt, aad)
	if !bytes.Equal(got, want) {
		r.Failf("C10|ccm|seal", "CCM seal differs from RFC 3610 (tag %d, pt %d, aad %d)", c.Tag, len(pt), len(aad))

		return
	}
	back, err := lib.Open(nil, nonce, want, aad)
	if err != nil || !bytes.Equal(back, pt) {
		r.Failf("C10|ccm|open", "library CCM cannot open the reference ciphertext: %v", err)

		return
	}
	r.NonTrivial()
	r.Key(fmt.Sprintf("%d|%d|%d", c.Tag, len(pt), len(aad)))
}

// ---- DTLS 1.3 record protection ------------------------------------------------------------

// Rec13Case: one DTLS 1.3 record.
type Rec13Case struct {
	Suite   uint16 `json:"suite"`
	Secret  string `json:"secret"`
	Epoch   int    `json:"epoch"`
	Seq     uint64 `json:"seq"`
	Type    int    `json:"type"`
	SBit    bool   `json:"s"`
	CID     string `json:"cid,omitempty"`
	Payload string `json:"payload"`
}

func genRec13(t *rapid.T) Rec13Case {
	c := Rec13Case{Suite: rapid.SampledFrom([]uint16{0x1301, 0x1302, 0x1303}).Draw(t, "suite")}
	n := 32
	if c.Suite == 0x1302 {
		n = 48
	}
	c.Secret = genBytes(t, "secret", n, n)
	c.Epoch = rapid.SampledFrom([]int{2, 3, 3, 4, 7, 65535}).Draw(t, "epoch")
	c.Seq = rapid.SampledFrom([]uint64{0, 1, 255, 256, 65535, 65536, 1 << 40, 1<<48 - 1}).Draw(t, "seq")
	c.Type = rapid.SampledFrom([]int{21, 22, 23, 26}).Draw(t, "type")
	c.SBit = rapid.Bool().Draw(t, "sbit")
	if rapid.IntRange(0, 2).Draw(t, "cid") == 0 {
		c.CID = genBytes(t, "cidv", 1, 20)
	}
	pn := rapid.SampledFrom([]int{15, 16, 17, 100, 1000}).Draw(t, "plen")
	c.Payload = hx(rapid.SliceOfN(rapid.Byte(), pn, pn).Draw(t, "payload"))

	return c
}

type rp13 interface {
	NewRecordProtection(trafficSecret []byte) (ciphersuite.RecordProtection13, error)
}

func runRec13(c Rec13Case, r *pbt.R) {
	su := ref.Suites13[c.Suite]
	secret, cid, payload := unhex(c.Secret), unhex(c.CID), unhex(c.Payload)
	cs, ok := ciphersuite.ForID(ciphersuite.ID(c.Suite), nil).(rp13)
	if !ok {
		r.Failf("C10|harness|suite13", "suite %04x has no NewRecordProtection", c.Suite)

		return
	}
	prot, err := cs.NewRecordProtection(secret)
	if err != nil {
		r.Failf("C10|rec13|new", "%v", err)

		return
	}
	keys := ref.TrafficKeys13(su, secret)
	hdr := recordlayer.UnifiedHeader{EpochLow: uint8(c.Epoch & 3), SeqBit: c.SBit, LengthBit: true, ConnectionID: cid} //nolint:gosec
	rec, err := prot.Seal(hdr, c.Seq, protocol.ContentType(c.Type), payload)
	if err != nil {
		r.Failf("C10|rec13|seal-error", "library Seal: %v", err)

		return
	}
	lib, err := rec.Marshal()
	if err != nil {
		r.Failf("C10|rec13|marshal", "%v", err)

		return
	}
	inner := append(append([]byte(nil), payload...), byte(c.Type))
	// the sender chooses the header form: this library always writes the 16-bit sequence number and the length
	wantLib, err := ref.Seal13(keys, uint16(c.Epoch), c.Seq, cid, true, true, inner) //nolint:gosec
	if err != nil {
		r.Failf("C10|harness|ref-seal13", "%v", err)

		return
	}
	// the receiver must process either form
	want, err := ref.Seal13(keys, uint16(c.Epoch), c.Seq, cid, c.SBit, true, inner) //nolint:gosec
	if err != nil {
		r.Failf("C10|harness|ref-seal13", "%v", err)

		return
	}
	if !bytes.Equal(lib, wantLib) {
		r.Failf("C10|rec13|record-differs", "suite %04x epoch %d seq %d S=%v cid=%d: library record %x != RFC 9147 record %x", c.Suite, c.Epoch, c.Seq, c.SBit, len(cid), lib[:min(len(lib), 64)], want[:min(len(want), 64)])

		return
	}
	// reference -> library: unmask and open
	var parsed recordlayer.CiphertextRecord13
	parsed.Header.ConnectionID = make([]byte, len(cid))
	if err := parsed.Unmarshal(want); err != nil {
		r.Failf("C10|rec13|library-cannot-parse-reference-record", "%v", err)

		return
	}
	clear, err := prot.UnmaskSequenceNumber(parsed.Header, parsed.EncryptedRecord)
	if err != nil {
		r.Failf("C10|rec13|unmask", "%v", err)

		return
	}
	mask := uint64(0xff)
	if c.SBit {
		mask = 0xffff
	}
	if uint64(clear.SequenceNumber)&mask != c.Seq&mask {
		r.Failf("C10|rec13|sequence-number-mask", "unmasked low bits %x, want %x", clear.SequenceNumber, c.Seq&mask)

		return
	}
	ip, err := prot.Open(parsed.Header, c.Seq, parsed.EncryptedRecord)
	if err != nil || !bytes.Equal(ip.Content, payload) || int(ip.RealType) != c.Type {
		r.Failf("C10|rec13|library-cannot-open-reference-record", "open: %v", err)

		return
	}
	r.NonTrivial()
	r.Key(fmt.Sprintf("%04x|%d|%d|%d|%v|%d|%d", c.Suite, c.Epoch, c.Seq, c.Type, c.SBit, len(cid), len(payload)))
	r.Classf("suite=%04x", c.Suite)
}

func init() {
	pbt.Register(pbt.Prop[PRFCase]{Name: "prf12", Quick: 20000, Thorough: 600000, Gen: genPRF, Run: runPRF,
		Rule: "random secrets/seeds/randoms/lengths into prf.PHash, MasterSecret, ExtendedMasterSecret, GenerateEncryptionKeys, VerifyDataClient/Server, PSKPreMasterSecret; " +
			"differential against an independent RFC 5246/7627/4279 implementation; distinct = (hash, lengths)"})
	pbt.Register(pbt.Prop[HKDFCase]{Name: "hkdf13", Quick: 20000, Thorough: 600000, Gen: genHKDF, Run: runHKDF,
		Rule: "keyschedule.HkdfExtract / HkdfExpandLabel / DeriveSecret against an independent RFC 5869 / RFC 8446 7.1 implementation with the dtls13 label prefix; distinct = (hash, label, lengths)"})
	pbt.Register(pbt.Prop[Rec12Case]{Name: "record12", Quick: 30000, Thorough: 1000000, Gen: genRec12, Run: runRec12,
		Rule: "every DTLS 1.2 suite: Init + Encrypt of a generated record (type, epoch, 48-bit sequence numbers incl. boundaries, payload 0..4000, optional tls12_cid with CID 1..20 bytes and padding) " +
			"must equal the record built from the RFC formulas byte for byte (AEAD: RFC 5288/6655/7905 nonce and AAD, RFC 9146 AAD), CBC records cross-decrypt both ways (RFC 5246 6.2.3.2, RFC 9146 5.1 MAC); " +
			"distinct = (suite, direction, type, epoch, seq, cid length, padding, payload length)"})
	pbt.Register(pbt.Prop[CCMCase]{Name: "ccm", Quick: 20000, Thorough: 500000, Gen: genCCM, Run: runCCM,
		Rule: "pkg/crypto/ccm Seal/Open against an independent RFC 3610 implementation (12-byte nonce, tags 8/16); distinct = (tag, lengths)"})
	pbt.Register(pbt.Prop[Rec13Case]{Name: "record13", Quick: 20000, Thorough: 600000, Gen: genRec13, Run: runRec13,
		Rule: "the three DTLS 1.3 suites: NewRecordProtection(secret).Seal must equal the RFC 9147 record (key/iv/sn from HKDF-Expand-Label, nonce, AAD = unified header before masking, " +
			"AES-ECB / ChaCha20 sequence-number mask) byte for byte, and UnmaskSequenceNumber/Open accept the reference record; distinct = (suite, epoch, seq, type, S bit, cid length, payload length)"})
}
