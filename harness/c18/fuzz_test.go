package c18

import (
	"bytes"
	"encoding/hex"
	"encoding/json"
	"os"
	"testing"

	"github.com/pion/dtls/v3/internal/zzverif/lib/pbt"
	"github.com/pion/dtls/v3/pkg/protocol/recordlayer"
)

// Native coverage-guided targets (thorough tier only). The oracle is the same rule engine the
// rapid properties use; a failure prints "VERIF-SIG <signature>" so that the driver can match it
// against the known findings.

// FuzzCodecBytes: arbitrary bytes through one codec (selected by the first argument): no panic; an
// accepted input re-encodes, the re-encoding is accepted and is a fixed point.
func FuzzCodecBytes(f *testing.F) {
	// seed corpus: the encodings harvested from genuine traffic by the rapid run of the same check
	// (written to $VERIF_FUZZ_SEEDS by the driver), falling back to the empty input per codec
	harvested := map[string][]string{}
	if raw, err := os.ReadFile(os.Getenv("VERIF_FUZZ_SEEDS")); err == nil {
		_ = json.Unmarshal(raw, &harvested)
	}
	for i, cd := range codecs {
		for j, h := range harvested[cd.name] {
			if b, err := hex.DecodeString(h); err == nil && j < 8 {
				f.Add(uint16(i), b) //nolint:gosec
			}
		}
		f.Add(uint16(i), []byte{}) //nolint:gosec
	}
	f.Fuzz(func(t *testing.T, idx uint16, data []byte) {
		if len(data) > 4096 {
			return
		}
		cd := codecs[int(idx)%len(codecs)]
		r := &pbt.R{}
		checkBytes(cd, data, "raw", nil, r)
		if r.Failed() {
			t.Fatalf("VERIF-SIG %s\n%s", r.Sig, r.Msg)
		}
	})
}

// FuzzUnpack: whatever the three datagram splitters accept must be exactly partitioned by the
// records they return (no byte dropped, duplicated or invented, no empty record).
func FuzzUnpack(f *testing.F) {
	f.Add(uint8(0), []byte{22, 0xfe, 0xfd, 0, 0, 0, 0, 0, 0, 0, 1, 0, 1, 0x41})
	f.Add(uint8(4), []byte{25, 0xfe, 0xfd, 0, 1, 0, 0, 0, 0, 0, 1, 1, 2, 3, 4, 0, 1, 0x41, 23, 0xfe, 0xfd, 0, 1, 0, 0, 0, 0, 0, 2, 0, 1, 0x42})
	f.Add(uint8(0), []byte{0x2f, 0, 1, 0, 2, 0x41, 0x42, 0x2c, 0, 7, 0x43})
	f.Add(uint8(3), []byte{0x3f, 9, 9, 9, 0, 1, 0, 1, 0x41})
	f.Fuzz(func(t *testing.T, cid uint8, data []byte) {
		if len(data) == 0 || len(data) > 4096 {
			return
		}
		cidLen := int(cid % 21)
		check := func(name string, got [][]byte, err error) {
			if err != nil {
				return
			}
			prefixOK := false
			var cat []byte
			for _, g := range got {
				if len(g) == 0 {
					t.Fatalf("VERIF-SIG C18|%s|empty-record\n%x", name, data)
				}
				cat = append(cat, g...)
			}
			// RFC 9147 4.: with connection IDs in use the rest of a datagram is discarded from the
			// first record on that carries a different ID, so a proper prefix is a legal result there
			if name == "UnpackDatagram13" && cidLen > 0 && bytes.HasPrefix(data, cat) {
				prefixOK = true
			}
			if !bytes.Equal(cat, data) && !prefixOK {
				t.Fatalf("VERIF-SIG C18|%s|accepted-datagram-not-partitioned\ninput %x\nparts %x", name, data, got)
			}
		}
		g1, e1 := recordlayer.UnpackDatagram(data)
		check("UnpackDatagram", g1, e1)
		g2, e2 := recordlayer.ContentAwareUnpackDatagram(data, cidLen)
		check("ContentAwareUnpackDatagram", g2, e2)
		g3, e3 := recordlayer.UnpackDatagram13(data, cidLen, cidLen > 0, true)
		check("UnpackDatagram13", g3, e3)
		g4, e4 := recordlayer.UnpackDatagram13(data, cidLen, false, false)
		check("UnpackDatagram13/strict", g4, e4)
	})
}
