package c18

import (
	"bytes"
	"fmt"

	"github.com/pion/dtls/v3/internal/zzverif/lib/pbt"
	"github.com/pion/dtls/v3/pkg/protocol/recordlayer"
	"pgregory.net/rapid"
)

// RecSpec describes one record of a generated datagram.
type RecSpec struct {
	Kind  string `json:"kind"` // legacy, cid, unified
	Type  int    `json:"type,omitempty"`
	Epoch int    `json:"epoch"`
	Len   int    `json:"len"`
	SBit  bool   `json:"s,omitempty"`
	NoLen bool   `json:"nolen,omitempty"` // unified only, last record only
	CID   bool   `json:"cid,omitempty"`   // unified: carries a connection id
}

// PartCase is a datagram made of records.
type PartCase struct {
	Family string    `json:"family"`
	CIDLen int       `json:"cidlen"`
	Recs   []RecSpec `json:"recs"`
	// NoCID13: DTLS 1.3 family only - the unified records carry no connection ID although a length is
	// configured (the listener's router and a connection whose ID is not negotiated yet parse with
	// cidRequired=false)
	NoCID13 bool `json:"nocid13,omitempty"`
}

func buildRecord(cidLen int, rs RecSpec, idx int) []byte {
	body := bytes.Repeat([]byte{byte(0x40 + idx)}, rs.Len)
	switch rs.Kind {
	case "unified":
		b0 := byte(0x20) | byte(rs.Epoch&3)
		var hdr []byte
		if rs.CID && cidLen > 0 {
			b0 |= 0x10
		}
		if rs.SBit {
			b0 |= 0x08
		}
		if !rs.NoLen {
			b0 |= 0x04
		}
		hdr = append(hdr, b0)
		if rs.CID && cidLen > 0 {
			hdr = append(hdr, bytes.Repeat([]byte{0xC1}, cidLen)...)
		}
		if rs.SBit {
			hdr = append(hdr, 0, byte(idx))
		} else {
			hdr = append(hdr, byte(idx))
		}
		if !rs.NoLen {
			hdr = append(hdr, byte(rs.Len>>8), byte(rs.Len))
		}

		return append(hdr, body...)
	default:
		t := byte(rs.Type)
		hdr := []byte{t, 0xfe, 0xfd, byte(rs.Epoch >> 8), byte(rs.Epoch), 0, 0, 0, 0, 0, byte(idx)}
		if rs.Kind == "cid" {
			hdr[0] = 25
			hdr = append(hdr, bytes.Repeat([]byte{0xC1}, cidLen)...)
		}
		hdr = append(hdr, byte(rs.Len>>8), byte(rs.Len))

		return append(hdr, body...)
	}
}

func genPart(t *rapid.T) PartCase {
	c := PartCase{CIDLen: rapid.SampledFrom([]int{0, 0, 1, 4, 8, 20}).Draw(t, "cidlen")}
	n := rapid.IntRange(1, 6).Draw(t, "n")
	family := rapid.SampledFrom([]string{"legacy", "legacy+cid", "13"}).Draw(t, "family")
	c.Family = family
	if family == "13" && c.CIDLen > 0 {
		c.NoCID13 = rapid.IntRange(0, 2).Draw(t, "nocid13") == 0
	}
	for i := 0; i < n; i++ {
		rs := RecSpec{Epoch: rapid.IntRange(0, 3).Draw(t, "epoch"), Len: rapid.SampledFrom([]int{1, 2, 16, 17, 40, 200}).Draw(t, "len")}
		switch family {
		case "legacy":
			rs.Kind, rs.Type = "legacy", rapid.SampledFrom([]int{20, 21, 22, 23, 26}).Draw(t, "type")
		case "legacy+cid":
			rs.Kind, rs.Type = "legacy", rapid.SampledFrom([]int{20, 21, 22, 23}).Draw(t, "type")
			if c.CIDLen > 0 && rapid.Bool().Draw(t, "iscid") {
				rs.Kind = "cid"
			}
		default:
			if rapid.IntRange(0, 2).Draw(t, "plain") == 0 {
				rs.Kind, rs.Type, rs.Epoch = "legacy", rapid.SampledFrom([]int{21, 22, 26}).Draw(t, "type"), 0
			} else {
				rs.Kind, rs.SBit, rs.CID = "unified", rapid.Bool().Draw(t, "sbit"), c.CIDLen > 0 && !c.NoCID13
				rs.Len = max(rs.Len, 16)
				if i == n-1 && rapid.IntRange(0, 3).Draw(t, "nolen") == 0 {
					rs.NoLen = true
				}
			}
		}
		c.Recs = append(c.Recs, rs)
	}

	return c
}

func runPart(c PartCase, r *pbt.R) {
	var want [][]byte
	var dg []byte
	has13, hasCID := false, false
	for i, rs := range c.Recs {
		rec := buildRecord(c.CIDLen, rs, i)
		want = append(want, rec)
		dg = append(dg, rec...)
		if rs.Kind == "unified" {
			has13 = true
		}
		if rs.Kind == "cid" {
			hasCID = true
		}
	}
	check := func(name string, got [][]byte, err error) {
		if err != nil {
			r.Failf("C18|"+name+"|valid-datagram-rejected", "datagram of %d well-formed records rejected: %v (%+v)", len(want), err, c)

			return
		}
		if len(got) != len(want) {
			r.Failf("C18|"+name+"|wrong-record-count", "split into %d records, built from %d (%+v)", len(got), len(want), c)

			return
		}
		for i := range got {
			if !bytes.Equal(got[i], want[i]) {
				r.Failf("C18|"+name+"|wrong-boundaries", "record %d: got %x want %x", i, got[i], want[i])

				return
			}
		}
	}
	var unpackers []string
	if !has13 {
		if !hasCID {
			got, err := recordlayer.UnpackDatagram(dg)
			check("UnpackDatagram", got, err)
			unpackers = append(unpackers, "UnpackDatagram")
		}
		got, err := recordlayer.ContentAwareUnpackDatagram(dg, c.CIDLen)
		check("ContentAwareUnpackDatagram", got, err)
		unpackers = append(unpackers, "ContentAwareUnpackDatagram")
	}
	if c.Family == "13" {
		got, err := recordlayer.UnpackDatagram13(dg, c.CIDLen, c.CIDLen > 0 && !c.NoCID13, true)
		check("UnpackDatagram13", got, err)
		unpackers = append(unpackers, "UnpackDatagram13")
		if c.NoCID13 && c.CIDLen > 0 {
			r.Class("unified-records-without-id-with-configured-length")
		}
	}
	// truncation of the datagram inside the last record must be rejected by every unpacker
	if last := c.Recs[len(c.Recs)-1]; !last.NoLen && len(dg) > 1 {
		cut := dg[:len(dg)-1]
		if !has13 {
			if got, err := recordlayer.ContentAwareUnpackDatagram(cut, c.CIDLen); err == nil {
				r.Failf("C18|ContentAwareUnpackDatagram|truncated-datagram-accepted", "datagram cut by one byte split into %d records", len(got))
			}
		}
		if c.Family == "13" {
			if got, err := recordlayer.UnpackDatagram13(cut, c.CIDLen, c.CIDLen > 0 && !c.NoCID13, true); err == nil {
				total := 0
				for _, g := range got {
					total += len(g)
				}
				if total != len(cut) || len(got) == len(want) {
					r.Failf("C18|UnpackDatagram13|truncated-datagram-accepted", "datagram cut by one byte split into %d records covering %d of %d bytes", len(got), total, len(cut))
				}
			}
		}
	}
	if len(c.Recs) >= 2 {
		r.NonTrivial()
	}
	r.Class(fmt.Sprintf("records=%d", len(c.Recs)))
	for _, u := range unpackers {
		r.Class(u)
	}
}

func init() {
	pbt.Register(pbt.Prop[PartCase]{
		Name: "datagram-partition", Quick: 40000, Thorough: 1500000, Gen: genPart, Run: runPart,
		Rule: "datagram = concatenation of 1..6 generated records (legacy, tls12_cid with CID length 0..20, DTLS 1.3 plaintext and unified-header ciphertext with S/L/C bits); " +
			"UnpackDatagram / ContentAwareUnpackDatagram / UnpackDatagram13 must return exactly those records in order, covering every byte once, and reject a datagram cut inside its last record. " +
			"non-trivial = >=2 records; distinct = whole case",
	})
}

// ---- crafted borderline inputs -----------------------------------------------------------------

// CraftCase is one hand-shaped input for one codec: inputs that sit exactly on a boundary a decoder
// has to police (a list whose byte length is not a multiple of its element size, a defined message
// type next to the unknown range, a body one byte short or long) and that single-byte mutation of
// genuine encodings does not reach because two fields have to change together.
type CraftCase struct {
	Codec string `json:"codec"`
	Hex   string `json:"hex"`
	Note  string `json:"note"`
}

func craftCases() []CraftCase {
	var out []CraftCase
	add := func(codec, note string, b []byte) {
		out = append(out, CraftCase{codec, fmt.Sprintf("%x", b), note})
	}
	// ACK: record_numbers<0..2^16-1> of 16-byte entries; every list length that is not a multiple of 16
	for extra := 1; extra < 16; extra++ {
		for _, full := range []int{0, 1, 2} {
			n := full*16 + extra
			add("ack", fmt.Sprintf("list of %d bytes (%d entries and %d stray bytes)", n, full, extra), append([]byte{byte(n >> 8), byte(n)}, bytes.Repeat([]byte{0x11}, n)...))
		}
	}
	for _, n := range []int{0, 16, 32} {
		add("ack", "well-formed list", append([]byte{byte(n >> 8), byte(n)}, bytes.Repeat([]byte{0x22}, n)...))
	}
	// RRC: msg_type (1) + cookie (8); the three defined types, the first unknown one, wrong lengths
	for _, typ := range []byte{0, 1, 2, 3, 255} {
		add("rrc", fmt.Sprintf("type %d with a cookie", typ), append([]byte{typ}, 1, 2, 3, 4, 5, 6, 7, 8))
		add("rrc", fmt.Sprintf("type %d, cookie one byte short", typ), append([]byte{typ}, 1, 2, 3, 4, 5, 6, 7))
		add("rrc", fmt.Sprintf("type %d, cookie one byte long", typ), append([]byte{typ}, 1, 2, 3, 4, 5, 6, 7, 8, 9))
		add("rrc", fmt.Sprintf("type %d alone", typ), []byte{typ})
	}
	// alert: exactly two bytes
	add("alert", "three bytes", []byte{2, 40, 0})
	add("alert", "one byte", []byte{2})
	// KeyUpdate: one byte, 0 or 1
	for _, b := range [][]byte{{0}, {1}, {2}, {0, 0}, {}} {
		add("hs.KeyUpdate", "key update body", b)
	}

	return out
}

func runCraft(c CraftCase, r *pbt.R) {
	cd := codecIdx[c.Codec]
	if cd == nil {
		return
	}
	var b []byte
	_, _ = fmt.Sscanf(c.Hex, "%x", &b)
	res := checkBytes(cd, b, "raw", nil, r)
	cl := "rejected"
	if res.accepted {
		cl = "accepted"
		// a strict codec: accepted means byte-identical re-encoding (asserted inside checkBytes)
	}
	r.Eval(c.Codec+"|"+c.Hex, true, c.Codec+":"+cl)
	// defined RRC types must keep their cookie, and only the exact length is a message
	if c.Codec == "rrc" && len(b) > 0 && b[0] <= 2 {
		if res.accepted != (len(b) == 9) {
			r.Failf("C18|rrc|defined-type-length-not-enforced", "return-routability message %x (defined type %d, %d bytes) accepted=%v", b, b[0], len(b), res.accepted)
		} else if res.accepted && !bytes.Equal(res.b1, b) {
			r.Failf("C18|rrc|defined-type-loses-cookie", "return-routability message %x re-encodes to %x", b, res.b1)
		}
	}
}

// BigCase: an input longer than 65536 bytes whose head carries a length field at its maximum. Decoders that
// compute "offset + declared length" in the width of the field (uint8/uint16 arithmetic) wrap around for such
// an input; random mutation of genuine encodings never grows an input to that size.
type BigCase struct {
	Codec string `json:"codec"`
	Head  string `json:"head"` // hex of the first bytes
	Fill  int    `json:"fill"` // number of filler bytes behind them
	FillB int    `json:"fillb"`
}

func bigCases(tier string, yield func(BigCase) bool) {
	heads := []string{"ffff", "fffe", "ff", "00ffff", "0000ffff", "ffffff", "00ffffff", "fefdffff", "0100ffff", "ff00", "0001ffff", "03001dffff", "16fefd0000000000000000ffff"}
	fills := []int{65535, 65536, 65537, 65540}
	if tier != "thorough" {
		fills = []int{65537}
	}
	for _, cd := range codecs {
		for _, h := range heads {
			for _, f := range fills {
				for _, fb := range []int{0x00, 0xff} {
					if !yield(BigCase{cd.name, h, f, fb}) {
						return
					}
				}
			}
		}
	}
}

func runBig(c BigCase, r *pbt.R) {
	cd := codecIdx[c.Codec]
	if cd == nil {
		return
	}
	var head []byte
	_, _ = fmt.Sscanf(c.Head, "%x", &head)
	b := append(append([]byte(nil), head...), bytes.Repeat([]byte{byte(c.FillB)}, c.Fill)...)
	res := checkBytes(cd, b, "raw", nil, r)
	cl := "rejected"
	if res.accepted {
		cl = "accepted"
	}
	r.Eval(fmt.Sprintf("%s|%s|%d|%d", c.Codec, c.Head, c.Fill, c.FillB), true, cl)
}

func init() {
	pbt.Register(pbt.Prop[BigCase]{
		Name: "oversize-length-fields", Exhaustive: true, Run: runBig, Enum: bigCases,
		Rule: "every codec x 13 heads that put a maximal 8/16/24-bit length field at offsets 0..11 x 65535..65540 filler bytes (0x00 / 0xff): inputs beyond the range of 16-bit offset arithmetic; " +
			"rule engine as for byte mutations (no panic, accepted input re-encodes to a fixed point, declared lengths honoured)",
	})
	pbt.Register(pbt.Prop[CraftCase]{
		Name: "crafted-boundary-inputs", Exhaustive: true, Run: runCraft,
		Enum: func(_ string, yield func(CraftCase) bool) {
			for _, c := range craftCases() {
				if !yield(c) {
					return
				}
			}
		},
		Rule: "hand-shaped boundary inputs (element-size remainders of the ACK list, defined/unknown return-routability types with short/long cookies, alert and KeyUpdate body lengths); rule engine + strict identity for one-encoding codecs",
	})
}
