package c18

import (
	"bytes"
	"encoding/hex"
	"encoding/json"
	"fmt"
	"os"
	"path/filepath"
	"reflect"
	"runtime/debug"
	"sort"
	"sync"
	"testing"
	"time"

	"github.com/pion/dtls/v3/internal/ciphersuite/types"
	"github.com/pion/dtls/v3/internal/zzverif/lib/pbt"
	"github.com/pion/dtls/v3/internal/zzverif/lib/ref"
	"github.com/pion/dtls/v3/internal/zzverif/lib/scen"
	"github.com/pion/dtls/v3/pkg/crypto/hash"
	"github.com/pion/dtls/v3/pkg/crypto/signature"
	"github.com/pion/dtls/v3/pkg/protocol"
	"github.com/pion/dtls/v3/pkg/protocol/alert"
	"github.com/pion/dtls/v3/pkg/protocol/extension"
	ext12 "github.com/pion/dtls/v3/pkg/protocol/extension/dtls12"
	ext13 "github.com/pion/dtls/v3/pkg/protocol/extension/dtls13"
	"github.com/pion/dtls/v3/pkg/protocol/handshake"
	"github.com/pion/dtls/v3/pkg/protocol/recordlayer"
	"pgregory.net/rapid"
)

func TestMain(m *testing.M) { pbt.Main(m, "C18") }

func TestProps(t *testing.T) { pbt.RunAll(t) }

func TestReplay(t *testing.T) { pbt.Replay(t) }

// ---- codec registry ----------------------------------------------------------------------

type codec struct {
	name      string
	fresh     func() any
	unmarshal func(v any, b []byte) error
	marshal   func(v any) ([]byte, error)
	// delimited: the encoding carries its own outermost length, so bytes after it must never be
	// consumed into the value.
	delimited bool
	// lossy: decoding intentionally normalises (documented), so only rule 2 (canonical fixed
	// point) is asserted, not the prefix rule.
	lossy bool
	// ctxRules: the decoder additionally enforces rules about the message context (which
	// extensions may appear together, in which order) that the encoder does not check; a value the
	// decoder refuses is then not a defect, but a value it accepts must come back unchanged.
	ctxRules bool
	// strict: the codec has exactly one encoding per value and its decoder normalises nothing, so an
	// accepted input must be byte-identical to its re-encoding (anything else means that bytes were
	// ignored or invented).
	strict bool
	gen    func(t *rapid.T) any // optional value generator
	// domain, if set, says whether a generated value lies in the wire-representable domain of the
	// codec (field widths, known enum values); full value equality is asserted only there.
	domain func(v any) bool
}

type msgT[T any] interface {
	*T
	Marshal() ([]byte, error)
	Unmarshal([]byte) error
}

func msg[T any, PT msgT[T]](name string, preset func(*T)) *codec {
	return &codec{
		name: name,
		fresh: func() any {
			v := new(T)
			if preset != nil {
				preset(v)
			}

			return v
		},
		unmarshal: func(v any, b []byte) error { return PT(v.(*T)).Unmarshal(b) },
		marshal:   func(v any) ([]byte, error) { return PT(v.(*T)).Marshal() },
	}
}

type extT[T any] interface {
	*T
	MarshalData() ([]byte, error)
	UnmarshalData([]byte) error
}

func ext[T any, PT extT[T]](name string) *codec {
	return &codec{
		name:      name,
		fresh:     func() any { return new(T) },
		unmarshal: func(v any, b []byte) error { return PT(v.(*T)).UnmarshalData(b) },
		marshal:   func(v any) ([]byte, error) { return PT(v.(*T)).MarshalData() },
	}
}

func withGen[T any](c *codec) *codec {
	g := rapid.Make[T]()
	c.gen = func(t *rapid.T) any {
		v := g.Draw(t, "value")

		return &v
	}

	return c
}

// shaped installs a domain-aware value generator (construction instead of rejection).
func shaped[T any](c *codec, g func(t *rapid.T) *T) *codec {
	old := c.gen
	strict := c.domain != nil
	c.gen = func(t *rapid.T) any {
		if old != nil && strict && rapid.IntRange(0, 3).Draw(t, "unshaped") == 0 {
			return old(t)
		}

		return g(t)
	}
	if c.domain == nil {
		// constructed values are wire-representable: the strong rules apply (own encoding accepted,
		// round trip preserves the value)
		c.domain = func(any) bool { return true }
	}

	return c
}

func genBytes(t *rapid.T, label string, lo, hi int) []byte {
	return rapid.SliceOfN(rapid.Byte(), lo, hi).Draw(t, label)
}

func ctxRules(c *codec) *codec { c.ctxRules = true; return c }

func strict(c *codec) *codec { c.strict = true; return c }

// genExtList draws a list of extension values for one message context from the payload codecs
// registered under the given names (each at most once, generated order), plus optional
// parameterless extensions and an unknown (raw) one.
func genExtList(t *rapid.T, names []string, empties []extension.Value) []extension.Value {
	var out []extension.Value
	pick := rapid.Permutation(names).Draw(t, "extorder")
	for _, n := range pick {
		if rapid.IntRange(0, 2).Draw(t, "use") != 0 {
			continue
		}
		cd := codecIdx[n]
		if cd == nil || cd.gen == nil {
			continue
		}
		v, ok := cd.gen(t).(extension.Value)
		if !ok {
			continue
		}
		enc, err := v.MarshalData()
		if err != nil {
			continue
		}
		// only extension values that survive their own payload codec unchanged (decoders that
		// normalise, e.g. drop unknown enum members, would blur the message-level comparison)
		v2 := cd.fresh()
		if cd.unmarshal(v2, enc) != nil {
			continue
		}
		normalize(reflect.ValueOf(v))
		normalize(reflect.ValueOf(v2))
		if !reflect.DeepEqual(v, v2) {
			continue
		}
		if g, isGroups := v.(*extension.SupportedGroups); isGroups {
			seen := map[uint16]bool{}
			uniq := g.Groups[:0]
			for _, x := range g.Groups {
				if !seen[uint16(x)] {
					seen[uint16(x)] = true
					uniq = append(uniq, x)
				}
			}
			g.Groups = uniq
		}
		out = append(out, v)
	}
	for _, e := range empties {
		if rapid.IntRange(0, 2).Draw(t, "empty") == 0 {
			out = append(out, e)
		}
	}
	if rapid.IntRange(0, 3).Draw(t, "raw") == 0 {
		out = append(out, extension.Raw{Type: extension.Type(0x7a00 + rapid.IntRange(0, 255).Draw(t, "rawtype")), Data: genBytes(t, "rawdata", 0, 12)}) //nolint:gosec
	}
	if len(out) > 1 && rapid.Bool().Draw(t, "shuffle") {
		out = rapid.Permutation(out).Draw(t, "finalorder")
	}

	return out
}

func genRandom(t *rapid.T) handshake.Random {
	var r handshake.Random
	r.GMTUnixTime = time.Unix(int64(rapid.Uint32().Draw(t, "gmt")), 0)
	copy(r.RandomBytes[:], genBytes(t, "rnd", 28, 28))

	return r
}

func delim(c *codec) *codec { c.delimited = true; return c }

func dom[T any](c *codec, f func(*T) bool) *codec {
	c.domain = func(v any) bool { return f(v.(*T)) }

	return c
}

// lateShaped: generators that refer to other codecs' generators are installed after all codecs
// are registered.
var lateShaped []func()

var (
	codecs   []*codec
	codecIdx = map[string]*codec{}
	// extension codecs by (extension type, context family)
	extByType = map[uint16][]string{}
)

func reg(c *codec) *codec {
	codecs = append(codecs, c)
	codecIdx[c.name] = c

	return c
}

func regExt(c *codec, typ uint16) {
	reg(c)
	extByType[typ] = append(extByType[typ], c.name)
}

func cidHeader(n int) func(*recordlayer.Header) {
	return func(h *recordlayer.Header) {
		if n > 0 {
			h.ConnectionID = make([]byte, n)
		}
	}
}

func init() {
	// record layer
	reg(dom(shaped(withGen[recordlayer.Header](msg[recordlayer.Header]("record.Header", nil)), func(t *rapid.T) *recordlayer.Header {
		return &recordlayer.Header{
			ContentType:    protocol.ContentType(rapid.SampledFrom([]int{20, 21, 22, 23, 26, 27}).Draw(t, "ct")), //nolint:gosec
			Version:        rapid.SampledFrom([]protocol.Version{protocol.Version1_0, protocol.Version1_2}).Draw(t, "ver"),
			Epoch:          rapid.Uint16().Draw(t, "epoch"),
			SequenceNumber: rapid.OneOf(rapid.Uint64Range(0, 1<<48-1), rapid.SampledFrom([]uint64{0, 1, 1<<48 - 1, 1<<48 - 2, 1 << 32, 1<<32 - 1})).Draw(t, "seq"),
			ContentLen:     rapid.Uint16().Draw(t, "len"),
		}
	}), func(h *recordlayer.Header) bool {
		// the legacy record header only ever carries {254,255} or {254,253} (RFC 9147 4.1: legacy_record_version)
		okVer := h.Version == protocol.Version1_0 || h.Version == protocol.Version1_2
		okType := h.ContentType >= 20 && h.ContentType <= 27 && h.ContentType != 25 && h.ContentType != 24

		return okVer && okType && h.SequenceNumber < 1<<48 && len(h.ConnectionID) == 0
	}))
	reg(msg[recordlayer.Header]("record.Header/cid4", cidHeader(4)))
	reg(msg[recordlayer.Header]("record.Header/cid8", cidHeader(8)))
	reg(dom(shaped(withGen[recordlayer.UnifiedHeader](msg[recordlayer.UnifiedHeader]("record.UnifiedHeader", nil)), func(t *rapid.T) *recordlayer.UnifiedHeader {
		u := &recordlayer.UnifiedHeader{EpochLow: uint8(rapid.IntRange(0, 3).Draw(t, "e")), SeqBit: rapid.Bool().Draw(t, "s"), LengthBit: rapid.Bool().Draw(t, "l")} //nolint:gosec
		if u.SeqBit {
			u.SequenceNumber = rapid.Uint16().Draw(t, "seq16")
		} else {
			u.SequenceNumber = uint16(rapid.IntRange(0, 255).Draw(t, "seq8")) //nolint:gosec
		}
		if u.LengthBit {
			u.Length = rapid.Uint16().Draw(t, "len")
		}

		return u
	}), func(u *recordlayer.UnifiedHeader) bool {
		return u.EpochLow < 4 && (u.SeqBit || u.SequenceNumber < 256) && (u.LengthBit || u.Length == 0) && len(u.ConnectionID) == 0
	}))
	reg(msg[recordlayer.UnifiedHeader]("record.UnifiedHeader/cid4", func(u *recordlayer.UnifiedHeader) { u.ConnectionID = make([]byte, 4) }))
	reg(dom(withGen[recordlayer.InnerPlaintext](msg[recordlayer.InnerPlaintext]("record.InnerPlaintext", nil)), func(p *recordlayer.InnerPlaintext) bool {
		return p.RealType != 0 && p.Zeros < 4096
	}))
	reg(delim(msg[recordlayer.RecordLayer]("record.RecordLayer", nil)))
	reg(delim(msg[recordlayer.PlaintextRecord13]("record.PlaintextRecord13", nil)))
	reg(msg[recordlayer.CiphertextRecord13]("record.CiphertextRecord13", nil))
	reg(msg[recordlayer.CiphertextRecord13]("record.CiphertextRecord13/cid4", func(r *recordlayer.CiphertextRecord13) { r.Header.ConnectionID = make([]byte, 4) }))
	// content
	reg(withGen[alert.Alert](msg[alert.Alert]("alert", nil)))
	reg(strict(dom(withGen[protocol.ACK](msg[protocol.ACK]("ack", nil)), func(*protocol.ACK) bool { return true })))
	// unknown rrc_msg_type values are "gracefully ignored" (RFC 9853 4.2): the decoder clears their
	// cookie, so only the three defined types are in the round-trip domain
	reg(dom(withGen[protocol.ReturnRoutabilityCheck](msg[protocol.ReturnRoutabilityCheck]("rrc", nil)), func(m *protocol.ReturnRoutabilityCheck) bool {
		return m.MessageType <= protocol.ReturnRoutabilityCheckPathDrop
	}))
	reg(msg[protocol.ChangeCipherSpec]("ccs", nil))
	// handshake
	reg(dom(withGen[handshake.Header](msg[handshake.Header]("hs.Header", nil)), func(h *handshake.Header) bool {
		return h.Length < 1<<24 && h.FragmentOffset < 1<<24 && h.FragmentLength < 1<<24
	}))
	for _, k := range []struct {
		n string
		a types.KeyExchangeAlgorithm
	}{{"ecdhe", types.KeyExchangeAlgorithmEcdhe}, {"psk", types.KeyExchangeAlgorithmPsk}, {"ecdhe-psk", types.KeyExchangeAlgorithmEcdhe | types.KeyExchangeAlgorithmPsk}} {
		k := k
		reg(delim(msg[handshake.Handshake]("hs.Handshake/"+k.n, func(h *handshake.Handshake) { h.KeyExchangeAlgorithm = k.a })))
		reg(msg[handshake.MessageServerKeyExchange]("hs.ServerKeyExchange/"+k.n, func(m *handshake.MessageServerKeyExchange) { m.KeyExchangeAlgorithm = k.a }))
		reg(msg[handshake.MessageClientKeyExchange]("hs.ClientKeyExchange/"+k.n, func(m *handshake.MessageClientKeyExchange) { m.KeyExchangeAlgorithm = k.a }))
	}
	reg(msg[handshake.MessageClientHello]("hs.ClientHello", nil))
	reg(msg[handshake.MessageServerHello]("hs.ServerHello", nil))
	lateShaped = append(lateShaped, func() {
		chExts := []string{"ext.ServerNameOffer", "ext.SupportedGroups", "ext.SupportedPointFormats", "ext.SignatureAlgorithms", "ext.SRTPOffer", "ext.ALPNOffer",
			"ext.ConnectionID", "ext.CertificateSignatureAlgorithms", "ext.RenegotiationInfo", "ext.OfferedVersions", "ext.ClientKeyShare", "ext.Cookie",
			"ext.PSKKeyExchangeModes", "ext.OfferedPSKs", "ext.CertificateAuthorities"}
		ctxRules(shaped(codecIdx["hs.ClientHello"], func(t *rapid.T) *handshake.MessageClientHello {
			m := &handshake.MessageClientHello{Version: protocol.Version1_2, Random: genRandom(t), Cookie: genBytes(t, "cookie", 0, 40), SessionID: genBytes(t, "sid", 0, 32)}
			n := rapid.IntRange(1, 8).Draw(t, "nsuites")
			for i := 0; i < n; i++ {
				m.CipherSuiteIDs = append(m.CipherSuiteIDs, rapid.SampledFrom([]uint16{0xc02b, 0xc02c, 0xcca9, 0xc0ac, 0x00a8, 0x1301, 0x1302, 0x00ff, 0x5600, 0x1a1a}).Draw(t, "suite"))
			}
			m.CompressionMethods = []*protocol.CompressionMethod{{}}
			m.Extensions = genExtList(t, chExts, []extension.Value{&ext12.ExtendedMasterSecret{}, &extension.ReturnRoutabilityCheck{}, &ext13.PostHandshakeAuth{}})

			return m
		}))
		shExts := []string{"ext.SupportedPointFormats", "ext.SRTPSelection", "ext.ALPNSelection", "ext.ConnectionID", "ext.RenegotiationInfo"}
		ctxRules(shaped(codecIdx["hs.ServerHello"], func(t *rapid.T) *handshake.MessageServerHello {
			su := rapid.SampledFrom([]uint16{0xc02b, 0xc02c, 0xcca9, 0x00a8}).Draw(t, "suite")
			m := &handshake.MessageServerHello{Version: protocol.Version1_2, Random: genRandom(t), SessionID: genBytes(t, "sid", 0, 32), CipherSuiteID: &su, CompressionMethod: &protocol.CompressionMethod{}}
			m.Extensions = genExtList(t, shExts, []extension.Value{&ext12.ExtendedMasterSecret{}, &extension.ReturnRoutabilityCheck{}, &extension.ServerNameAck{}})

			return m
		}))
		eeExts := []string{"ext.SupportedGroups", "ext.SRTPSelection", "ext.ALPNSelection"}
		ctxRules(shaped(codecIdx["hs.EncryptedExtensions"], func(t *rapid.T) *handshake.MessageEncryptedExtensions {
			return &handshake.MessageEncryptedExtensions{Extensions: genExtList(t, eeExts, []extension.Value{&extension.ServerNameAck{}, &ext13.EarlyData{}})}
		}))
		crExts := []string{"ext.SignatureAlgorithms", "ext.SignatureAlgorithms", "ext.CertificateSignatureAlgorithms", "ext.CertificateAuthorities", "ext.OIDFilters"}
		ctxRules(shaped(codecIdx["hs.CertificateRequest13"], func(t *rapid.T) *handshake.MessageCertificateRequest13 {
			return &handshake.MessageCertificateRequest13{CertificateRequestContext: genBytes(t, "ctx", 0, 16), Extensions: genExtList(t, crExts[1:], nil)}
		}))
	})
	reg(dom(withGen[handshake.MessageHelloVerifyRequest](msg[handshake.MessageHelloVerifyRequest]("hs.HelloVerifyRequest", nil)), func(*handshake.MessageHelloVerifyRequest) bool { return true }))
	reg(dom(withGen[handshake.MessageCertificate](msg[handshake.MessageCertificate]("hs.Certificate", nil)), func(*handshake.MessageCertificate) bool { return true }))
	reg(msg[handshake.MessageCertificate13]("hs.Certificate13", nil))
	reg(withGen[handshake.MessageCertificateRequest](msg[handshake.MessageCertificateRequest]("hs.CertificateRequest", nil)))
	reg(msg[handshake.MessageCertificateRequest13]("hs.CertificateRequest13", nil))
	reg(shaped(withGen[handshake.MessageCertificateVerify](msg[handshake.MessageCertificateVerify]("hs.CertificateVerify", nil)), func(t *rapid.T) *handshake.MessageCertificateVerify {
		sc := rapid.SampledFrom([]uint16{0x0403, 0x0503, 0x0603, 0x0807, 0x0401, 0x0501, 0x0601}).Draw(t, "scheme")

		return &handshake.MessageCertificateVerify{HashAlgorithm: hash.Algorithm(sc >> 8), SignatureAlgorithm: signature.Algorithm(sc & 0xff), Signature: genBytes(t, "sig", 0, 140)}
	}))
	reg(dom(withGen[handshake.MessageFinished](msg[handshake.MessageFinished]("hs.Finished", nil)), func(*handshake.MessageFinished) bool { return true }))
	reg(msg[handshake.MessageEncryptedExtensions]("hs.EncryptedExtensions", nil))
	reg(msg[handshake.MessageNewSessionTicket]("hs.NewSessionTicket", nil))
	reg(withGen[handshake.MessageKeyUpdate](msg[handshake.MessageKeyUpdate]("hs.KeyUpdate", nil)))
	reg(shaped(withGen[handshake.MessageNewConnectionID](msg[handshake.MessageNewConnectionID]("hs.NewConnectionID", nil)), func(t *rapid.T) *handshake.MessageNewConnectionID {
		m := &handshake.MessageNewConnectionID{Usage: handshake.ConnectionIDUsage(rapid.IntRange(0, 1).Draw(t, "usage"))} //nolint:gosec
		n := rapid.IntRange(0, 5).Draw(t, "n")
		for i := 0; i < n; i++ {
			m.CIDs = append(m.CIDs, genBytes(t, "cid", 0, 20))
		}

		return m
	}))
	reg(withGen[handshake.MessageRequestConnectionID](msg[handshake.MessageRequestConnectionID]("hs.RequestConnectionID", nil)))
	reg(msg[handshake.MessageServerHelloDone]("hs.ServerHelloDone", nil))
	// extensions (payload codecs)
	regExt(dom(withGen[extension.ConnectionID](ext[extension.ConnectionID]("ext.ConnectionID")), func(*extension.ConnectionID) bool { return true }), 54)
	regExt(withGen[extension.ServerNameOffer](ext[extension.ServerNameOffer]("ext.ServerNameOffer")), 0)
	regExt(ext[extension.ServerNameAck]("ext.ServerNameAck"), 0)
	regExt(dom(withGen[extension.ALPNOffer](ext[extension.ALPNOffer]("ext.ALPNOffer")), func(*extension.ALPNOffer) bool { return true }), 16)
	regExt(withGen[extension.ALPNSelection](ext[extension.ALPNSelection]("ext.ALPNSelection")), 16)
	regExt(withGen[extension.SRTPOffer](ext[extension.SRTPOffer]("ext.SRTPOffer")), 14)
	regExt(withGen[extension.SRTPSelection](ext[extension.SRTPSelection]("ext.SRTPSelection")), 14)
	regExt(withGen[extension.SupportedGroups](ext[extension.SupportedGroups]("ext.SupportedGroups")), 10)
	regExt(withGen[extension.SignatureAlgorithms](ext[extension.SignatureAlgorithms]("ext.SignatureAlgorithms")), 13)
	regExt(withGen[extension.CertificateSignatureAlgorithms](ext[extension.CertificateSignatureAlgorithms]("ext.CertificateSignatureAlgorithms")), 50)
	regExt(ext[extension.ReturnRoutabilityCheck]("ext.RRC"), 61)
	regExt(withGen[ext12.RenegotiationInfo](ext[ext12.RenegotiationInfo]("ext.RenegotiationInfo")), 0xff01)
	regExt(withGen[ext12.SupportedPointFormats](ext[ext12.SupportedPointFormats]("ext.SupportedPointFormats")), 11)
	regExt(ext[ext12.ExtendedMasterSecret]("ext.ExtendedMasterSecret"), 23)
	regExt(shaped(withGen[ext13.OfferedPSKs](ext[ext13.OfferedPSKs]("ext.OfferedPSKs")), func(t *rapid.T) *ext13.OfferedPSKs {
		o := &ext13.OfferedPSKs{}
		n := rapid.IntRange(1, 4).Draw(t, "n")
		for i := 0; i < n; i++ {
			o.Identities = append(o.Identities, ext13.PSKIdentity{Identity: genBytes(t, "id", 1, 24), ObfuscatedTicketAge: rapid.Uint32().Draw(t, "age")})
			o.Binders = append(o.Binders, ext13.PSKBinder(genBytes(t, "binder", 32, 64)))
		}

		return o
	}), 41)
	regExt(withGen[ext13.SelectedPSK](ext[ext13.SelectedPSK]("ext.SelectedPSK")), 41)
	regExt(withGen[ext13.ClientKeyShare](ext[ext13.ClientKeyShare]("ext.ClientKeyShare")), 51)
	regExt(withGen[ext13.ServerKeyShare](ext[ext13.ServerKeyShare]("ext.ServerKeyShare")), 51)
	regExt(withGen[ext13.RetryKeyShare](ext[ext13.RetryKeyShare]("ext.RetryKeyShare")), 51)
	regExt(withGen[ext13.OfferedVersions](ext[ext13.OfferedVersions]("ext.OfferedVersions")), 43)
	regExt(withGen[ext13.SelectedVersion](ext[ext13.SelectedVersion]("ext.SelectedVersion")), 43)
	regExt(ext[ext13.PostHandshakeAuth]("ext.PostHandshakeAuth"), 49)
	regExt(withGen[ext13.CertificateAuthorities](ext[ext13.CertificateAuthorities]("ext.CertificateAuthorities")), 47)
	regExt(withGen[ext13.PSKKeyExchangeModes](ext[ext13.PSKKeyExchangeModes]("ext.PSKKeyExchangeModes")), 45)
	regExt(shaped(withGen[ext13.OIDFilters](ext[ext13.OIDFilters]("ext.OIDFilters")), func(t *rapid.T) *ext13.OIDFilters {
		o := &ext13.OIDFilters{}
		n := rapid.IntRange(0, 4).Draw(t, "n")
		for i := 0; i < n; i++ {
			oid := append([]byte{byte(0x50 + i)}, genBytes(t, "oid", 0, 8)...) // distinct first byte: no duplicate OIDs
			var vals []byte
			if rapid.IntRange(0, 2).Draw(t, "empty") != 0 {
				vals = genBytes(t, "vals", 1, 12)
			}
			o.Filters = append(o.Filters, ext13.OIDFilter{OID: oid, Values: vals})
		}

		return o
	}), 48)
	regExt(ext[ext13.EarlyData]("ext.EarlyData"), 42)
	regExt(withGen[ext13.MaxEarlyData](ext[ext13.MaxEarlyData]("ext.MaxEarlyData")), 42)
	regExt(dom(withGen[ext13.Cookie](ext[ext13.Cookie]("ext.Cookie")), func(*ext13.Cookie) bool { return true }), 44)
	reg(withGen[extension.Raw](ext[extension.Raw]("ext.Raw")))
	for _, f := range lateShaped {
		f()
	}
}

// ---- rule engine -------------------------------------------------------------------------

type result struct {
	accepted bool
	b1       []byte
}

func shortErr(err error) string {
	s := err.Error()
	if len(s) > 48 {
		s = s[:48]
	}

	return s
}

func safely(f func() error) (err error, panicked any, stack []byte) {
	defer func() {
		if rec := recover(); rec != nil {
			panicked, stack = rec, debug.Stack()
		}
	}()

	return f(), nil, nil
}

// checkBytes applies rule 2 (accepted input re-encodes to a canonical fixed point) and, for
// mutants derived from a canonical encoding, the declared-length rules. mode is one of
// "raw" (arbitrary bytes), "trunc" (strict prefix of canonical e), "extend" (e||x), "byte"
// (one byte of e changed).
func checkBytes(c *codec, b []byte, mode string, e []byte, r *pbt.R) result {
	v := c.fresh()
	err, p, st := safely(func() error { return c.unmarshal(v, b) })
	if p != nil {
		r.Failf(pbt.PanicSig("C18|"+c.name, st), "Unmarshal(%x) panicked: %v\n%s", b, p, st[:min(len(st), 1500)])

		return result{}
	}
	if err != nil {
		return result{}
	}
	var b1 []byte
	err, p, st = safely(func() error {
		var e error
		b1, e = c.marshal(v)

		return e
	})
	if p != nil {
		r.Failf(pbt.PanicSig("C18|"+c.name, st), "Marshal after Unmarshal(%x) panicked: %v", b, p)

		return result{}
	}
	if err != nil {
		r.Failf("C18|"+c.name+"|accepted-input-does-not-re-encode|"+shortErr(err), "Unmarshal accepted %x but Marshal fails: %v", b, err)

		return result{}
	}
	v2 := c.fresh()
	err, p, st = safely(func() error { return c.unmarshal(v2, b1) })
	if p != nil || err != nil {
		r.Failf("C18|"+c.name+"|canonical-form-rejected", "input %x re-encodes to %x which the decoder rejects: %v %v", b, b1, err, p)

		return result{}
	}
	if c.strict && !bytes.Equal(b1, b) {
		r.Failf("C18|"+c.name+"|accepted-input-differs-from-its-re-encoding", "input %x was accepted and re-encodes to %x: bytes of the input were ignored or replaced", b, b1)

		return result{}
	}
	b2, err := c.marshal(v2)
	if err != nil || !bytes.Equal(b1, b2) {
		r.Failf("C18|"+c.name+"|canonical-form-not-a-fixed-point", "input %x -> %x -> %x (%v)", b, b1, b2, err)

		return result{}
	}
	if !c.lossy {
		switch mode {
		case "trunc":
			// a strict prefix that is accepted must keep every one of its bytes in the canonical
			// form (it is then itself a complete encoding); dropping some is silent truncation
			if !bytes.HasPrefix(b1, b) {
				r.Failf("C18|"+c.name+"|truncated-input-accepted", "strict prefix %x of the valid encoding %x was accepted and decodes to the value of %x (silent truncation)", b, e, b1)
			}
		case "extend":
			if c.delimited && !bytes.Equal(b1, e) {
				r.Failf("C18|"+c.name+"|bytes-beyond-declared-length-consumed", "%x followed by %x decodes to the value of %x", e, b[len(e):], b1)
			}
		case "byte":
			// the changed byte must matter: if the decoded value is still the original one, the
			// decoder ignores that byte - for a length field this means the declared length is
			// not honoured
			if bytes.Equal(b1, e) && !bytes.Equal(b, e) {
				i := 0
				for i < len(b) && b[i] == e[i] {
					i++
				}
				where := "deep"
				if i < 16 {
					where = fmt.Sprintf("offset%d", i)
				}
				r.Failf("C18|"+c.name+"|byte-ignored-by-decoder|"+where, "changing byte %d of the valid encoding %x (%#02x -> %#02x) is accepted and yields the unchanged value: the decoder ignores that byte (a declared length is not honoured)", i, e, e[i], b[i])
			}
		}
	}

	return result{true, b1}
}

// ---- seeds harvested from genuine traffic -------------------------------------------------

var (
	seedOnce sync.Once
	seeds    = map[string][][]byte{} // codec name -> canonical-ish seed encodings
	seedErr  string
)

func addSeed(name string, b []byte) {
	for _, s := range seeds[name] {
		if bytes.Equal(s, b) {
			return
		}
	}
	if len(seeds[name]) < 40 {
		seeds[name] = append(seeds[name], append([]byte(nil), b...))
	}
}

type hsAssembler struct {
	parts map[int][]byte
	total map[int]int
	typ   map[int]int
}

func (a *hsAssembler) push(f scen.HSFrag) ([]byte, int, bool) {
	if a.parts == nil {
		a.parts, a.total, a.typ = map[int][]byte{}, map[int]int{}, map[int]int{}
	}
	if _, ok := a.parts[f.MsgSeq]; !ok {
		a.parts[f.MsgSeq] = make([]byte, 0, f.Length)
		a.total[f.MsgSeq], a.typ[f.MsgSeq] = f.Length, f.Type
	}
	if f.FragOff != len(a.parts[f.MsgSeq]) {
		return nil, 0, false
	}
	a.parts[f.MsgSeq] = append(a.parts[f.MsgSeq], f.Body...)
	if len(a.parts[f.MsgSeq]) == f.Length {
		return a.parts[f.MsgSeq], f.Type, true
	}

	return nil, 0, false
}

func hsFull(typ, seq int, body []byte) []byte {
	h := []byte{byte(typ), byte(len(body) >> 16), byte(len(body) >> 8), byte(len(body)), byte(seq >> 8), byte(seq), 0, 0, 0, byte(len(body) >> 16), byte(len(body) >> 8), byte(len(body))}

	return append(h, body...)
}

func harvestMessage(kx string, typ, seq int, body []byte, is13 bool) {
	full := hsFull(typ, seq, body)
	names := map[int]string{
		1: "hs.ClientHello", 2: "hs.ServerHello", 3: "hs.HelloVerifyRequest", 4: "hs.NewSessionTicket", 8: "hs.EncryptedExtensions",
		11: "hs.Certificate", 12: "hs.ServerKeyExchange/" + kx, 13: "hs.CertificateRequest", 14: "hs.ServerHelloDone",
		15: "hs.CertificateVerify", 16: "hs.ClientKeyExchange/" + kx, 20: "hs.Finished", 24: "hs.KeyUpdate",
	}
	n, ok := names[typ]
	if !ok {
		return
	}
	if is13 && typ == 11 {
		n = "hs.Certificate13"
	}
	if is13 && typ == 13 {
		n = "hs.CertificateRequest13"
	}
	addSeed(n, body)
	if !(is13 && (typ == 11 || typ == 13)) {
		addSeed("hs.Handshake/"+kx, full)
	}
	addSeed("hs.Header", full[:12])
	// extensions inside hellos / encrypted extensions
	var exts []scen.Ext
	switch typ {
	case 1:
		if ch, ok := scen.ParseClientHello(body); ok {
			exts = ch.Exts
		}
	case 2:
		if sh, ok := scen.ParseServerHello(body); ok {
			exts = sh.Exts
		}
	}
	for _, e := range exts {
		for _, cn := range extByType[e.Type] {
			addSeed(cn, e.Data)
		}
		raw := append([]byte{byte(e.Type >> 8), byte(e.Type), byte(len(e.Data) >> 8), byte(len(e.Data))}, e.Data...)
		_ = raw
	}
}

func harvest() {
	type variant struct {
		c, s scen.EP
		kx   string
	}
	base := func() (scen.EP, scen.EP) {
		return scen.EP{RootCA: 1, ServerName: scen.ServerName}, scen.EP{Cert: "ecdsa"}
	}
	var vs []variant
	c, s := base()
	c.ALPN, s.ALPN = []string{"h2", "webrtc"}, []string{"webrtc"}
	c.SRTP, s.SRTP = []uint16{1, 2, 7}, []uint16{7, 1}
	c.MKI, s.MKI = []byte{1, 2}, []byte{1, 2}
	c.CID, s.CID = 4, 8
	c.Cert = "client-ecdsa"
	s.ClientAuth, s.ClientCAs = 4, true
	vs = append(vs, variant{c, s, "ecdhe"})
	c, s = base()
	s.Cert = "rsa"
	vs = append(vs, variant{c, s, "ecdhe"})
	vs = append(vs, variant{scen.EP{PSK: "seed-psk-001", PSKHint: "id", Suites: []uint16{0x00a8}}, scen.EP{PSK: "seed-psk-001", PSKHint: "hint", Suites: []uint16{0x00a8}}, "psk"})
	vs = append(vs, variant{scen.EP{PSK: "seed-psk-001", PSKHint: "id", Suites: []uint16{0xc037}}, scen.EP{PSK: "seed-psk-001", PSKHint: "hint", Suites: []uint16{0xc037}}, "ecdhe-psk"})
	c, s = base()
	c.MinVer, c.MaxVer, s.MinVer, s.MaxVer = 13, 13, 13, 13
	c.Curves, s.Curves = []uint16{0x1d, 0x17}, []uint16{0x1d, 0x17}
	c.ALPN, s.ALPN = []string{"h2"}, []string{"h2"}
	c.Cert = "client-ecdsa"
	s.ClientAuth, s.ClientCAs = 4, true
	c.CID, s.CID = 4, 4
	vs = append(vs, variant{c, s, "ecdhe"})
	for _, v := range vs {
		v := v
		var gens []scen.Gen13
		stop := scen.CaptureGens13(&gens)
		berr := pbt.Bubble(func() {
			env := scen.NewEnv()
			p := scen.NewPair(env, &v.c, &v.s)
			defer p.Close()
			p.Handshake(5 * time.Minute)
			if !(p.C.OK() && p.S.OK()) {
				seedErr += fmt.Sprintf("seed handshake failed: %v %v; ", p.C.Err(), p.S.Err())

				return
			}
			_, _, _ = p.Exchange([][]byte{[]byte("seed-data")}, [][]byte{[]byte("seed-reply")})
			is13 := v.c.MinVer == 13
			var dec *ref.Decoder
			if is13 {
				dec = scen.Decoder13(p, gens)
			} else {
				dec = scen.Decoder12(p, env)
			}
			asm := map[string]*hsAssembler{"C": {}, "S": {}}
			for _, ev := range p.Net.Events() {
				cidLen := 0
				if v.c.CID > 0 {
					cidLen = map[string]int{"C": v.s.CID, "S": v.c.CID}[ev.From]
				}
				recs, _ := scen.SplitDatagram(ev.Data, cidLen)
				for _, rc := range recs {
					switch rc.Kind {
					case "legacy":
						addSeed("record.Header", rc.Raw[:13])
						if rc.Epoch == 0 {
							addSeed("record.RecordLayer", rc.Raw)
							if is13 {
								addSeed("record.PlaintextRecord13", rc.Raw)
							}
						}
					case "cid":
						addSeed(fmt.Sprintf("record.Header/cid%d", cidLen), rc.Raw[:rc.HdrLen])
					case "unified":
						addSeed("record.CiphertextRecord13", rc.Raw)
						if cidLen == 4 {
							addSeed("record.CiphertextRecord13/cid4", rc.Raw)
							addSeed("record.UnifiedHeader/cid4", rc.Raw[:rc.HdrLen])
						} else {
							addSeed("record.UnifiedHeader", rc.Raw[:rc.HdrLen])
						}
					}
				}
				if dec == nil {
					continue
				}
				ds, _ := dec.Decode(ev.From, ev.Data, cidLen)
				for _, d := range ds {
					if !d.OK {
						continue
					}
					switch d.Type {
					case scen.CTHandshake:
						fr, _ := scen.SplitHandshake(d.Plain)
						for _, f := range fr {
							if body, typ, ok := asm[ev.From].push(f); ok {
								harvestMessage(v.kx, typ, f.MsgSeq, body, is13)
							}
						}
					case scen.CTAlert:
						addSeed("alert", d.Plain)
					case scen.CTACK:
						addSeed("ack", d.Plain)
					case scen.CTRRC:
						addSeed("rrc", d.Plain)
					}
					if d.Kind != "legacy" && d.Protect {
						ip := append(append([]byte(nil), d.Plain...), d.Type)
						ip = append(ip, make([]byte, d.Zeros)...)
						addSeed("record.InnerPlaintext", ip)
					}
				}
			}
		})
		stop()
		if berr != nil {
			seedErr += fmt.Sprintf("seed bubble: %v; ", berr.Value)
		}
	}
	// hand-made seeds for codecs that never appear in this tree's traffic
	addSeed("alert", []byte{2, 40})
	addSeed("alert", []byte{1, 0})
	addSeed("ccs", []byte{1})
	addSeed("rrc", append([]byte{0}, bytes.Repeat([]byte{7}, 8)...))
	addSeed("ack", []byte{0, 32, 0, 0, 0, 0, 0, 0, 0, 3, 0, 0, 0, 0, 0, 0, 0, 9, 0, 0, 0, 0, 0, 0, 0, 3, 0, 0, 0, 0, 0, 0, 0, 10})
	addSeed("ack", []byte{0, 0})
	addSeed("hs.KeyUpdate", []byte{0})
	addSeed("hs.KeyUpdate", []byte{1})
	addSeed("hs.RequestConnectionID", []byte{3})
	addSeed("hs.NewConnectionID", []byte{0, 7, 2, 0xaa, 0xbb, 3, 1, 2, 3, 0})
	addSeed("ext.Cookie", []byte{0, 3, 1, 2, 3})
	addSeed("ext.ALPNSelection", []byte{0, 3, 2, 'h', '2'})
	addSeed("ext.ALPNOffer", []byte{0, 9, 2, 'h', '2', 5, 'w', 'e', 'b', 'r', 't'})
	addSeed("ext.SRTPOffer", []byte{0, 4, 0, 1, 0, 7, 2, 9, 9})
	addSeed("ext.SRTPSelection", []byte{0, 2, 0, 1, 0})
	addSeed("ext.ServerNameOffer", []byte{0, 9, 0, 0, 6, 'a', '.', 't', 'e', 's', 't'})
	addSeed("ext.OfferedPSKs", []byte{0, 9, 0, 3, 'i', 'd', '1', 0, 0, 0, 1, 0, 33, 32, 1, 2, 3, 4, 5, 6, 7, 8, 9, 10, 11, 12, 13, 14, 15, 16, 17, 18, 19, 20, 21, 22, 23, 24, 25, 26, 27, 28, 29, 30, 31, 32})
	addSeed("ext.SelectedPSK", []byte{0, 0})
	addSeed("ext.PSKKeyExchangeModes", []byte{1, 1})
	addSeed("ext.CertificateAuthorities", []byte{0, 5, 0, 3, 0x30, 0x01, 0x00})
	addSeed("ext.OIDFilters", []byte{0, 6, 1, 0x55, 0, 2, 1, 2})
	addSeed("ext.MaxEarlyData", []byte{0, 0, 1, 0})
	addSeed("ext.RetryKeyShare", []byte{0, 0x1d})
	addSeed("ext.SelectedVersion", []byte{0xfe, 0xfc})
	addSeed("ext.Raw", []byte{1, 2, 3})
	// degenerate but once-accepted encodings found by the native fuzz targets (kept as seeds so that
	// the quick tier's sweep re-judges them and their neighbours)
	for _, kx := range []string{"ecdhe", "ecdhe-psk"} {
		addSeed("hs.ServerKeyExchange/"+kx, []byte{3, 0, 0x1d, 0})             // ECDH parameters with an empty public key
		addSeed("hs.ServerKeyExchange/"+kx, []byte{3, 0, 0x1d, 1, 0x41})       // one-byte key, anonymous
		addSeed("hs.ServerKeyExchange/"+kx, []byte{3, 0, 0x1d, 0, 4, 3, 0, 0}) // empty key, empty signature
	}
}

func ensureSeeds() {
	seedOnce.Do(func() {
		harvest()
		// hand the harvested encodings to the native fuzz targets (which have no *testing.T and
		// therefore no synctest bubble to harvest in) as their seed corpus
		if dir := os.Getenv("VERIF_OUT"); dir != "" && os.Getenv("VERIF_REPLAY") == "" {
			out := map[string][]string{}
			for n, l := range seeds {
				for _, b := range l {
					out[n] = append(out[n], hex.EncodeToString(b))
				}
			}
			if raw, err := json.Marshal(out); err == nil {
				_ = os.WriteFile(filepath.Join(dir, "c18-seeds.json"), raw, 0o644)
			}
		}
	})
}

// ---- properties --------------------------------------------------------------------------

// MutCase: one mutation of one seed of one codec.
type MutCase struct {
	Codec string `json:"codec"`
	Seed  string `json:"seed"` // hex of the seed encoding (self-contained replay)
	Kind  string `json:"kind"` // asis, trunc, extend, dec, inc, flip, random
	Pos   int    `json:"pos,omitempty"`
	Arg   int    `json:"arg,omitempty"`
}

func applyMutation(e []byte, c MutCase) (b []byte, mode string) {
	switch c.Kind {
	case "asis":
		return e, "raw"
	case "trunc":
		if len(e) == 0 {
			return e, "raw"
		}

		return e[:c.Pos%len(e)], "trunc"
	case "extend":
		n := 1 + c.Arg%8

		return append(append([]byte(nil), e...), bytes.Repeat([]byte{byte(c.Pos)}, n)...), "extend"
	case "lencut":
		// structure-aware truncation: find a length prefix that spans the rest of the input (8, 16 or 24 bit),
		// cut 1..n bytes off the tail and REPAIR that prefix, so that the outer length stays consistent and
		// whatever was cut through (a nested element) is left with a ragged end
		type pfx struct{ i, w int }
		var ps []pfx
		for i := 0; i < len(e); i++ {
			for w := 1; w <= 3 && i+w <= len(e); w++ {
				v := 0
				for k := 0; k < w; k++ {
					v = v<<8 | int(e[i+k])
				}
				if v == len(e)-i-w && v > 0 {
					ps = append(ps, pfx{i, w})
				}
			}
		}
		if len(ps) == 0 {
			return e, "raw"
		}
		p := ps[c.Pos%len(ps)]
		rest := len(e) - p.i - p.w
		cut := 1 + c.Arg%rest
		b = append([]byte(nil), e[:len(e)-cut]...)
		nv := rest - cut
		for k := p.w - 1; k >= 0; k-- {
			b[p.i+k] = byte(nv)
			nv >>= 8
		}

		return b, "raw"
	case "dec", "inc", "flip":
		if len(e) == 0 {
			return e, "raw"
		}
		b = append([]byte(nil), e...)
		i := c.Pos % len(e)
		switch c.Kind {
		case "dec":
			b[i] -= byte(1 + c.Arg%3)
		case "inc":
			b[i] += byte(1 + c.Arg%3)
		default:
			b[i] ^= 1 << (c.Arg % 8)
		}

		return b, "byte"
	default:
		x := uint32(c.Pos*2654435761 + c.Arg) //nolint:gosec
		b = make([]byte, c.Arg%64)
		for i := range b {
			x = x*1664525 + 1013904223
			b[i] = byte(x >> 24)
		}

		return b, "raw"
	}
}

func runMut(c MutCase, r *pbt.R) {
	cd := codecIdx[c.Codec]
	if cd == nil {
		return
	}
	seed, _ := hex.DecodeString(c.Seed)
	// canonicalise the seed first: mutants are derived from a canonical encoding
	base := checkBytes(cd, seed, "raw", nil, r)
	if r.Failed() {
		return
	}
	if !base.accepted {
		r.Class("seed-rejected:" + c.Codec)
		if c.Kind != "random" {
			return
		}
	}
	e := base.b1
	if c.Kind == "random" {
		e = seed
	}
	b, mode := applyMutation(e, c)
	res := checkBytes(cd, b, mode, e, r)
	cls := "rejected"
	if res.accepted {
		cls = "accepted"
	}
	r.Eval(fmt.Sprintf("%s|%s|%d|%d|%x", c.Codec, c.Kind, c.Pos, c.Arg, seed), c.Kind != "asis" && len(b) > 0, c.Codec, c.Kind+":"+cls)
}

func genMut(t *rapid.T) MutCase {
	ensureSeeds()
	names := make([]string, 0, len(seeds))
	for n := range seeds {
		if len(seeds[n]) > 0 && codecIdx[n] != nil {
			names = append(names, n)
		}
	}
	sort.Strings(names)
	n := rapid.SampledFrom(names).Draw(t, "codec")
	sd := rapid.SampledFrom(seeds[n]).Draw(t, "seed")
	c := MutCase{Codec: n, Seed: hex.EncodeToString(sd)}
	c.Kind = rapid.SampledFrom([]string{"asis", "trunc", "trunc", "extend", "dec", "dec", "inc", "flip", "random", "lencut", "lencut"}).Draw(t, "kind")
	c.Pos = rapid.IntRange(0, 4096).Draw(t, "pos")
	c.Arg = rapid.IntRange(0, 255).Draw(t, "arg")
	if c.Kind == "lencut" {
		c.Arg = rapid.IntRange(0, 1<<16).Draw(t, "cut")
	}

	return c
}

// enumMut: for every seed of every codec: every truncation, every single-byte decrement and
// increment, and a few extensions.
func enumMut(tier string, yield func(MutCase) bool) {
	ensureSeeds()
	names := make([]string, 0, len(seeds))
	for n := range seeds {
		names = append(names, n)
	}
	sort.Strings(names)
	perCodec := 6
	if tier == "thorough" {
		perCodec = 40
	}
	for _, n := range names {
		if codecIdx[n] == nil {
			continue
		}
		for si, sd := range seeds[n] {
			if si >= perCodec {
				break
			}
			hx := hex.EncodeToString(sd)
			lim := len(sd)
			if tier != "thorough" && lim > 300 {
				lim = 300
			}
			if !yield(MutCase{Codec: n, Seed: hx, Kind: "asis"}) {
				return
			}
			for i := 0; i < lim; i++ {
				for _, k := range []string{"trunc", "dec", "inc"} {
					if !yield(MutCase{Codec: n, Seed: hx, Kind: k, Pos: i}) {
						return
					}
				}
			}
			for a := 0; a < 3; a++ {
				if !yield(MutCase{Codec: n, Seed: hx, Kind: "extend", Pos: a * 85, Arg: a}) {
					return
				}
			}
			// every spanning length prefix (at most 8 of them) x every cut length up to 1500
			for pi := 0; pi < 8; pi++ {
				for cut := 0; cut < 1500 && cut < len(sd); cut++ {
					if !yield(MutCase{Codec: n, Seed: hx, Kind: "lencut", Pos: pi, Arg: cut}) {
						return
					}
				}
			}
		}
	}
}

// ValCase: a generated value of a codec (by index into the rapid bit stream; replay re-draws).
type ValCase struct {
	Codec string `json:"codec"`
	Enc   string `json:"enc"` // hex of Marshal(value): the replayable part
	// Weak: the value may lie outside the codec's wire domain (no domain predicate): the encoding
	// need not be accepted, but if it is, it must re-encode identically.
	Weak bool `json:"weak,omitempty"`
}

func normalize(v reflect.Value) {
	switch v.Kind() {
	case reflect.Ptr, reflect.Interface:
		if !v.IsNil() {
			normalize(v.Elem())
		}
	case reflect.Struct:
		for i := 0; i < v.NumField(); i++ {
			if v.Field(i).CanSet() {
				normalize(v.Field(i))
			}
		}
	case reflect.Slice:
		if v.Len() == 0 && !v.IsNil() && v.CanSet() {
			v.Set(reflect.Zero(v.Type()))

			return
		}
		for i := 0; i < v.Len(); i++ {
			normalize(v.Index(i))
		}
	}
}

func runValBytes(c ValCase, r *pbt.R) {
	cd := codecIdx[c.Codec]
	if cd == nil {
		return
	}
	enc, _ := hex.DecodeString(c.Enc)
	v := cd.fresh()
	err, p, st := safely(func() error { return cd.unmarshal(v, enc) })
	if p != nil {
		r.Failf(pbt.PanicSig("C18|"+cd.name, st), "Unmarshal(Marshal(v)) panicked: %v", p)

		return
	}
	if c.Weak {
		// value possibly outside the wire domain: only rule 2 applies to its encoding
		checkBytes(cd, enc, "raw", nil, r)

		return
	}
	if err != nil && cd.ctxRules {
		r.Class("refused-by-context-rules")

		return
	}
	if err != nil {
		r.Failf("C18|"+cd.name+"|own-encoding-rejected", "Marshal produced %x which Unmarshal rejects: %v", enc, err)

		return
	}
	b1, err := cd.marshal(v)
	if err != nil || !bytes.Equal(b1, enc) {
		r.Failf("C18|"+cd.name+"|roundtrip-changes-encoding", "Marshal(v)=%x but Marshal(Unmarshal(Marshal(v)))=%x (%v)", enc, b1, err)
	}
}

// IsoCase: two encodings of one codec decoded one after the other; what was decoded first must not change.
type IsoCase struct {
	Codec string `json:"codec"`
	Enc1  string `json:"enc1"`
	Enc2  string `json:"enc2"`
}

func runIso(c IsoCase, r *pbt.R) {
	cd := codecIdx[c.Codec]
	if cd == nil {
		return
	}
	e1, _ := hex.DecodeString(c.Enc1)
	e2, _ := hex.DecodeString(c.Enc2)
	d1 := cd.fresh()
	if err, p, _ := safely(func() error { return cd.unmarshal(d1, e1) }); err != nil || p != nil {
		r.Class("first-rejected")

		return
	}
	m1, err := cd.marshal(d1)
	if err != nil {
		r.Class("first-does-not-re-encode")

		return
	}
	d2 := cd.fresh()
	_, _, _ = safely(func() error { return cd.unmarshal(d2, e2) })
	m1b, err := cd.marshal(d1)
	if err != nil || !bytes.Equal(m1, m1b) {
		r.Failf("C18|"+cd.name+"|decoded-value-changed-by-later-decode", "value decoded from %x re-encoded to %x; after ANOTHER input (%x) was decoded into a fresh value it re-encodes to %x (%v): decoded values share state", e1, m1, e2, m1b, err)

		return
	}
	r.Eval(c.Codec+"|"+c.Enc1+"|"+c.Enc2, !bytes.Equal(e1, e2), c.Codec)
}

func genIso(t *rapid.T) IsoCase {
	var withGen []*codec
	for _, cd := range codecs {
		if cd.gen != nil {
			withGen = append(withGen, cd)
		}
	}
	cd := withGen[rapid.IntRange(0, len(withGen)-1).Draw(t, "codec")]
	enc := func(label string) string {
		for i := 0; i < 30; i++ {
			v := cd.gen(t)
			if cd.domain != nil && !cd.domain(v) {
				continue
			}
			var b []byte
			if err, p, _ := safely(func() error {
				var e error
				b, e = cd.marshal(v)

				return e
			}); err == nil && p == nil {
				return hex.EncodeToString(b)
			}
		}

		return ""
	}

	return IsoCase{Codec: cd.name, Enc1: enc("a"), Enc2: enc("b")}
}

func init() {
	pbt.Register(pbt.Prop[IsoCase]{
		Name: "decode-isolation", Quick: 6000, Thorough: 300000, Gen: genIso, Run: runIso,
		Rule: "two generated values of one codec (every codec with a value generator, hellos with generated extension lists among them) are encoded; the first is decoded and re-encoded, " +
			"the second is decoded into a fresh value, the first is re-encoded again: the two re-encodings must be equal (decoded values own their state). " +
			"non-trivial = the two encodings differ; distinct = (codec, both encodings)",
	})
	pbt.Register(pbt.Prop[MutCase]{
		Name: "mutated-encodings", Quick: 120000, Thorough: 4000000, Gen: genMut, Run: runMut,
		Rule: "seed encodings of ~70 codecs (harvested from genuine DTLS 1.2/1.3 traffic through the independent decoder, plus hand-made ones) x mutation (as is, truncation, " +
			"extension, one byte decremented/incremented/flipped, random bytes); rules: no panic; an accepted input re-encodes, the re-encoding is accepted and is a fixed point; " +
			"a strict prefix of a valid encoding is rejected or is itself complete; bytes after an outermost declared length are never consumed; after a one-byte change the " +
			"re-encoding must be a prefix of the input (declared lengths honoured). non-trivial = mutated, non-empty input; distinct = (codec, seed, mutation)",
	})
	pbt.Register(pbt.Prop[MutCase]{
		Name: "mutation-sweep", Enum: enumMut, Exhaustive: true, Run: runMut,
		Rule: "SWEEP: for the first 6 (thorough 40) seeds of every codec: every truncation point and every single-byte decrement/increment (first 300 bytes in quick), three extensions; same rules",
	})
	for _, cd := range codecs {
		if cd.gen == nil {
			continue
		}
		cd := cd
		pbt.Register(pbt.Prop[ValCase]{
			Name: "value-roundtrip:" + cd.name, Quick: 1500, Thorough: 60000,
			Gen: func(t *rapid.T) ValCase {
				for {
					v := cd.gen(t)
					if cd.domain != nil && !cd.domain(v) {
						if rapid.IntRange(0, 200).Draw(t, "giveupdom") == 0 {
							return ValCase{Codec: cd.name, Enc: "", Weak: true}
						}

						continue // outside the wire-representable domain: draw again
					}
					var enc []byte
					err, p, _ := safely(func() error {
						var e error
						enc, e = cd.marshal(v)

						return e
					})
					if p != nil {
						return ValCase{Codec: cd.name, Enc: "panic:" + fmt.Sprint(p)}
					}
					if err != nil {
						if rapid.IntRange(0, 20).Draw(t, "giveup") == 0 {
							return ValCase{Codec: cd.name, Enc: "", Weak: true}
						}

						continue
					}
					if cd.domain == nil {
						return ValCase{Codec: cd.name, Enc: hex.EncodeToString(enc), Weak: true}
					}
					// value equality (nil and empty slices identified)
					v2 := cd.fresh()
					if err, p, _ := safely(func() error { return cd.unmarshal(v2, enc) }); err == nil && p == nil {
						normalize(reflect.ValueOf(v))
						normalize(reflect.ValueOf(v2))
						if !reflect.DeepEqual(v, v2) {
							j1, _ := json.Marshal(v)
							j2, _ := json.Marshal(v2)

							return ValCase{Codec: cd.name, Enc: fmt.Sprintf("neq:%x|%+v|%+v|%s|%s", enc, v, v2, j1, j2)}
						}
					}

					return ValCase{Codec: cd.name, Enc: hex.EncodeToString(enc)}
				}
			},
			Run: func(c ValCase, r *pbt.R) {
				switch {
				case len(c.Enc) > 6 && c.Enc[:6] == "panic:":
					r.Failf("C18|"+cd.name+"|marshal-panics", "Marshal of a generated value panicked: %s", c.Enc)
				case len(c.Enc) > 4 && c.Enc[:4] == "neq:":
					r.Failf("C18|"+cd.name+"|roundtrip-changes-value", "Unmarshal(Marshal(v)) != v: %s", c.Enc[:min(len(c.Enc), 2400)])
				case c.Enc == "":
					r.Class("marshal-rejects-generated-values")

					return
				default:
					runValBytes(c, r)
				}
				r.NonTrivial()
			},
			Rule: "rapid.Make-generated values of " + cd.name + ": Unmarshal(Marshal(v)) equals v (nil/empty slices identified) and re-encodes identically",
		})
	}
}
