package c03

import (
	"crypto"
	"crypto/tls"
	"crypto/x509"
	"errors"
	"fmt"
	"io"
	"os"
	"strings"
	"sync"
	"testing"
	"time"

	dtls "github.com/pion/dtls/v3"
	dtlsflight "github.com/pion/dtls/v3/internal/flight"
	dtlshandshake "github.com/pion/dtls/v3/internal/handshake"
	"github.com/pion/dtls/v3/internal/zzverif/lib/pbt"
	"github.com/pion/dtls/v3/internal/zzverif/lib/scen"
	"github.com/pion/dtls/v3/pkg/protocol"
	"github.com/pion/dtls/v3/pkg/protocol/handshake"
	"github.com/pion/dtls/v3/pkg/protocol/recordlayer"
	"pgregory.net/rapid"
)

func TestMain(m *testing.M) { pbt.Main(m, "C03") }

func TestProps(t *testing.T) { pbt.RunAll(t) }

func TestReplay(t *testing.T) { pbt.Replay(t) }

// Case: an honest endpoint with a policy, and a rogue peer with one deviation.
type Case struct {
	Ver    int    `json:"ver"`    // 12 | 13
	Rogue  string `json:"rogue"`  // which side deviates: "C" or "S"
	Family string `json:"family"` // ecdsa, ed25519, rsa, psk
	// honest server: client-auth policy 0..4 ; honest client: verification mode
	Policy int    `json:"policy"`
	Verify string `json:"verify"` // client: roots, callback, verifyconn
	Dev    string `json:"dev"`
	MTU    int    `json:"mtu,omitempty"`
	CID    int    `json:"cid,omitempty"`
	// PSK family: cipher suite (0 = TLS_PSK_WITH_AES_128_GCM_SHA256) and the shape of the wrong key
	// (0 other content and length, 1 same length other content, 2 proper prefix, 3 one bit flipped)
	PSKSuite uint16 `json:"psksuite,omitempty"`
	WrongPSK int    `json:"wrongpsk,omitempty"`
	// UName: the honest client wants the server "db_primary.server.test" (an underscore: not an RFC 1123 host
	// name, but what x509 matches against DNS SANs); the genuine server holds a certificate for exactly that name
	UName bool `json:"uname,omitempty"`
}

// deviations of a rogue CLIENT (honest server) and whether they mean "lacks the credential" under a policy
var clientDevs = []string{"none", "no-cert", "untrusted-ca", "expired", "mismatched-key", "drop-certificate", "drop-certverify", "drop-both", "corrupt-signature", "empty-chain", "substitute-chain", "abandon-then-resume", "ack-instead-of-flight"}

// deviations of a rogue SERVER (honest client)
var serverDevs = []string{"none", "untrusted-ca", "wrong-name", "expired", "mismatched-key", "drop-certificate", "drop-certverify", "drop-both", "corrupt-signature", "empty-chain", "substitute-chain", "drop-ske", "wrong-psk", "name-is-ip"}

// mustReject says whether the honest side must refuse the rogue under its policy.
// third value: applicable (false = this cell does not exist for the version/family).
func mustReject(c *Case) (reject, applicable bool) {
	if c.Dev == "none" {
		return false, true
	}
	if c.Family == "psk" {
		return c.Dev == "wrong-psk", c.Dev == "wrong-psk"
	}
	if c.Dev == "wrong-psk" {
		return false, false
	}
	if c.Rogue == "C" {
		requested := c.Policy >= 1
		switch c.Dev {
		case "no-cert", "drop-both":
			return c.Policy == 2 || c.Policy == 4, true
		case "ack-instead-of-flight":
			// DTLS 1.3: the client answers the server's flight with one (properly protected) ACK record that
			// acknowledges every record of it, and never sends Certificate, CertificateVerify or Finished
			return c.Policy == 2 || c.Policy == 4, c.Ver == 13
		case "abandon-then-resume":
			// a history of two connections sharing the server's session store (DTLS 1.2): the first sends its
			// ClientKeyExchange and nothing else - no Certificate, no Finished - and walks away; the second offers
			// the session the first one would have got. It never presented a certificate.
			return c.Policy == 2 || c.Policy == 4, c.Ver == 12
		case "untrusted-ca", "expired":
			return c.Policy >= 3, requested
		case "mismatched-key", "corrupt-signature", "drop-certificate", "drop-certverify", "substitute-chain":
			return requested, requested
		case "empty-chain":
			return c.Policy == 2 || c.Policy == 4, requested
		}

		return false, false
	}
	// rogue server
	verifies := c.Verify != "none"
	switch c.Dev {
	case "untrusted-ca", "wrong-name", "expired":
		return verifies, true
	case "name-is-ip":
		// the client wants the server at an IP address (ServerName "192.0.2.10", roots configured); the server's
		// certificate is a genuine CA-issued one for a DNS name and does not list that address
		return true, c.Verify == "roots"
	case "mismatched-key", "corrupt-signature", "drop-certificate", "drop-both", "empty-chain", "substitute-chain":
		return true, true
	case "drop-certverify":
		return true, c.Ver == 13
	case "drop-ske":
		return true, c.Ver == 12
	}

	return false, false
}

const psk = "auth-psk-key-00001"

func epsFor(c *Case) (cl, sv scen.EP) {
	cl = scen.EP{RootCA: 1, ServerName: scen.ServerName}
	sv = scen.EP{Cert: c.Family}
	if c.Family == "psk" {
		su := c.PSKSuite
		if su == 0 {
			su = 0x00a8
		}
		cl = scen.EP{PSK: psk, PSKHint: "id", Suites: []uint16{su}}
		sv = scen.EP{PSK: psk, PSKHint: "hint", Suites: []uint16{su}}
	}
	if c.Ver == 13 {
		cl.MinVer, cl.MaxVer, sv.MinVer, sv.MaxVer = 13, 13, 13, 13
		cl.Curves, sv.Curves = []uint16{0x1d}, []uint16{0x1d}
	}
	cl.MTU, sv.MTU = c.MTU, c.MTU
	if c.CID > 0 {
		cl.CID, sv.CID = c.CID, c.CID
	}
	if c.Family == "psk" {
		if c.Dev == "wrong-psk" {
			wrong := "some-other-psk-key"
			switch c.WrongPSK {
			case 1:
				wrong = "AUTH-PSK-KEY-99999" // same length as the right key
			case 2:
				wrong = psk[:len(psk)-1]
			case 3:
				wrong = psk[:5] + string(rune(psk[5]^1)) + psk[6:]
			}
			if c.Rogue == "C" {
				cl.PSK = wrong
			} else {
				sv.PSK = wrong
			}
		}

		return cl, sv
	}
	if c.Rogue == "C" {
		sv.ClientAuth = c.Policy
		sv.ClientCAs = true
		cl.Cert = "client-ecdsa"
		switch c.Dev {
		case "no-cert":
			cl.Cert = ""
		case "untrusted-ca":
			cl.Cert = "client-untrusted"
		case "expired":
			cl.Cert = "client-expired"
		case "mismatched-key":
			cl.Cert = "client-mismatch"
		}
	} else {
		switch c.Verify {
		case "none":
			cl.RootCA, cl.ServerName, cl.NoVerify = 0, "", true
		case "callback", "verifyconn":
			cl.RootCA, cl.ServerName, cl.NoVerify = 0, "", true
		}
		if c.UName && c.Family == "ecdsa" && c.Verify == "roots" {
			cl.ServerName = scen.UnderscoreName
			sv.Cert = "ecdsa-uscore"
		}
		switch c.Dev {
		case "name-is-ip":
			cl.ServerName = "192.0.2.10"
		case "untrusted-ca":
			sv.Cert = "untrusted"
		case "wrong-name":
			sv.Cert = "wrongname"
		case "expired":
			sv.Cert = "expired"
		case "mismatched-key":
			sv.Cert = "mismatch"
		}
	}

	return cl, sv
}

type flipSigner struct{ crypto.Signer }

func (f flipSigner) Sign(rand io.Reader, digest []byte, opts crypto.SignerOpts) ([]byte, error) {
	sig, err := f.Signer.Sign(rand, digest, opts)
	if err == nil && len(sig) > 4 {
		sig[len(sig)/2] ^= 0x01
	}

	return sig, err
}

// rewrite applies a message-level deviation to a freshly generated flight of the rogue side.
func rewrite(c *Case, applied *bool) func(info dtlshandshake.VerifFlightInfo, pkts []*dtlsflight.Packet) []*dtlsflight.Packet {
	return func(info dtlshandshake.VerifFlightInfo, pkts []*dtlsflight.Packet) []*dtlsflight.Packet {
		if info.IsClient != (c.Rogue == "C") {
			return pkts
		}
		var out []*dtlsflight.Packet
		if c.Dev == "ack-instead-of-flight" {
			if !info.Is13 || info.Flight != "Flight 5" {
				return pkts
			}
			ack := &protocol.ACK{}
			for seq := uint64(0); seq < 4; seq++ {
				ack.Records = append(ack.Records, protocol.RecordNumber{Epoch: 0, SequenceNumber: seq})
			}
			for seq := uint64(0); seq < 16; seq++ {
				ack.Records = append(ack.Records, protocol.RecordNumber{Epoch: 2, SequenceNumber: seq})
			}
			*applied = true

			return []*dtlsflight.Packet{{
				Record:        &recordlayer.RecordLayer{Header: recordlayer.Header{Version: protocol.Version1_2, Epoch: 2}, Content: ack},
				ShouldEncrypt: true,
			}}
		}
		if c.Dev == "abandon-then-resume" {
			for _, p := range pkts {
				if h, ok := p.Record.Content.(*handshake.Handshake); ok && h.Message.Type() == handshake.TypeClientKeyExchange {
					out = append(out, p)
					*applied = true
				}
			}
			if len(out) > 0 {
				return out
			}

			return pkts
		}
		for _, p := range pkts {
			h, ok := p.Record.Content.(*handshake.Handshake)
			if !ok {
				out = append(out, p)

				continue
			}
			typ := h.Message.Type()
			isCert := typ == handshake.TypeCertificate
			isCV := typ == handshake.TypeCertificateVerify
			isSKE := typ == handshake.TypeServerKeyExchange
			switch c.Dev {
			case "drop-certificate":
				if isCert {
					*applied = true

					continue
				}
			case "drop-certverify":
				if isCV {
					*applied = true

					continue
				}
			case "drop-both":
				if isCert || isCV {
					*applied = true

					continue
				}
			case "drop-ske":
				if isSKE {
					*applied = true

					continue
				}
			case "corrupt-signature":
				switch m := h.Message.(type) {
				case *handshake.MessageCertificateVerify:
					if len(m.Signature) > 4 {
						m.Signature[len(m.Signature)/2] ^= 0x01
						*applied = true
					} else if p.CertificateVerifySigner != nil {
						p.CertificateVerifySigner = flipSigner{p.CertificateVerifySigner}
						*applied = true
					}
				case *handshake.MessageServerKeyExchange:
					if len(m.Signature) > 4 {
						m.Signature[len(m.Signature)/2] ^= 0x01
						*applied = true
					}
				}
			case "empty-chain":
				switch m := h.Message.(type) {
				case *handshake.MessageCertificate:
					m.Certificate = nil
					*applied = true
				case *handshake.MessageCertificate13:
					m.CertificateList = nil
					*applied = true
				}
			case "substitute-chain":
				other := "ecdsa2"
				if c.Rogue == "C" {
					other = "client-ed25519"
				}
				chain := scen.GetCreds().ChainDER(other)
				switch m := h.Message.(type) {
				case *handshake.MessageCertificate:
					m.Certificate = chain
					*applied = true
				case *handshake.MessageCertificate13:
					var l []handshake.CertificateEntry13
					for _, der := range chain {
						l = append(l, handshake.CertificateEntry13{CertificateData: der})
					}
					m.CertificateList = l
					*applied = true
				}
			}
			out = append(out, p)
		}

		return out
	}
}

var hookMu sync.Mutex

func run(c Case, r *pbt.R) {
	reject, applicable := mustReject(&c)
	if !applicable {
		r.Class("not-applicable")

		return
	}
	type outcome struct {
		honestOK, rogueOK bool
		honestRead        int
		honestPeerCerts   int
		applied           bool
		herr, rerr        error
		storedSessions    int
	}
	attempt := func(cc Case) (o outcome, berr *pbt.BubbleError) {
		hookMu.Lock()
		defer hookMu.Unlock()
		applied := false
		configLevel := map[string]bool{"none": true, "no-cert": true, "untrusted-ca": true, "wrong-name": true, "expired": true, "mismatched-key": true, "wrong-psk": true, "name-is-ip": true}
		if !configLevel[cc.Dev] {
			dtlshandshake.VerifFlightHook = rewrite(&cc, &applied)
		} else {
			applied = cc.Dev != "none"
		}
		defer func() { dtlshandshake.VerifFlightHook = nil }()
		berr = pbt.Bubble(func() {
			cEP, sEP := epsFor(&cc)
			env := scen.NewEnv()
			env.Log = &scen.LogSink{Keep: os.Getenv("VERIF_DEBUG") != ""}
			if cc.Rogue == "S" && cc.Family != "psk" {
				switch cc.Verify {
				case "callback":
					env.ExtraClient = append(env.ExtraClient, dtls.WithVerifyPeerCertificate(verifyCallback))
				case "verifyconn":
					env.ExtraClient = append(env.ExtraClient, dtls.WithVerifyConnection(func(st *dtls.State) error { return verifyCallback(st.PeerCertificates, nil) }))
				}
			}
			if cc.Rogue == "C" && cEP.Cert != "" && cc.Family != "psk" {
				// a rogue presents its certificate whatever the CertificateRequest says (the library's own
				// selection would withhold a chain the server's CA list excludes): use the documented callback
				cert, _ := scen.GetCreds().Leaf(cEP.Cert)
				cEP.Cert = ""
				env.ExtraClient = append(env.ExtraClient, dtls.WithGetClientCertificate(func(*dtls.CertificateRequestInfo) (*tls.Certificate, error) { return &cert, nil }))
			}
			if c.Dev == "abandon-then-resume" {
				cEP.Store, sEP.Store = "rogue-client", "server"
			}
			p := scen.NewPair(env, &cEP, &sEP)
			defer p.Close()
			if p.C.CtorErr != nil || p.S.CtorErr != nil {
				o.herr = fmt.Errorf("ctor: %v %v", p.C.CtorErr, p.S.CtorErr)

				return
			}
			if cc.Dev == "abandon-then-resume" {
				// first connection: abandoned after the ClientKeyExchange; the server gives up at its deadline
				p.Handshake(40 * time.Second)
				if p.S.OK() {
					o.honestOK, o.herr = true, nil

					return
				}
				p.Close()
				scen.Settle()
				dtlshandshake.VerifFlightHook = nil
				// the rogue computed the master secret itself; the harness takes the server's copy instead
				env2 := scen.NewEnv()
				env2.Log = env.Log
				env2.Stores = env.Stores
				for _, se := range env.Store("server").Snapshot() {
					_ = env.Store("rogue-client").Set([]byte("S_"+cEP.ServerName), dtls.Session{ID: se.ID, Secret: se.Secret})
					o.storedSessions++
				}
				cEP2 := cEP
				cEP2.Cert = ""
				p2 := scen.NewPair(env2, &cEP2, &sEP)
				defer p2.Close()
				p = p2
			}
			p.Handshake(5 * time.Minute)
			honest, rogue := p.S, p.C
			if cc.Rogue == "S" {
				honest, rogue = p.C, p.S
			}
			o.honestOK, o.rogueOK = honest.OK(), rogue.OK()
			o.herr, o.rerr = honest.Err(), rogue.Err()
			if o.honestOK {
				honest.StartReader()
				if st, ok := honest.Conn.ConnectionState(); ok {
					o.honestPeerCerts = len(st.PeerCertificates)
				}
			}
			if o.rogueOK {
				// the rogue writes as soon as it can: nothing of it may ever be delivered
				_, _ = rogue.Conn.Write([]byte("ROGUE-APPLICATION-DATA"))
			}
			scen.Settle()
			time.Sleep(2 * time.Second)
			scen.Settle()
			o.honestRead = len(honest.ReadLog())
			if os.Getenv("VERIF_DEBUG") != "" {
				fmt.Println(p.Dump())
				fmt.Println(strings.Join(env.Log.Lines, "\n"))
			}
		})
		o.applied = applied

		return o, berr
	}
	// control: the same configuration without the deviation must succeed
	ctl := c
	ctl.Dev = "none"
	co, berr := attempt(ctl)
	if berr != nil {
		r.Failf(pbt.PanicSig("C03", []byte(berr.Stack)), "control bubble: %v", berr.Value)

		return
	}
	if !(co.honestOK && co.rogueOK) {
		r.Failf("C03|harness|control-failed", "control (no deviation) does not succeed: honest=%v rogue=%v (%+v)", co.herr, co.rerr, c)

		return
	}
	if c.Dev == "none" {
		r.Class("control")

		return
	}
	o, berr := attempt(c)
	if berr != nil {
		if berr.Deadlock {
			r.Failf("C03|bubble-deadlock", "goroutines left blocked: %v", berr.Value)
		} else {
			r.Failf(pbt.PanicSig("C03", []byte(berr.Stack)), "panic: %v\n%s", berr.Value, berr.Stack)
		}

		return
	}
	ver := map[int]string{12: "dtls12", 13: "dtls13"}[c.Ver]
	who := map[string]string{"C": "client", "S": "server"}[c.Rogue]
	if !o.applied {
		r.Class("deviation-not-applied")

		return
	}
	if reject && c.Rogue == "C" && c.Policy == 3 && o.honestOK && o.honestPeerCerts == 0 {
		// verify-if-given and nothing was given after all: allowed
		r.Class("verify-if-given:nothing-given")

		return
	}
	if c.Dev == "abandon-then-resume" {
		r.Classf("abandoned-handshake-left-sessions=%d", min(o.storedSessions, 2))
	}
	if reject {
		if o.honestOK {
			r.Failf(fmt.Sprintf("C03|%s|rogue-%s:%s|accepted", ver, who, c.Dev), "the honest side reports a successful handshake although the %s %s (policy=%d verify=%q family=%s)", who, describeDev(c.Dev), c.Policy, c.Verify, c.Family)

			return
		}
		if o.honestRead > 0 {
			r.Failf(fmt.Sprintf("C03|%s|rogue-%s:%s|data-delivered", ver, who, c.Dev), "application data of the rogue was delivered")

			return
		}
		r.NonTrivial()
		r.Class("rejected")
	} else {
		// the policy does not require the credential: success is allowed (and expected on a perfect network)
		if o.honestOK {
			r.Class("allowed-and-accepted")
		} else {
			r.Class("allowed-but-refused")
		}
	}
	r.Key(fmt.Sprintf("%d|%s|%s|%d|%s|%s|%v", c.Ver, c.Rogue, c.Family, c.Policy, c.Verify, c.Dev, c.UName))
	r.Class(ver + "/rogue-" + who)
}

func describeDev(d string) string {
	return map[string]string{
		"no-cert": "presented no certificate", "untrusted-ca": "presented a chain from an untrusted CA", "expired": "presented an expired certificate",
		"wrong-name": "presented a certificate for another name", "mismatched-key": "signed with a key that does not belong to its certificate",
		"drop-certificate": "omitted its Certificate message", "drop-certverify": "omitted its CertificateVerify", "drop-both": "omitted Certificate and CertificateVerify",
		"corrupt-signature": "sent a corrupted signature", "empty-chain": "sent an empty certificate list", "substitute-chain": "substituted another chain after signing",
		"drop-ske": "omitted its ServerKeyExchange", "wrong-psk": "does not know the pre-shared key",
		"name-is-ip":          "presented a certificate that does not cover the IP address the client asked for",
		"abandon-then-resume": "never presented a certificate: it abandoned a first handshake after its ClientKeyExchange and then resumed the session the server had already stored",
	}[d]
}

var errRejected = errors.New("verif: certificate rejected by callback")

// verifyCallback is the honest client's own verification when it uses InsecureSkipVerify +
// VerifyPeerCertificate / VerifyConnection: the leaf must be exactly the server's genuine one.
func verifyCallback(rawCerts [][]byte, _ [][]*x509.Certificate) error {
	want := scen.GetCreds()
	for _, name := range []string{"ecdsa", "ed25519", "rsa"} {
		if ch := want.ChainDER(name); len(rawCerts) > 0 && len(ch) > 0 && string(rawCerts[0]) == string(ch[0]) {
			return nil
		}
	}

	return errRejected
}

func gen(t *rapid.T) Case {
	c := Case{Ver: rapid.SampledFrom([]int{12, 12, 13}).Draw(t, "ver"), Rogue: rapid.SampledFrom([]string{"C", "S"}).Draw(t, "rogue")}
	fams := []string{"ecdsa", "ecdsa", "ed25519", "rsa", "psk"}
	if c.Ver == 13 {
		fams = []string{"ecdsa", "ed25519"}
	}
	c.Family = rapid.SampledFrom(fams).Draw(t, "family")
	c.Policy = rapid.IntRange(0, 4).Draw(t, "policy")
	c.Verify = rapid.SampledFrom([]string{"roots", "roots", "callback", "verifyconn", "none"}).Draw(t, "verify")
	if c.Rogue == "C" {
		c.Dev = rapid.SampledFrom(clientDevs).Draw(t, "dev")
		c.Verify = "roots"
	} else {
		c.Dev = rapid.SampledFrom(serverDevs).Draw(t, "dev")
		c.Policy = 0
	}
	if c.Family == "psk" {
		c.Dev = rapid.SampledFrom([]string{"none", "wrong-psk"}).Draw(t, "pskdev")
		c.PSKSuite = rapid.SampledFrom([]uint16{0x00a8, 0xccab, 0xc0a8, 0xc037, 0x00ae}).Draw(t, "psksuite")
		c.WrongPSK = rapid.IntRange(0, 3).Draw(t, "wrongpsk")
	}
	c.UName = rapid.IntRange(0, 3).Draw(t, "uname") == 0
	if rapid.IntRange(0, 2).Draw(t, "mtu") == 0 {
		c.MTU = rapid.IntRange(150, 800).Draw(t, "mtuv")
	}
	if rapid.IntRange(0, 2).Draw(t, "cid") == 0 {
		c.CID = rapid.IntRange(1, 8).Draw(t, "cidv")
	}

	return c
}

func enumGrid(_ string, yield func(Case) bool) {
	for _, ver := range []int{12, 13} {
		fams := []string{"ecdsa", "ed25519", "rsa"}
		if ver == 13 {
			fams = []string{"ecdsa", "ed25519"}
		}
		for _, fam := range fams {
			for pol := 0; pol <= 4; pol++ {
				for _, dev := range clientDevs {
					if !yield(Case{Ver: ver, Rogue: "C", Family: fam, Policy: pol, Verify: "roots", Dev: dev}) {
						return
					}
				}
			}
			for _, vf := range []string{"roots", "callback", "verifyconn", "none"} {
				for _, dev := range serverDevs {
					if !yield(Case{Ver: ver, Rogue: "S", Family: fam, Verify: vf, Dev: dev}) {
						return
					}
				}
			}
		}
	}
	// server names that are not RFC 1123 host names
	for _, ver := range []int{12, 13} {
		for _, dev := range []string{"none", "wrong-name", "untrusted-ca", "expired"} {
			if !yield(Case{Ver: ver, Rogue: "S", Family: "ecdsa", Verify: "roots", Dev: dev, UName: true}) {
				return
			}
		}
	}
	for _, rogue := range []string{"C", "S"} {
		for _, su := range []uint16{0x00a8, 0xccab, 0xc0a8, 0xc037, 0x00ae} {
			for w := 0; w <= 3; w++ {
				if !yield(Case{Ver: 12, Rogue: rogue, Family: "psk", Dev: "wrong-psk", PSKSuite: su, WrongPSK: w}) {
					return
				}
			}
		}
	}
}

func init() {
	rule := "honest endpoint (server: 5 client-auth policies; client: roots+name / InsecureSkipVerify+VerifyPeerCertificate / VerifyConnection / no verification) x credential family x version, " +
		"against a rogue peer with ONE deviation: configuration-level (untrusted CA, wrong name, expired, certificate A with key B, no certificate, wrong PSK) or message-level through the flight hook " +
		"(drop Certificate / CertificateVerify / both / ServerKeyExchange, corrupt the signature, empty list, substitute the chain after signing); every case is paired with its control (no deviation must succeed). " +
		"oracle from the documented policy table: where the policy requires the credential the honest side never reports success and never delivers the rogue's data. " +
		"non-trivial = rogue case whose control succeeded and whose deviation took effect; distinct = (version, role, family, policy, deviation)"
	pbt.Register(pbt.Prop[Case]{Name: "auth-grid", Enum: enumGrid, Exhaustive: true, Run: run, Crashy: true, Rule: "GRID (every policy x deviation x family x version cell): " + rule})
	pbt.Register(pbt.Prop[Case]{Name: "auth-sampled", Quick: 800, Thorough: 20000, Gen: gen, Run: run, Crashy: true, Rule: "SAMPLED with MTU/CID noise: " + rule})
}
