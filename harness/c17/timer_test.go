package c17

import (
	"bytes"
	"fmt"
	"os"
	"strings"
	"testing"
	"time"

	"github.com/pion/dtls/v3/internal/zzverif/lib/pbt"
	"github.com/pion/dtls/v3/internal/zzverif/lib/ref"
	"github.com/pion/dtls/v3/internal/zzverif/lib/scen"
	"github.com/pion/dtls/v3/internal/zzverif/lib/vnet"
	"pgregory.net/rapid"
)

func TestMain(m *testing.M) { pbt.Main(m, "C17") }

func TestProps(t *testing.T) { pbt.RunAll(t) }

func TestReplay(t *testing.T) { pbt.Replay(t) }

// Case: endpoint X (Role) is observed while its peer follows a script.
type Case struct {
	Role      string `json:"role"`    // endpoint under observation: "C" or "S"
	Variant   string `json:"variant"` // v12, v12-nohv, v12-psk, v12-clientauth, v12-resumed, v13, v13-nohv
	IvlMs     int    `json:"ivl"`
	IvlUs     int    `json:"ivlus,omitempty"` // added to IvlMs: intervals that are not whole milliseconds (800us, 2.5ms)
	NoBackoff bool   `json:"nobackoff,omitempty"`
	// Cut: number of peer flights delivered normally; peer flight number Cut is withheld.
	Cut int `json:"cut"`
	// ReleaseMs > 0: the withheld flight is delivered once at that virtual time (a NEW flight after
	// silence); everything the peer sends afterwards is dropped again.
	ReleaseMs int `json:"release,omitempty"`
	// ReleasePart > 0: only the first ReleasePart datagrams of the withheld flight are delivered at
	// ReleaseMs (new data that does not complete the flight; needs a multi-datagram flight: MTU variants)
	ReleasePart int `json:"part,omitempty"`
	// StaleMs: instants at which the peer's last delivered flight is replayed to X.
	StaleMs []int `json:"stale,omitempty"`
	// JunkMs: instants at which garbage is delivered to X.
	JunkMs []int `json:"junk,omitempty"`
	// EmptyStale: every stale replay is followed by a record holding a zero-length fragment of the peer's message 0
	EmptyStale bool `json:"emptystale,omitempty"`
	// Renumber: the replayed flight carries fresh record sequence numbers in its plaintext (epoch 0) records, as a
	// genuine retransmission by the peer does (a byte-identical copy is discarded by the replay window)
	Renumber  bool `json:"renumber,omitempty"`
	HorizonMs int  `json:"horizon"`
}

func epsFor(c *Case) (cl, sv scen.EP, resumed bool) {
	cl = scen.EP{RootCA: 1, ServerName: scen.ServerName}
	sv = scen.EP{Cert: "ecdsa"}
	switch c.Variant {
	case "v12":
	case "v12-nohv":
		sv.SkipHelloVfy = true
	case "v12-psk":
		cl = scen.EP{PSK: "timer-psk-0001", PSKHint: "id", Suites: []uint16{0x00a8}}
		sv = scen.EP{PSK: "timer-psk-0001", PSKHint: "h", Suites: []uint16{0x00a8}}
	case "v12-clientauth":
		cl.Cert = "client-ecdsa"
		sv.ClientAuth, sv.ClientCAs = 4, true
	case "v12-resumed":
		cl.Store, sv.Store = "cs", "ss"
		resumed = true
	case "v13":
		cl.MinVer, cl.MaxVer, sv.MinVer, sv.MaxVer = 13, 13, 13, 13
		cl.Curves, sv.Curves = []uint16{0x1d}, []uint16{0x1d}
	case "v13-nohv":
		cl.MinVer, cl.MaxVer, sv.MinVer, sv.MaxVer = 13, 13, 13, 13
		cl.Curves, sv.Curves = []uint16{0x1d}, []uint16{0x1d}
		sv.SkipHelloVfy = true
	case "v13-mtu300":
		cl.MinVer, cl.MaxVer, sv.MinVer, sv.MaxVer = 13, 13, 13, 13
		cl.Curves, sv.Curves = []uint16{0x1d}, []uint16{0x1d}
		sv.SkipHelloVfy = true
		cl.MTU, sv.MTU = 300, 300
	case "v12-mtu300":
		cl.MTU, sv.MTU = 300, 300
	}
	cl.IntervalMs, sv.IntervalMs = c.IvlMs, c.IvlMs
	cl.IntervalUs, sv.IntervalUs = c.IvlUs, c.IvlUs
	cl.NoBackoff, sv.NoBackoff = c.NoBackoff, c.NoBackoff

	return cl, sv, resumed
}

// flightsOf groups the datagrams of `from` on a tap into flights: maximal runs not interrupted
// by a datagram of the other endpoint. Returns the start index (per-sender Idx) of every flight.
func flightsOf(evs []vnet.Event, from string) []int {
	var starts []int
	inRun := false
	for _, ev := range evs {
		if strings.HasPrefix(ev.From, "inject") {
			continue
		}
		if ev.From == from {
			if !inRun {
				starts = append(starts, ev.Idx)
				inRun = true
			}
		} else {
			inRun = false
		}
	}

	return starts
}

// renumber rewrites the sequence numbers of the legacy-framed epoch 0 records of a datagram.
func renumber(d []byte, next *uint64) []byte {
	out := append([]byte(nil), d...)
	for off := 0; off+13 <= len(out); {
		if out[off]&0xe0 == 0x20 || out[off] == 25 {
			break // unified or tls12_cid record: protected, left alone
		}
		n := int(out[off+11])<<8 | int(out[off+12])
		if out[off+3] == 0 && out[off+4] == 0 {
			*next++
			for i := 0; i < 6; i++ {
				out[off+5+i] = byte(*next >> (8 * (5 - i)))
			}
		}
		off += 13 + n
	}

	return out
}

func ladder(t0 time.Duration, ivl time.Duration, nobackoff bool, horizon time.Duration) []time.Duration {
	var out []time.Duration
	t := t0
	iv := ivl
	for {
		t += iv
		if t > horizon {
			return out
		}
		out = append(out, t)
		if !nobackoff {
			iv *= 2
		}
		if iv > 60*time.Second {
			iv = 60 * time.Second
		}
	}
}

var hrrRandom = []byte{0xCF, 0x21, 0xAD, 0x74, 0xE5, 0x9A, 0x61, 0x11, 0xBE, 0x1D, 0x8C, 0x02, 0x1E, 0x65, 0xB8, 0x91, 0xC2, 0xA2, 0x11, 0x16, 0x7A, 0xBB, 0x8C, 0x5E, 0x07, 0x9E, 0x09, 0xE2, 0xC8, 0xA8, 0x33, 0x9C}

// classify says what a datagram of X is: "cookie-request", "ack-only", "alert-only", "flight".
func classify(d []byte, dec *ref.Decoder, from string) string {
	recs, _ := scen.SplitDatagram(d, 0)
	kinds := map[string]int{}
	for _, r := range recs {
		switch {
		case r.Kind != "unified" && r.Epoch == 0 && r.Type == scen.CTHandshake:
			fr, _ := scen.SplitHandshake(r.Body)
			for _, f := range fr {
				if f.Type == scen.HTHelloVerifyRequest || (f.Type == scen.HTServerHello && f.FragOff == 0 && len(f.Body) >= 34 && bytes.Equal(f.Body[2:34], hrrRandom)) {
					kinds["cookie"]++
				} else {
					kinds["hs"]++
				}
			}
		case r.Kind != "unified" && r.Type == scen.CTAlert:
			kinds["alert"]++
		case r.Kind != "unified" && r.Type == scen.CTACK:
			kinds["ack"]++
		case r.Kind == "unified" && dec != nil:
			ds, _ := dec.Decode(from, r.Raw, 0)
			if len(ds) == 1 && ds[0].OK {
				switch ds[0].Type {
				case scen.CTACK:
					kinds["ack"]++
				case scen.CTAlert:
					kinds["alert"]++
				default:
					kinds["hs"]++
				}
			} else {
				kinds["hs"]++
			}
		default:
			kinds["hs"]++
		}
	}
	switch {
	case kinds["hs"] > 0:
		return "flight"
	case kinds["cookie"] > 0:
		return "cookie-request"
	case kinds["ack"] > 0:
		return "ack-only"
	case kinds["alert"] > 0:
		return "alert-only"
	}

	return "flight"
}

func ms(i int) time.Duration { return time.Duration(i) * time.Millisecond }

func run(c Case, r *pbt.R) {
	var gens []scen.Gen13
	stop := scen.CaptureGens13(&gens)
	defer stop()
	berr := pbt.Bubble(func() {
		cEP, sEP, resumed := epsFor(&c)
		env := scen.NewEnv()
		env.Log = &scen.LogSink{Keep: os.Getenv("VERIF_DEBUG") != ""}
		x, peer := "C", "S"
		if c.Role == "S" {
			x, peer = "S", "C"
		}
		prime := func() bool {
			p0 := scen.NewPair(env, &cEP, &sEP)
			p0.Handshake(10 * time.Minute)
			ok := p0.C.OK() && p0.S.OK()
			p0.Close()
			scen.Settle()

			return ok
		}
		if resumed && !prime() {
			r.Failf("C17|harness|prime", "priming connection failed")

			return
		}
		// reference run on a perfect network to learn the flight structure
		ref0 := scen.NewPair(env, &cEP, &sEP)
		ref0.Handshake(10 * time.Minute)
		okRef := ref0.C.OK() && ref0.S.OK()
		refEvents := ref0.Net.Events()
		ref0.Close()
		scen.Settle()
		if !okRef {
			r.Failf("C17|harness|reference", "reference handshake failed")

			return
		}
		if resumed && !prime() {
			return
		}
		peerFlights := flightsOf(refEvents, peer)
		cut := c.Cut
		if cut > len(peerFlights) {
			cut = len(peerFlights)
		}
		// peer datagram index range of the withheld flight
		cutIdx, endIdx := 1<<30, 1<<30
		if cut < len(peerFlights) {
			cutIdx = peerFlights[cut]
			if cut+1 < len(peerFlights) {
				endIdx = peerFlights[cut+1]
			}
		}
		gens = gens[:0]
		p := scen.NewPair(env, &cEP, &sEP)
		defer p.Close()
		start := p.Net.Now()
		var held [][]byte
		var lastDelivered [][]byte // datagrams of the last peer flight delivered to X
		curFlightStart := -1
		p.Net.FaultFn = func(ev *vnet.Event) *vnet.Fault {
			if ev.From != peer {
				return nil
			}
			if ev.Idx >= cutIdx {
				if ev.Idx < endIdx && c.ReleaseMs > 0 {
					held = append(held, append([]byte(nil), ev.Data...))
				}

				return &vnet.Fault{Kind: vnet.Drop}
			}
			// delivered: remember the current flight for stale replays
			fs := -1
			for _, st := range peerFlights {
				if st <= ev.Idx {
					fs = st
				}
			}
			if fs != curFlightStart {
				curFlightStart = fs
				lastDelivered = nil
			}
			lastDelivered = append(lastDelivered, append([]byte(nil), ev.Data...))

			return nil
		}
		horizon := ms(c.HorizonMs)
		sd := p.S.StartHandshake(horizon + time.Minute)
		cd := p.C.StartHandshake(horizon + time.Minute)
		// stimuli at their virtual instants
		type stim struct {
			at   time.Duration
			kind string
		}
		var stims []stim
		if c.ReleaseMs > 0 {
			stims = append(stims, stim{ms(c.ReleaseMs), "release"})
		}
		for _, t := range c.StaleMs {
			stims = append(stims, stim{ms(t), "stale"})
		}
		for _, t := range c.JunkMs {
			stims = append(stims, stim{ms(t), "junk"})
		}
		// sort by time (stable)
		for i := 1; i < len(stims); i++ {
			for j := i; j > 0 && stims[j].at < stims[j-1].at; j-- {
				stims[j], stims[j-1] = stims[j-1], stims[j]
			}
		}
		type rcv struct {
			at   time.Duration
			kind string
			n    int
		}
		var receipts []rcv
		renumSeq := uint64(0x7c0000)
		for _, s := range stims {
			if d := s.at - (p.Net.Now() - start); d > 0 {
				time.Sleep(d)
			}
			scen.Settle()
			now := p.Net.Now() - start
			switch s.kind {
			case "release":
				rel := held
				if c.ReleasePart > 0 && c.ReleasePart < len(held) {
					rel = held[:c.ReleasePart]
				}
				for _, d := range rel {
					p.Net.Inject(peer, x, d)
				}
				receipts = append(receipts, rcv{now, "new", len(rel)})
			case "stale":
				for _, d := range lastDelivered {
					if c.Renumber {
						d = renumber(d, &renumSeq)
					}
					p.Net.Inject(peer, x, d)
				}
				if len(lastDelivered) > 0 && c.EmptyStale {
					// one more stale record: a zero-length fragment of the peer's message 0 (consumed with the first
					// delivered flight), declared length 100: no data, old message number
					p.Net.Inject(peer, x, []byte{0x16, 0xfe, 0xfd, 0, 0, 0, 0, 0, 0, 0x7e, byte(len(receipts)), 0, 12, 2, 0, 0, 100, 0, 0, 0, 0, 0, 0, 0, 0})
				}
				if len(lastDelivered) > 0 {
					receipts = append(receipts, rcv{now, "stale", len(lastDelivered)})
				}
			case "junk":
				p.Net.Inject(peer, x, []byte{0x16, 0xfe, 0xfd, 0, 0, 0, 0, 0, 0, 0, 9, 0, 40, 1, 2, 3})
				p.Net.Inject(peer, x, []byte{0xff, 0xee, 0xdd, 0xcc})
				k := byte(len(receipts))
				nj := 2
				if !strings.HasPrefix(c.Variant, "v13") {
					// a plaintext ACK record with an empty list: not a retransmission of anything, in DTLS 1.2
					// not even a defined record type (in DTLS 1.3 an empty ACK legitimately asks for the flight)
					p.Net.Inject(peer, x, []byte{26, 0xfe, 0xfd, 0, 0, 0, 0, 0, 0, 0x7f, k, 0, 2, 0, 0})
					nj++
				}
				receipts = append(receipts, rcv{now, "junk", nj})
			}
			scen.Settle()
		}
		if d := horizon - (p.Net.Now() - start); d > 0 {
			time.Sleep(d)
		}
		scen.Settle()
		evs := p.Net.Events()
		xSide := p.C
		if x == "S" {
			xSide = p.S
		}
		xDone := xSide.OK()
		xDoneAt := xSide.HSAt
		var dec *ref.Decoder
		if strings.HasPrefix(c.Variant, "v13") {
			dec = scen.Decoder13(p, gens)
		}
		if os.Getenv("VERIF_DEBUG") != "" {
			fmt.Println(p.Dump())
			fmt.Println(strings.Join(env.Log.Lines, "\n"))
		}
		// tear down before judging so that nothing keeps running
		p.Close()
		<-sd
		<-cd

		// X's emissions grouped by instant, and the instants at which X received genuine peer data
		type group struct {
			at    time.Duration
			n     int
			class string
		}
		var groups []group
		nEmitted, nReceived := 0, 0
		lastRecvAt := time.Duration(-1)
		for _, ev := range evs {
			switch {
			case ev.From == x:
				nEmitted++
				cl := classify(ev.Data, dec, x)
				if len(groups) > 0 && groups[len(groups)-1].at == ev.T {
					groups[len(groups)-1].n++
					if cl == "flight" {
						groups[len(groups)-1].class = "flight"
					}
				} else {
					groups = append(groups, group{ev.T, 1, cl})
				}
			case ev.From == peer && !strings.Contains(ev.Verdict, "+"):
				nReceived++
				lastRecvAt = ev.T
			case strings.HasPrefix(ev.From, "inject"):
				nReceived++
			}
		}
		for _, rc := range receipts {
			if rc.at > lastRecvAt && rc.kind == "new" && rc.n > 0 {
				lastRecvAt = rc.at
			}
		}
		ivl := ms(c.IvlMs) + time.Duration(c.IvlUs)*time.Microsecond
		is13 := strings.HasPrefix(c.Variant, "v13")
		sigBase := fmt.Sprintf("C17|%s|%s", map[bool]string{true: "dtls13", false: "dtls12"}[is13], map[string]string{"C": "client", "S": "server"}[x])
		// ---- final period without NEW data: from the last receipt of new peer data to the horizon
		var tail []group
		for _, g := range groups {
			if g.at >= lastRecvAt {
				tail = append(tail, g)
			}
		}
		staleAt := map[time.Duration]bool{}
		staleAfter := false
		describe := func() string {
			s := fmt.Sprintf("variant=%s role=%s ivl=%v nobackoff=%v cut=%d/%d lastNewRecv=%v xDone=%v@%v receipts=%v\nemissions:", c.Variant, x, ivl, c.NoBackoff, cut, len(peerFlights), lastRecvAt, xDone, xDoneAt, receipts)
			for _, g := range groups {
				s += fmt.Sprintf(" %v(%d,%s)", g.at, g.n, g.class)
			}

			return s
		}
		// ---- new data that does not complete the peer's flight: the interval is restored
		if c.ReleasePart > 0 && !(c.ReleasePart < len(held) && len(receipts) > 0) {
			r.Class("partial-release-not-applicable") // the withheld flight has too few datagrams

			return
		}
		if c.ReleasePart > 0 {
			a := receipts[0].at
			var before, after []time.Duration
			for _, g := range groups {
				if g.class != "flight" {
					continue
				}
				if g.at < a {
					before = append(before, g.at)
				} else if g.at > a {
					after = append(after, g.at)
				}
			}
			backedOff := len(before) >= 3 && !c.NoBackoff // the interval had grown to >= 4I when the data came
			for i := 0; i+1 < len(after); i++ {
				gap := after[i+1] - after[i]
				limit := ivl << (i + 1) //nolint:gosec
				if c.NoBackoff {
					limit = ivl
				}
				if limit > 60*time.Second {
					limit = 60 * time.Second
				}
				if gap > limit {
					r.Failf(sigBase+"|interval-not-restored-by-new-data", "new data (%d of %d datagrams of the peer's flight) arrived at %v after %d timeouts; retransmission gap %d afterwards is %v, a ladder restarted at the initial interval %v allows at most %v\n%s", c.ReleasePart, len(held), a, len(before)-1, i+1, gap, ivl, limit, describe())

					return
				}
			}
			if len(after) >= 2 && backedOff {
				r.Class("partial-new-data-after-backoff")
				r.NonTrivial()
			}
			r.Class(c.Variant + "/" + x)

			return
		}
		if len(tail) == 0 {
			r.Class("silent-endpoint")
		} else {
			t0 := tail[0]
			for _, rc := range receipts {
				if rc.kind == "stale" && rc.at >= t0.at {
					staleAt[rc.at] = true
					staleAfter = true
				}
			}
			completed := xDone && xDoneAt <= t0.at
			expectLadder := t0.class == "flight" && !(completed && !is13)
			var want []time.Duration
			if expectLadder {
				want = ladder(t0.at, ivl, c.NoBackoff, horizon)
			}
			var got []time.Duration
			for _, g := range tail[1:] {
				if staleAt[g.at] && completed && !is13 {
					continue // 1.2: the final flight re-sent in response to a peer retransmission
				}
				if staleAt[g.at] && (c.EmptyStale || c.Renumber) && t0.class == "cookie-request" {
					continue // a stateless server answers what it takes for a repeated ClientHello: per datagram, not on a timer
				}
				got = append(got, g.at)
			}
			exact := !(is13 && staleAfter)
			if completed && is13 && len(got) == 0 {
				// 1.3 client after the server's ACK, or server without outstanding post-handshake flight
				want = nil
			}
			switch {
			case exact:
				bad := len(got) != len(want)
				for i := 0; !bad && i < len(got); i++ {
					bad = got[i] != want[i]
				}
				if bad {
					kind := "timer-law|wrong-instant"
					switch {
					case t0.class == "cookie-request":
						kind = "cookie-request-retransmitted"
					case !expectLadder:
						kind = "emits-in-silence"
					case len(got) < len(want):
						kind = "timer-law|missing-retransmissions"
					case len(got) > len(want):
						kind = "timer-law|extra-retransmissions"
					}
					r.Failf(sigBase+"|"+kind, "without new data from %v: emission instants %v, schedule prescribes %v (first emission class %s)\n%s", t0.at, got, want, t0.class, describe())

					return
				}
			default:
				// DTLS 1.3 reacts to a peer retransmission by re-sending at once and doubling; only the
				// weak law is asserted: timer-driven gaps never fall below the initial interval
				prev := t0.at
				for _, at := range got {
					if !staleAt[at] && at-prev < ivl {
						r.Failf(sigBase+"|timer-law|gap-below-interval", "gap %v < I=%v at %v\n%s", at-prev, ivl, at, describe())

						return
					}
					prev = at
				}
				if len(got) > len(want)+2*len(staleAt)+2 {
					r.Failf(sigBase+"|storm", "%d emissions with %d stale stimuli, schedule has %d rungs\n%s", len(got), len(staleAt), len(want), describe())

					return
				}
			}
			if expectLadder {
				r.Classf("ladder-rungs=%d", min(len(want), 12))
				if len(want) >= 3 && exact {
					r.NonTrivial()
				}
				if c.ReleaseMs > 0 && len(held) > 0 {
					r.Class("reset-after-new-flight")
					r.NonTrivial()
				}
				if staleAfter {
					r.Class("stale-during-ladder")
					r.NonTrivial()
				}
			} else {
				r.Class("silence-verified:" + t0.class)
				if t0.class == "cookie-request" || completed {
					r.NonTrivial()
				}
			}
		}
		// ---- no storms: emissions bounded by the timer schedule plus a constant per datagram received
		maxFlight := 1
		for _, g := range groups {
			if g.n > maxFlight {
				maxFlight = g.n
			}
		}
		rungs := len(ladder(0, ivl, c.NoBackoff, horizon)) + 1
		boundN := rungs*maxFlight*(len(stims)+2) + (maxFlight+2)*nReceived
		if nEmitted > boundN {
			r.Failf(sigBase+"|storm", "emitted %d datagrams, bound %d (rungs=%d flight=%d received=%d)\n%s", nEmitted, boundN, rungs, maxFlight, nReceived, describe())

			return
		}
		if len(c.StaleMs)+len(c.JunkMs) >= 10 {
			r.NonTrivial()
			r.Class("many-stale-or-junk")
		}
		r.Class(c.Variant + "/" + x)
	})
	if berr != nil {
		if berr.Deadlock {
			r.Failf("C17|bubble-deadlock", "goroutines left blocked: %v", berr.Value)
		} else {
			r.Failf(pbt.PanicSig("C17", []byte(berr.Stack)), "panic: %v\n%s", berr.Value, berr.Stack)
		}
	}
}

var variants = []string{"v12", "v12-nohv", "v12-psk", "v12-clientauth", "v12-resumed", "v13", "v13-nohv"}

func gen(t *rapid.T) Case {
	c := Case{
		Role:    rapid.SampledFrom([]string{"C", "S"}).Draw(t, "role"),
		Variant: rapid.SampledFrom(variants).Draw(t, "variant"),
		IvlMs: rapid.SampledFrom([]int{1, 10, 100, 250, 1000, 1000, 2000, 5000, 20000, 60000,
			// doubling these passes the 60 s cap by less than a second (60.8 s, 60.8 s, 60.5 s, 60.002 s)
			950, 3800, 30250, 30001}).Draw(t, "ivl"),
		Cut: rapid.IntRange(0, 4).Draw(t, "cut"),
	}
	c.NoBackoff = rapid.IntRange(0, 3).Draw(t, "nobackoff") == 0
	// horizon: enough for the whole ladder to 8 rungs past the cap (bounded number of emissions)
	ivl := c.IvlMs
	if rapid.IntRange(0, 5).Draw(t, "subms") == 0 {
		// a legal interval that is not a whole number of milliseconds: 0.8ms, 2.5ms, 10.5ms
		c.IvlMs = rapid.SampledFrom([]int{0, 2, 10}).Draw(t, "ivlms")
		c.IvlUs = rapid.SampledFrom([]int{500, 800}).Draw(t, "ivlus")
		ivl = c.IvlMs + 1
	}
	h, iv := 0, ivl
	for i := 0; i < 14; i++ {
		h += iv
		if !c.NoBackoff {
			iv *= 2
		}
		if iv > 60000 {
			iv = 60000
		}
	}
	c.HorizonMs = h + ivl/2
	if c.NoBackoff {
		c.HorizonMs = ivl*12 + ivl/2
	}
	switch rapid.IntRange(0, 3).Draw(t, "script") {
	case 1: // a new flight after b silent rungs
		c.ReleaseMs = rapid.IntRange(1, max(2, c.HorizonMs/3)).Draw(t, "release")
		c.HorizonMs += c.ReleaseMs
	case 2: // stale replays
		n := rapid.IntRange(1, 12).Draw(t, "nstale")
		for i := 0; i < n; i++ {
			c.StaleMs = append(c.StaleMs, rapid.IntRange(1, max(2, c.HorizonMs/2)).Draw(t, "staleat"))
		}
		c.EmptyStale = rapid.Bool().Draw(t, "emptystale")
		c.Renumber = rapid.IntRange(0, 2).Draw(t, "renumber") == 0
	case 3: // junk
		n := rapid.IntRange(1, 12).Draw(t, "njunk")
		for i := 0; i < n; i++ {
			c.JunkMs = append(c.JunkMs, rapid.IntRange(1, max(2, c.HorizonMs/2)).Draw(t, "junkat"))
		}
	}

	return c
}

// partial-release grid: multi-datagram flights (MTU 300), the first 1..2 datagrams of the withheld
// flight arrive after the endpoint has backed off b times
func enumPartial(_ string, yield func(Case) bool) {
	// Only withheld flights whose first datagrams are certainly NEW to the endpoint: the server's very
	// first flight in DTLS 1.3 (cut 0) and its post-cookie flight in DTLS 1.2 (cut 1). Later "flights"
	// of a DTLS 1.3 run with a small MTU are ACK-driven retransmissions, i.e. stale data.
	for _, vc := range []struct {
		v   string
		cut int
	}{{"v13-mtu300", 0}, {"v12-mtu300", 1}} {
		for _, part := range []int{1, 2, 3} {
			for _, b := range []int{2, 3, 4, 5} {
				for _, ivl := range []int{200, 1000} {
					rel := ivl*((1<<b)-1) + ivl/4 // just after the b-th timeout
					if !yield(Case{Role: "C", Variant: vc.v, IvlMs: ivl, Cut: vc.cut, ReleaseMs: rel, ReleasePart: part, HorizonMs: rel + ivl*40}) {
						return
					}
				}
			}
		}
	}
}

// grid: role x variant x every cut point, total silence, default and small interval, backoff on/off
func enumGrid(_ string, yield func(Case) bool) {
	for _, v := range variants {
		for _, role := range []string{"C", "S"} {
			for cut := 0; cut <= 4; cut++ {
				for _, ivl := range []int{1000, 50} {
					for _, nb := range []bool{false, true} {
						h, iv := 0, ivl
						for i := 0; i < 14; i++ {
							h += iv
							if !nb {
								iv *= 2
							}
							if iv > 60000 {
								iv = 60000
							}
						}
						if !yield(Case{Role: role, Variant: v, IvlMs: ivl, NoBackoff: nb, Cut: cut, HorizonMs: h + ivl/2}) {
							return
						}
					}
				}
			}
		}
	}
}

func init() {
	rule := "endpoint X (role x variant x flight interval x backoff) against a peer whose flights are withheld from flight number `cut` on; optionally the withheld flight " +
		"is delivered once at a generated instant (new data), or the last delivered flight is replayed (stale data) or junk is delivered at generated instants; " +
		"oracle on virtual time: in the final silent period the emission instants of X are exactly t0 + sum_{j<k} min(I*2^j,60s) (k*I without backoff) when X awaits a reply, " +
		"and there are none after a cookie request or after completion; emissions overall bounded by schedule + constant per received datagram. " +
		"non-trivial = >=3 timer rungs verified, or reset stimulus, or cookie-request silence, or >=10 stale/junk datagrams; distinct = whole case"
	pbt.Register(pbt.Prop[Case]{Name: "timer-law", Quick: 3000, Thorough: 80000, Gen: gen, Run: run, Crashy: true, Rule: "SAMPLED: " + rule})
	pbt.Register(pbt.Prop[Case]{Name: "partial-new-data-grid", Enum: enumPartial, Exhaustive: true, Run: run, Crashy: true,
		Rule: "GRID: multi-datagram flights (MTU 300, both versions) x role x cut x the first 1..2 datagrams of the withheld flight delivered just after the 2nd..4th timeout; " +
			"oracle: the retransmission gaps afterwards are those of a ladder restarted at the initial interval (gap k <= I*2^k). non-trivial = the endpoint had backed off >= 3 times and retransmitted >= 2 times afterwards"})
	pbt.Register(pbt.Prop[Case]{Name: "silence-grid", Enum: enumGrid, Exhaustive: true, Run: run, Crashy: true,
		Rule: "GRID (7 variants x both roles x cut 0..4 x I in {1s,50ms} x backoff on/off, total silence): " + rule})
}
