package c09

import (
	"context"
	"fmt"
	"os"
	"strings"
	"sync"
	"testing"
	"time"

	dtls "github.com/pion/dtls/v3"
	"github.com/pion/dtls/v3/internal/zzverif/lib/pbt"
	"github.com/pion/dtls/v3/internal/zzverif/lib/ref"
	"github.com/pion/dtls/v3/internal/zzverif/lib/scen"
	"github.com/pion/dtls/v3/internal/zzverif/lib/vnet"
	"pgregory.net/rapid"
)

func TestMain(m *testing.M) { pbt.Main(m, "C09") }

func TestProps(t *testing.T) { pbt.RunAll(t) }

func TestReplay(t *testing.T) { pbt.Replay(t) }

// Case is one session driven by concurrent writers, retransmissions, alerts, key updates,
// export/import and Close.
type Case struct {
	Suite    uint16       `json:"suite"`
	CIDC     int          `json:"cidc,omitempty"`
	CIDS     int          `json:"cids,omitempty"`
	MTU      int          `json:"mtu,omitempty"`
	FC       []vnet.Fault `json:"fc,omitempty"`
	FS       []vnet.Fault `json:"fs,omitempty"`
	WritersC int          `json:"wc"`
	WritersS int          `json:"ws"`
	PerW     int          `json:"perw"`
	Alerts   int          `json:"alerts,omitempty"`  // provoke this many alerts from each side during the writes
	Updates  int          `json:"updates,omitempty"` // 1.3: UpdateKeys calls per side interleaved with the writes
	Export   string       `json:"export,omitempty"`  // "", "C", "S": export/import that side between two write phases (1.2)
	NearMax  int          `json:"nearmax,omitempty"` // with Export: rewrite the serialised counter to 2^48-NearMax
	Export2  bool         `json:"export2,omitempty"` // export/import the same side once more after the second phase (unmodified bytes), then a third phase
	Close    bool         `json:"close,omitempty"`
	Dual     string       `json:"dual,omitempty"` // "C"/"S": that side is dual-stack (1.2-1.3), the peer speaks only the version of Suite
	// Move (connection IDs both ways): during the first write phase the client's datagrams arrive from another
	// address, so the server's path-validation messages (RRC) are numbered concurrently with its writers
	Move bool `json:"move,omitempty"`
	// FailWC / FailWS: the transport refuses these WriteTo calls of the client / server (counted from the start of
	// the connection): nothing leaves for them, the library sees an error in the middle of a batch of datagrams
	FailWC []int `json:"failwc,omitempty"`
	FailWS []int `json:"failws,omitempty"`
	// StaleFail (DTLS 1.2): after the handshake a renumbered copy of the client's last plaintext handshake datagram
	// reaches the server, which re-sends its final flight; the transport refuses the StaleFail[i]-th datagrams of
	// that batch (counted from its first). With an MTU below the 12-byte body of Finished the batch spans >= 3 datagrams.
	StaleFail []int `json:"stalefail,omitempty"`
}

func epsFor(c *Case) (cl, sv scen.EP) {
	cl = scen.EP{RootCA: 1, ServerName: scen.ServerName, Suites: []uint16{c.Suite}}
	sv = scen.EP{Cert: "ecdsa", Suites: []uint16{c.Suite}}
	switch {
	case c.Suite>>8 == 0x13:
		cl.MinVer, cl.MaxVer, sv.MinVer, sv.MaxVer = 13, 13, 13, 13
		cl.Curves, sv.Curves = []uint16{0x1d}, []uint16{0x1d}
	case c.Suite == 0xc02f || c.Suite == 0xc030 || c.Suite == 0xc014 || c.Suite == 0xcca8:
		sv.Cert = "rsa"
	case c.Suite == 0xc0a4 || c.Suite == 0xc0a8 || c.Suite == 0xc0a9 || c.Suite == 0x00a8 || c.Suite == 0x00ae || c.Suite == 0xccab || c.Suite == 0xc037:
		cl = scen.EP{PSK: "nonce-psk-key-001", PSKHint: "id", Suites: []uint16{c.Suite}}
		sv = scen.EP{PSK: "nonce-psk-key-001", PSKHint: "hint", Suites: []uint16{c.Suite}}
	}
	cl.CID, sv.CID = c.CIDC, c.CIDS
	cl.MTU, sv.MTU = c.MTU, c.MTU
	if c.Dual != "" {
		peerV := 12
		if c.Suite>>8 == 0x13 {
			peerV = 13
		}
		cl.MinVer, cl.MaxVer, sv.MinVer, sv.MaxVer = peerV, peerV, peerV, peerV
		// an explicit suite list restricts the version range to the versions of its members, so the
		// dual-stack side also lists one suite of the version that will not be chosen
		other := uint16(0x1301)
		if peerV == 13 {
			other = 0xc02b
		}
		if c.Dual == "C" {
			cl.MinVer, cl.MaxVer = 12, 13
			cl.Suites = []uint16{c.Suite, other}
		} else {
			sv.MinVer, sv.MaxVer = 12, 13
			sv.Suites = []uint16{c.Suite, other}
		}
	}

	return cl, sv
}

const maxSeq = uint64(1)<<48 - 1

func run(c Case, r *pbt.R) {
	is13 := c.Suite>>8 == 0x13
	var gens []scen.Gen13
	stop := scen.CaptureGens13(&gens)
	defer stop()
	berr := pbt.Bubble(func() {
		cEP, sEP := epsFor(&c)
		env := scen.NewEnv()
		env.Log = &scen.LogSink{Keep: os.Getenv("VERIF_DEBUG") != ""}
		p := scen.NewPair(env, &cEP, &sEP)
		for _, k := range c.FailWC {
			if p.C.EP.WriteFail == nil {
				p.C.EP.WriteFail = map[int]bool{}
			}
			p.C.EP.WriteFail[k] = true
		}
		for _, k := range c.FailWS {
			if p.S.EP.WriteFail == nil {
				p.S.EP.WriteFail = map[int]bool{}
			}
			p.S.EP.WriteFail[k] = true
		}
		defer p.Close()
		p.Net.Faults["C"] = c.FC
		p.Net.Faults["S"] = c.FS
		p.Handshake(20 * time.Minute)
		hsOK := p.C.OK() && p.S.OK()
		if !hsOK {
			r.Class("handshake-failed")
			if c.Dual != "" {
				r.Class("handshake-failed-dual-" + c.Dual)
			}
			if is13 || len(c.FailWC)+len(c.FailWS) == 0 {
				return
			}
			// a transport that refused a datagram may well end the handshake; what did leave (the alert included)
			// is still judged: DTLS 1.2 record numbers are in the clear
			r.Class("handshake-failed-after-refused-datagram")
			scen.Settle()
		}
		effHS := p.Net.EffectiveFaults()
		p.Net.Heal()
		exported := false
		writeErrs := map[string]int{}
		if hsOK && len(c.StaleFail) > 0 && !is13 {
			var stale []byte
			for _, ev := range p.Net.Events() {
				if ev.From == "C" && len(ev.Data) >= 13 && ev.Data[0] == 22 && ev.Data[3] == 0 && ev.Data[4] == 0 {
					stale = ev.Data
				}
			}
			if stale != nil {
				time.Sleep(3 * time.Second)
				scen.Settle()
				base := p.S.EP.Writes()
				if p.S.EP.WriteFail == nil {
					p.S.EP.WriteFail = map[int]bool{}
				}
				for _, j := range c.StaleFail {
					p.S.EP.WriteFail[base+j] = true
				}
				next := uint64(0x7c0000)
				for k := 0; k < 2; k++ {
					p.Net.Inject("C", "S", renumber(stale, &next))
					scen.Settle()
				}
				if n := p.S.EP.Writes() - base; n >= 3 {
					r.Class("final-flight-resent-over-three-or-more-datagrams")
				} else if n >= 2 {
					r.Class("final-flight-resent-over-several-datagrams")
				} else if n == 1 {
					r.Class("final-flight-resent")
				}
			}
		}
		if hsOK {
			p.C.StartReader()
			p.S.StartReader()
			scen.Settle()
			var wmu sync.Mutex
			phase := func(tag byte) {
				var wg sync.WaitGroup
				launch := func(sd *scen.Side, n int) {
					for w := 0; w < n; w++ {
						wg.Add(1)
						go func(w int) {
							defer wg.Done()
							for i := 0; i < c.PerW; i++ {
								if _, err := sd.Conn.Write([]byte{tag, byte(w), byte(i), 0xC0, 0x9C}); err != nil {
									wmu.Lock()
									writeErrs[sd.Name+":"+err.Error()]++
									wmu.Unlock()
								}
							}
						}(w)
					}
				}
				moving := c.Move && tag == 1 && c.CIDC > 0 && c.CIDS > 0
				if moving {
					p.Net.Redirect["B"] = "C"
					p.Net.SrcRewrite = func(ev *vnet.Event) string {
						if ev.From == "C" {
							return "B"
						}

						return ""
					}
				}
				launch(p.C, c.WritersC)
				launch(p.S, c.WritersS)
				for a := 0; a < c.Alerts; a++ {
					// an epoch-0 application_data record makes the endpoint emit an unexpected_message alert
					junk := []byte{23, 0xfe, 0xfd, 0, 0, 0, 0, 0, 0, 0, byte(200 + a), 0, 1, 0x41}
					p.Net.Inject("C", "S", junk)
					p.Net.Inject("S", "C", junk)
				}
				if is13 {
					for u := 0; u < c.Updates; u++ {
						for _, sd := range []*scen.Side{p.C, p.S} {
							wg.Add(1)
							go func(sd *scen.Side, u int) {
								defer wg.Done()
								ctx, cancel := context.WithTimeout(context.Background(), 2*time.Minute)
								defer cancel()
								_ = sd.Conn.UpdateKeys(ctx, dtls.KeyUpdateOptions{RequestPeerUpdate: u%2 == 1})
							}(sd, u)
						}
					}
				}
				wg.Wait()
				scen.Settle()
				if moving {
					time.Sleep(3 * time.Second) // path-challenge retransmissions
					scen.Settle()
					p.Net.SrcRewrite = nil
					for _, ev := range p.Net.Events() {
						if ev.From == "S" && ev.To == "B" {
							r.Class("server-sent-to-the-new-address")

							break
						}
					}
					r.Class("client-address-moved")
				}
			}
			phase(1)
			if c.Export != "" && !is13 {
				sd, ep := p.C, &cEP
				if c.Export == "S" {
					sd, ep = p.S, &sEP
				}
				var mut func([]byte) []byte
				if c.NearMax > 0 {
					mut = func(raw []byte) []byte {
						m, err := scen.DecodeState(raw)
						if err != nil {
							return raw
						}
						m.SequenceNumber = maxSeq + 1 - uint64(c.NearMax) //nolint:gosec
						out, err := scen.EncodeState(m)
						if err != nil {
							return raw
						}

						return out
					}
				}
				if _, err := p.ExportImport(sd, env, ep, mut); err != nil {
					r.Failf("C09|export-import-failed", "export/import of %s: %v", c.Export, err)

					return
				}
				exported = true
				sd.StartReader()
				scen.Settle()
				phase(2)
				if c.Export2 {
					// second seam, e.g. with the sequence space already exhausted by phase 2
					if _, err := p.ExportImport(sd, env, ep, nil); err != nil {
						r.Failf("C09|export-import-failed", "second export/import of %s: %v", c.Export, err)

						return
					}
					sd.StartReader()
					scen.Settle()
					phase(3)
					r.Class("second-export")
				}
			}
			if c.Close {
				_ = p.C.Conn.Close()
				scen.Settle()
			}
		} // hsOK
		if os.Getenv("VERIF_DEBUG") != "" {
			fmt.Println(p.Dump())
			fmt.Println(strings.Join(env.Log.Lines, "\n"))
		}
		// ---- oracle: per sender and epoch, sequence numbers strictly increase in emission order
		var dec *ref.Decoder
		if is13 {
			dec = scen.Decoder13(p, gens)
			if dec == nil {
				r.Failf("C09|harness|decoder13", "no DTLS 1.3 decoder (hook gens=%d)", len(gens))

				return
			}
		}
		cidLenTo := map[string]int{}
		if c.CIDC != 0 && c.CIDS != 0 {
			if l := env.CIDs["C"]; len(l) > 0 {
				cidLenTo["C"] = len(l[len(l)-1])
			}
			if l := env.CIDs["S"]; len(l) > 0 {
				cidLenTo["S"] = len(l[len(l)-1])
			}
		}
		type key struct {
			from  string
			epoch uint16
		}
		last := map[key]uint64{}
		seen := map[key]bool{}
		retransProtected, undecoded, total := 0, 0, 0
		for _, ev := range p.Net.Events() {
			if strings.HasPrefix(ev.From, "inject") {
				continue
			}
			to := "S"
			if ev.From == "S" {
				to = "C"
			}
			type rn struct {
				epoch uint16
				seq   uint64
				ok    bool
			}
			var rns []rn
			if is13 {
				recs, _ := dec.Decode(ev.From, ev.Data, cidLenTo[to])
				for _, d := range recs {
					if d.Kind == "unified" && !d.OK {
						undecoded++

						continue
					}
					rns = append(rns, rn{d.Epoch, d.Seq, true})
				}
			} else {
				recs, _ := scen.SplitDatagram(ev.Data, cidLenTo[to])
				for _, rc := range recs {
					rns = append(rns, rn{uint16(rc.Epoch), rc.Seq, true}) //nolint:gosec
				}
			}
			for _, x := range rns {
				total++
				k := key{ev.From, x.epoch}
				if x.seq > maxSeq && !is13 {
					r.Failf("C09|sequence-beyond-2^48", "%s emitted epoch %d seq %d", ev.From, x.epoch, x.seq)

					return
				}
				if seen[k] && x.seq <= last[k] {
					what := "reused"
					if x.seq < last[k] {
						what = "went backwards"
					}
					cid := "nocid"
					if cidLenTo[to] > 0 {
						cid = "cid"
					}
					ph := "data"
					if ev.T < max(p.C.HSAt, p.S.HSAt) || (x.epoch <= 2 && is13) || (x.epoch <= 1 && !is13 && x.seq < 4) {
						ph = "handshake"
					}
					r.Failf(fmt.Sprintf("C09|seq-%s|%s|%s|%s", strings.ReplaceAll(what, " ", "-"), verName(is13), cid, ph),
						"%s: epoch %d sequence number %s: %d after %d (t=%v, datagram %s)\n%s", ev.From, x.epoch, what, x.seq, last[k], ev.T, scen.Describe(ev.Data, cidLenTo[to]), tailDump(p))
					if r.Failed() {
						return
					}
				}
				if x.epoch > 0 && ev.T <= max(p.C.HSAt, p.S.HSAt) && effHS > 0 {
					retransProtected++
				}
				seen[k], last[k] = true, x.seq
			}
		}
		if is13 && undecoded > 0 {
			r.Class("undecoded-13-records")
		}
		if c.NearMax > 0 && exported {
			// writes must fail rather than wrap: at most NearMax records of the final epoch after import
			nerr := 0
			for k, v := range writeErrs {
				if strings.HasPrefix(k, c.Export+":") {
					nerr += v
				}
			}
			w := c.WritersC
			if c.Export == "S" {
				w = c.WritersS
			}
			attempted := w * c.PerW
			if attempted > c.NearMax && nerr == 0 {
				r.Failf("C09|no-error-at-2^48", "%d writes attempted with %d numbers left, none failed", attempted, c.NearMax)

				return
			}
			r.Class("near-2^48")
		}
		nt := false
		if c.WritersC >= 2 || c.WritersS >= 2 {
			r.Class("concurrent-writers")
			nt = true
		}
		if retransProtected > 0 {
			r.Class("handshake-retransmission")
			nt = true
		}
		if exported {
			r.Class("export-import")
			nt = true
		}
		if is13 && c.Updates > 0 {
			r.Class("key-update")
			nt = true
		}
		if c.Alerts > 0 {
			r.Class("alerts")
		}
		if cidLenTo["C"]+cidLenTo["S"] > 0 {
			r.Class("cid")
		}
		r.Class(verName(is13))
		if c.Dual != "" {
			r.Class("dual-stack-" + c.Dual)
		}
		r.Class(scen.SuiteName(c.Suite))
		if nt {
			r.NonTrivial()
		}
		_ = total
	})
	if berr != nil {
		if berr.Deadlock {
			r.Failf("C09|bubble-deadlock", "goroutines left blocked: %v", berr.Value)
		} else {
			r.Failf(pbt.PanicSig("C09", []byte(berr.Stack)), "panic: %v\n%s", berr.Value, berr.Stack)
		}
	}
}

// renumber gives every plaintext (epoch 0) record of a datagram a fresh record sequence number.
func renumber(d []byte, next *uint64) []byte {
	out := append([]byte(nil), d...)
	for off := 0; off+13 <= len(out); {
		if out[off]&0xe0 == 0x20 || out[off] == 25 {
			break
		}
		n := int(out[off+11])<<8 | int(out[off+12])
		if out[off+3] == 0 && out[off+4] == 0 {
			*next++
			for i := 0; i < 6; i++ {
				out[off+5+i] = byte(*next >> (8 * (5 - i)))
			}
		}
		off += 13 + n
	}

	return out
}

func tailDump(p *scen.Pair) string {
	lines := strings.Split(p.Dump(), "\n")
	if len(lines) > 30 {
		lines = lines[:30]
	}

	return strings.Join(lines, "\n")
}

func verName(is13 bool) string {
	if is13 {
		return "dtls13"
	}

	return "dtls12"
}

var suites = []uint16{0xc02b, 0xc02c, 0xc0ac, 0xc0ae, 0xc00a, 0xcca9, 0xc02f, 0x00a8, 0xc0a4, 0x00ae, 0xccab, 0xc037, 0x1301, 0x1302, 0x1303}

func gen(t *rapid.T) Case {
	c := Case{Suite: rapid.SampledFrom(suites).Draw(t, "suite")}
	is13 := c.Suite>>8 == 0x13
	if rapid.IntRange(0, 1).Draw(t, "cid") == 1 {
		c.CIDC, c.CIDS = rapid.IntRange(1, 8).Draw(t, "cidc"), rapid.IntRange(1, 8).Draw(t, "cids")
	}
	if rapid.IntRange(0, 3).Draw(t, "mtu") == 0 {
		c.MTU = rapid.IntRange(100, 600).Draw(t, "mtuv")
	}
	c.FC = scen.GenFaults(t, "fc", 6)
	c.FS = scen.GenFaults(t, "fs", 6)
	c.WritersC = rapid.IntRange(0, 6).Draw(t, "wc")
	c.WritersS = rapid.IntRange(0, 6).Draw(t, "ws")
	c.PerW = rapid.IntRange(1, 6).Draw(t, "perw")
	c.Alerts = rapid.SampledFrom([]int{0, 0, 1, 3}).Draw(t, "alerts")
	if is13 {
		c.Updates = rapid.SampledFrom([]int{0, 1, 2, 3}).Draw(t, "updates")
	} else if rapid.IntRange(0, 2).Draw(t, "exp") == 0 {
		c.Export = rapid.SampledFrom([]string{"C", "S"}).Draw(t, "expside")
		if rapid.IntRange(0, 2).Draw(t, "near") == 0 {
			c.NearMax = rapid.IntRange(1, 3).Draw(t, "nearmax")
			c.Export2 = rapid.Bool().Draw(t, "export2")
		}
	}
	c.Close = rapid.Bool().Draw(t, "close")
	c.Dual = rapid.SampledFrom([]string{"", "", "", "C", "C", "S"}).Draw(t, "dual")
	if c.CIDC > 0 {
		c.Move = rapid.IntRange(0, 2).Draw(t, "move") == 0
	}
	if !is13 && c.Dual == "" && rapid.IntRange(0, 4).Draw(t, "stalefail") == 0 {
		c.StaleFail = rapid.SliceOfNDistinct(rapid.IntRange(1, 5), 1, 2, rapid.ID[int]).Draw(t, "stalefailv")
		// mostly below the 12-byte body of Finished (the MTU option bounds the fragment body), so that the re-sent
		// flight is ChangeCipherSpec plus several fragments of Finished, each in its own datagram
		if rapid.IntRange(0, 3).Draw(t, "stalemtuk") == 0 {
			c.MTU = rapid.IntRange(12, 110).Draw(t, "stalemtu")
		} else {
			c.MTU = rapid.IntRange(4, 11).Draw(t, "stalemtu")
		}
		if c.WritersS == 0 {
			c.WritersS = 1
		}
	}
	// DTLS 1.2 only: three DTLS 1.3 cases with a refused datagram and key updates ran into the wall-clock watchdog
	// (endpoints spinning in real time); not triaged, see DESIGN
	if !is13 && rapid.IntRange(0, 3).Draw(t, "failw") == 0 {
		c.FailWC = rapid.SliceOfNDistinct(rapid.IntRange(0, 24), 0, 2, rapid.ID[int]).Draw(t, "failwc")
		c.FailWS = rapid.SliceOfNDistinct(rapid.IntRange(0, 24), 0, 2, rapid.ID[int]).Draw(t, "failws")
		if c.MTU == 0 && rapid.Bool().Draw(t, "failmtu") {
			c.MTU = rapid.IntRange(100, 300).Draw(t, "failmtuv") // flights of several datagrams
		}
	}

	return c
}

func init() {
	pbt.Register(pbt.Prop[Case]{
		Name: "sequence-numbers", Quick: 2500, Thorough: 60000, Gen: gen, Run: run, Crashy: true,
		Rule: "session (suite x CID x MTU) with handshake retransmissions forced by a fault mask, 0..6 concurrent writer goroutines per side, provoked alerts, " +
			"1.3 UpdateKeys from both sides, a client address change during the writes (connection IDs: path-validation messages), Close, and for 1.2 an export/import point between two write phases (optionally with the serialised counter rewritten to 2^48-j); " +
			"oracle: per sending endpoint and epoch the record sequence numbers on the wire (1.2: clear header; 1.3: recovered by the independent decoder with hook secrets) " +
			"strictly increase in emission order, also across the import seam, and writes fail rather than pass 2^48-1. " +
			"non-trivial = >=2 concurrent writers or a retransmitted protected handshake record or an import point or a key update; distinct = whole case",
	})
}
