package c15

import (
	"context"
	"encoding/binary"
	"errors"
	"fmt"
	"net"
	"os"
	"sync"
	"time"

	dtls "github.com/pion/dtls/v3"
	"github.com/pion/dtls/v3/internal/zzverif/lib/pbt"
	"github.com/pion/dtls/v3/internal/zzverif/lib/scen"
	"pgregory.net/rapid"
)

// LCase: K clients connect to one CID-enabled listener over real loopback UDP sockets; then
// datagrams of the clients reach the listener from other source addresses (a fresh socket of the
// same client = NAT rebinding, or the socket of ANOTHER client = an address owned by a different
// connection). Every payload must be read by the connection that owns the ID, never by another,
// and no new connection may be accepted. No timing oracle: writes are repeated until read.
type LCase struct {
	Ver   int `json:"ver"`
	SrvID int `json:"srvid"` // length of the server's IDs (1..20)
	CliID int `json:"cliid"` // scen.EP.CID code for the clients
	K     int `json:"k"`
	// MTU of the server (1.2 only): a small one makes the server fragment its ServerHello, the record the
	// listener learns a connection's ID from
	MTU   int     `json:"mtu,omitempty"`
	Steps []LStep `json:"steps"`
}

// LStep kinds: write (client I writes from its current socket), hop (client I moves to a fresh
// socket, then writes), via (client I's datagram leaves through client J's socket), reply (the
// server connection owning I writes to it), junk (an unauthenticated datagram carrying client I's
// server-side ID arrives from a fresh socket).
type LStep struct {
	K string `json:"k"`
	I int    `json:"i"`
	J int    `json:"j,omitempty"`
}

type hopConn struct {
	mu     sync.Mutex
	socks  []*net.UDPConn
	via    *hopConn
	prefix []byte // put in front of every outgoing datagram (a harmless plaintext record)
	in     chan hopPkt
	closed chan struct{}
	once   sync.Once
	rdMu   sync.Mutex
	rdT    time.Time
	rdCh   chan struct{}
}

type hopPkt struct {
	b    []byte
	from net.Addr
}

func newHopConn() (*hopConn, error) {
	h := &hopConn{in: make(chan hopPkt, 1024), closed: make(chan struct{}), rdCh: make(chan struct{})}

	return h, h.hop()
}

func (h *hopConn) hop() error {
	s, err := net.ListenUDP("udp4", &net.UDPAddr{IP: net.IPv4(127, 0, 0, 1)})
	if err != nil {
		return err
	}
	h.mu.Lock()
	h.socks = append(h.socks, s)
	h.mu.Unlock()
	go func() {
		buf := make([]byte, 8192)
		for {
			n, a, err := s.ReadFrom(buf)
			if err != nil {
				return
			}
			select {
			case h.in <- hopPkt{append([]byte(nil), buf[:n]...), a}:
			case <-h.closed:
				return
			default: // drop on overflow like a socket buffer
			}
		}
	}()

	return nil
}

func (h *hopConn) cur() *net.UDPConn {
	h.mu.Lock()
	defer h.mu.Unlock()

	return h.socks[len(h.socks)-1]
}

func (h *hopConn) ReadFrom(b []byte) (int, net.Addr, error) {
	for {
		h.rdMu.Lock()
		t, ch := h.rdT, h.rdCh
		h.rdMu.Unlock()
		var timer <-chan time.Time
		if !t.IsZero() {
			d := time.Until(t)
			if d <= 0 {
				return 0, nil, os.ErrDeadlineExceeded
			}
			tm := time.NewTimer(d)
			defer tm.Stop()
			timer = tm.C
		}
		select {
		case p := <-h.in:
			return copy(b, p.b), p.from, nil
		case <-h.closed:
			return 0, nil, net.ErrClosed
		case <-timer:
			return 0, nil, os.ErrDeadlineExceeded
		case <-ch: // deadline changed
		}
	}
}

func (h *hopConn) WriteTo(b []byte, addr net.Addr) (int, error) {
	select {
	case <-h.closed:
		return 0, net.ErrClosed
	default:
	}
	h.mu.Lock()
	via := h.via
	pre := h.prefix
	h.mu.Unlock()
	if len(pre) > 0 {
		n, err := h.cur().WriteTo(append(append([]byte(nil), pre...), b...), addr)

		return max(0, n-len(pre)), err
	}
	if via != nil {
		return via.cur().WriteTo(b, addr)
	}

	return h.cur().WriteTo(b, addr)
}

func (h *hopConn) Close() error {
	h.once.Do(func() {
		close(h.closed)
		h.mu.Lock()
		for _, s := range h.socks {
			_ = s.Close()
		}
		h.mu.Unlock()
	})

	return nil
}
func (h *hopConn) LocalAddr() net.Addr { return h.cur().LocalAddr() }
func (h *hopConn) SetDeadline(t time.Time) error {
	return h.SetReadDeadline(t)
}

func (h *hopConn) SetReadDeadline(t time.Time) error {
	h.rdMu.Lock()
	h.rdT = t
	close(h.rdCh)
	h.rdCh = make(chan struct{})
	h.rdMu.Unlock()

	return nil
}
func (h *hopConn) SetWriteDeadline(time.Time) error { return nil }

type srvConn struct {
	idx   int
	conn  *dtls.Conn
	mu    sync.Mutex
	owner int // client id of the first payload read, -1 unknown
	got   map[[2]uint32]bool
	alien []string
}

func lpayload(client, step, attempt int) []byte {
	b := make([]byte, 16)
	binary.BigEndian.PutUint32(b, 0xC15A0000)
	binary.BigEndian.PutUint32(b[4:], uint32(client))   //nolint:gosec
	binary.BigEndian.PutUint32(b[8:], uint32(step))     //nolint:gosec
	binary.BigEndian.PutUint32(b[12:], uint32(attempt)) //nolint:gosec

	return b
}

//nolint:gocyclo,cyclop,maintidx
func runListener(c LCase, r *pbt.R) {
	env := scen.NewEnv()
	sEP := scen.EP{Cert: "ecdsa", CID: c.SrvID}
	cEP := scen.EP{RootCA: 1, ServerName: scen.ServerName, CID: c.CliID}
	if c.Ver == 13 {
		sEP.MinVer, sEP.MaxVer, cEP.MinVer, cEP.MaxVer = 13, 13, 13, 13
		sEP.Curves, cEP.Curves = []uint16{0x1d}, []uint16{0x1d}
	} else {
		sEP.MinVer, sEP.MaxVer, cEP.MinVer, cEP.MaxVer = 12, 12, 12, 12
		sEP.MTU = c.MTU
	}
	sopts, err := sEP.ServerOptions(env)
	if err != nil {
		r.Failf("C15|harness|options", "%v", err)

		return
	}
	ln, err := dtls.ListenWithOptions("udp4", &net.UDPAddr{IP: net.IPv4(127, 0, 0, 1)}, sopts...)
	if err != nil {
		r.Failf("C15|harness|listen", "%v", err)

		return
	}
	var mu sync.Mutex
	var srv []*srvConn
	var wg sync.WaitGroup
	stop := make(chan struct{})
	wg.Add(1)
	go func() {
		defer wg.Done()
		for {
			nc, err := ln.Accept()
			if err != nil {
				return
			}
			dc, ok := nc.(*dtls.Conn)
			if !ok {
				continue
			}
			mu.Lock()
			sc := &srvConn{idx: len(srv), conn: dc, owner: -1, got: map[[2]uint32]bool{}}
			srv = append(srv, sc)
			mu.Unlock()
			wg.Add(1)
			go func() {
				defer wg.Done()
				ctx, cancel := context.WithTimeout(context.Background(), 20*time.Second)
				defer cancel()
				if err := dc.HandshakeContext(ctx); err != nil {
					return
				}
				buf := make([]byte, 2048)
				for {
					n, err := dc.Read(buf)
					if err != nil {
						var ne net.Error
						if errors.As(err, &ne) && ne.Temporary() { //nolint:staticcheck
							continue
						}

						return
					}
					if n == 16 && binary.BigEndian.Uint32(buf) == 0xC15A0000 {
						cl := int(binary.BigEndian.Uint32(buf[4:]))
						st := binary.BigEndian.Uint32(buf[8:])
						sc.mu.Lock()
						if sc.owner < 0 {
							sc.owner = cl
						}
						if cl != sc.owner {
							sc.alien = append(sc.alien, fmt.Sprintf("connection of client %d read a payload of client %d (step %d)", sc.owner, cl, st))
						}
						sc.got[[2]uint32{uint32(cl), st}] = true //nolint:gosec
						sc.mu.Unlock()
					}
				}
			}()
		}
	}()
	clients := make([]*dtls.Conn, c.K)
	hops := make([]*hopConn, c.K)
	cgot := make([]map[uint32]bool, c.K)
	var cmu sync.Mutex
	cleanup := func() {
		close(stop)
		for _, cl := range clients {
			if cl != nil {
				_ = cl.Close()
			}
		}
		mu.Lock()
		for _, s := range srv {
			_ = s.conn.Close()
		}
		mu.Unlock()
		_ = ln.Close()
		for _, h := range hops {
			if h != nil {
				_ = h.Close()
			}
		}
		wg.Wait()
	}
	defer cleanup()

	findOwner := func(client int) *srvConn {
		mu.Lock()
		defer mu.Unlock()
		for _, s := range srv {
			s.mu.Lock()
			o := s.owner
			s.mu.Unlock()
			if o == client {
				return s
			}
		}

		return nil
	}
	readBy := func(client int, step uint32) (*srvConn, bool) {
		mu.Lock()
		defer mu.Unlock()
		for _, s := range srv {
			s.mu.Lock()
			ok := s.got[[2]uint32{uint32(client), step}] //nolint:gosec
			s.mu.Unlock()
			if ok {
				return s, true
			}
		}

		return nil, false
	}
	// send repeats a client write until some server connection has read it (no timing oracle)
	send := func(client int, step uint32, budget time.Duration) bool {
		deadline := time.Now().Add(budget)
		for a := 0; time.Now().Before(deadline); a++ {
			_, _ = clients[client].Write(lpayload(client, int(step), a))
			for w := 0; w < 10; w++ {
				if _, ok := readBy(client, step); ok {
					return true
				}
				time.Sleep(5 * time.Millisecond)
			}
		}
		_, ok := readBy(client, step)

		return ok
	}

	copts, err := cEP.ClientOptions(env)
	if err != nil {
		r.Failf("C15|harness|options", "%v", err)

		return
	}
	for i := 0; i < c.K; i++ {
		h, err := newHopConn()
		if err != nil {
			r.Failf("C15|harness|socket", "%v", err)

			return
		}
		hops[i] = h
		cl, err := dtls.ClientWithOptions(h, ln.Addr(), copts...)
		if err != nil {
			r.Failf("C15|harness|client", "%v", err)

			return
		}
		clients[i] = cl
		ctx, cancel := context.WithTimeout(context.Background(), 20*time.Second)
		err = cl.HandshakeContext(ctx)
		cancel()
		if err != nil {
			r.Failf("C15|harness|handshake", "client %d: %v", i, err)

			return
		}
		cgot[i] = map[uint32]bool{}
		wg.Add(1)
		go func(i int, cl *dtls.Conn) {
			defer wg.Done()
			buf := make([]byte, 2048)
			for {
				n, err := cl.Read(buf)
				if err != nil {
					var ne net.Error
					if errors.As(err, &ne) && ne.Temporary() { //nolint:staticcheck
						continue
					}

					return
				}
				if n == 16 && binary.BigEndian.Uint32(buf) == 0xC15A0000 {
					cmu.Lock()
					if int(binary.BigEndian.Uint32(buf[4:])) != i {
						cgot[i][0xFFFFFFFF] = true
					}
					cgot[i][binary.BigEndian.Uint32(buf[8:])] = true
					cmu.Unlock()
				}
			}
		}(i, cl)
		if !send(i, 0, 10*time.Second) {
			r.Failf("C15|harness|first-payload", "client %d: first payload never read", i)

			return
		}
	}
	accepted := func() int {
		mu.Lock()
		defer mu.Unlock()

		return len(srv)
	}
	if accepted() != c.K {
		r.Failf("C15|harness|accept-count", "%d accepts for %d clients", accepted(), c.K)

		return
	}
	moved := false
	for si, st := range c.Steps {
		i := st.I % c.K
		j := st.J % c.K
		step := uint32(si + 1) //nolint:gosec
		kind := st.K
		switch kind {
		case "hop":
			if err := hops[i].hop(); err != nil {
				r.Failf("C15|harness|socket", "%v", err)

				return
			}
			moved = true
		case "via":
			if i == j {
				kind = "write"

				break
			}
			hops[i].mu.Lock()
			hops[i].via = hops[j]
			hops[i].mu.Unlock()
			moved = true
		case "hop-prefixed":
			// like hop, and every datagram sent from the new address starts with a plaintext record the server
			// ignores (an empty ACK, epoch 0), the connection-ID record follows in the same datagram: a client's
			// retransmitted final flight [ClientKeyExchange][ChangeCipherSpec][Finished as tls12_cid] has this shape
			if c.Ver != 12 {
				kind = "write"

				break
			}
			if err := hops[i].hop(); err != nil {
				r.Failf("C15|harness|socket", "%v", err)

				return
			}
			hops[i].mu.Lock()
			hops[i].prefix = []byte{26, 0xfe, 0xfd, 0, 0, 0, 0, 0, 0, 0x70, byte(si), 0, 2, 0, 0}
			hops[i].mu.Unlock()
			moved = true
		case "junk", "bigjunk":
			// unauthenticated record with client i's server-side ID from a fresh socket; bigjunk: a datagram
			// larger than the connection's 8192-byte read buffer
			ids := env.CIDs["S"]
			if i < len(ids) && kind == "bigjunk" {
				if s, err := net.DialUDP("udp4", nil, ln.Addr().(*net.UDPAddr)); err == nil { //nolint:forcetypeassert
					var d []byte
					if c.Ver == 13 {
						d = append([]byte{0x3f}, ids[i]...)
						d = append(d, 0, 9, 0x23, 0x28)
					} else {
						d = append([]byte{25, 0xfe, 0xfd, 0, 1, 0, 0, 0, 0, 0x7f, 0xfe}, ids[i]...)
						d = append(d, 0x23, 0x28)
					}
					d = append(d, make([]byte, 9000)...)
					_, _ = s.Write(d)
					_ = s.Close()
				}
			} else if i < len(ids) {
				s, err := net.DialUDP("udp4", nil, ln.Addr().(*net.UDPAddr)) //nolint:forcetypeassert
				if err == nil {
					var d []byte
					if c.Ver == 13 {
						d = append([]byte{0x3f}, ids[i]...)
						d = append(d, 0, 9, 0, 20)
						d = append(d, make([]byte, 20)...)
					} else {
						d = append([]byte{25, 0xfe, 0xfd, 0, 1, 0, 0, 0, 0, 0x7f, 0xff}, ids[i]...)
						d = append(d, 0, 30)
						d = append(d, make([]byte, 30)...)
					}
					_, _ = s.Write(d)
					_ = s.Close()
				}
			}
		}
		switch kind {
		case "reply":
			sc := findOwner(i)
			if sc == nil {
				continue
			}
			ok := false
			deadline := time.Now().Add(3 * time.Second)
			for a := 0; time.Now().Before(deadline) && !ok; a++ {
				_, _ = sc.conn.Write(lpayload(i, int(step), a))
				for w := 0; w < 10 && !ok; w++ {
					time.Sleep(5 * time.Millisecond)
					cmu.Lock()
					ok = cgot[i][step]
					cmu.Unlock()
				}
			}
			if !ok {
				r.Failf("C15|listener|reply-not-delivered", "step %d %+v: nothing the server connection of client %d wrote reached the client within 3 s", si, st, i)

				return
			}
		default:
			if !send(i, step, 3*time.Second) {
				sig := "C15|listener|datagram-not-routed|" + kind
				if c.MTU > 0 {
					sig += "|small-server-mtu" // the ServerHello the listener learns the ID from was fragmented
				}
				r.Failf(sig, "step %d %+v: payloads of client %d were never read by any connection (3 s of repeats; server MTU %d)", si, st, i, c.MTU)

				return
			}
			if sc, _ := readBy(i, step); sc != nil {
				sc.mu.Lock()
				o := sc.owner
				sc.mu.Unlock()
				if o != i {
					r.Failf("C15|listener|payload-read-by-foreign-connection|"+kind, "step %d %+v: payload of client %d was read by the connection of client %d", si, st, i, o)

					return
				}
			}
		}
		if kind == "via" {
			hops[i].mu.Lock()
			hops[i].via = nil
			hops[i].mu.Unlock()
		}
		if kind == "hop-prefixed" {
			hops[i].mu.Lock()
			hops[i].prefix = nil
			hops[i].mu.Unlock()
		}
		mu.Lock()
		for _, s := range srv {
			s.mu.Lock()
			al := s.alien
			s.mu.Unlock()
			if len(al) > 0 {
				mu.Unlock()
				r.Failf("C15|listener|payload-read-by-foreign-connection|"+kind, "step %d %+v: %s", si, st, al[0])

				return
			}
		}
		mu.Unlock()
		if n := accepted(); n != c.K {
			r.Failf("C15|listener|extra-accept|"+kind, "step %d %+v: %d connections accepted for %d clients", si, st, n, c.K)

			return
		}
	}
	cmu.Lock()
	for i := range cgot {
		if cgot[i][0xFFFFFFFF] {
			cmu.Unlock()
			r.Failf("C15|listener|client-read-foreign-reply", "client %d read a reply addressed to another client", i)

			return
		}
	}
	cmu.Unlock()
	r.Eval(fmt.Sprintf("%+v", c), moved, fmt.Sprintf("v%d", c.Ver), fmt.Sprintf("k=%d", c.K))
}

func genListener(t *rapid.T) LCase {
	c := LCase{Ver: 12, SrvID: rapid.SampledFrom([]int{1, 2, 4, 8, 16, 20}).Draw(t, "srvid"),
		CliID: rapid.SampledFrom([]int{-1, 1000, 1, 4, 8}).Draw(t, "cliid"), K: rapid.IntRange(2, 4).Draw(t, "k")}
	if rapid.IntRange(0, 2).Draw(t, "v13") == 0 {
		c.Ver = 13
	}
	if c.Ver == 12 {
		c.MTU = rapid.SampledFrom([]int{0, 0, 0, 64, 100}).Draw(t, "mtu")
	}
	n := rapid.IntRange(1, 8).Draw(t, "n")
	for s := 0; s < n; s++ {
		c.Steps = append(c.Steps, LStep{
			K: rapid.SampledFrom([]string{"write", "hop", "hop", "via", "via", "reply", "junk", "bigjunk", "hop-prefixed"}).Draw(t, "k"),
			I: rapid.IntRange(0, c.K-1).Draw(t, "i"), J: rapid.IntRange(0, c.K-1).Draw(t, "j"),
		})
	}

	return c
}

func init() {
	pbt.Register(pbt.Prop[LCase]{
		Name: "listener-routing", Quick: 64, Thorough: 3000, Gen: genListener, Run: runListener, Crashy: true, ShrinkTime: 15 * time.Second,
		Rule: "at least one datagram of an established connection reaches the listener from a source address other than the one it connected from (fresh socket or another client's socket); distinct = whole case",
	})
}
