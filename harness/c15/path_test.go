package c15

import (
	"bytes"
	"encoding/binary"
	"encoding/hex"
	"fmt"
	"os"
	"strings"
	"sync"
	"testing"
	"time"

	dtls "github.com/pion/dtls/v3"
	dtlsflight "github.com/pion/dtls/v3/internal/flight"
	dtlshandshake "github.com/pion/dtls/v3/internal/handshake"
	"github.com/pion/dtls/v3/internal/zzverif/lib/pbt"
	"github.com/pion/dtls/v3/internal/zzverif/lib/ref"
	"github.com/pion/dtls/v3/internal/zzverif/lib/scen"
	"github.com/pion/dtls/v3/pkg/protocol/extension"
	"github.com/pion/dtls/v3/pkg/protocol/handshake"
	"pgregory.net/rapid"
)

func TestMain(m *testing.M) { pbt.Main(m, "C15") }

func TestProps(t *testing.T) { pbt.RunAll(t) }

func TestReplay(t *testing.T) { pbt.Replay(t) }

// Case is one session followed by a path scenario observed at endpoint Obs. The other endpoint
// (the "mover") is an honest pion endpoint whose every datagram is captured by the harness and
// delivered with a source address, an order and a delay chosen by the scenario: the harness is
// the network (and the off-path attacker), it holds no keys.
type Case struct {
	Ver    int    `json:"ver"`    // 12 | 13
	Suite  uint16 `json:"suite"`  // 0 = default
	CIDC   int    `json:"cidc"`   // scen.EP.CID encoding: 0 absent, -1 send-only, 1000 zero length, n>0 length
	CIDS   int    `json:"cids"`   //
	RRCOff bool   `json:"rrcoff"` // the client does not offer return_routability_check
	// RRCSrvHook (with RRCOff, DTLS 1.2): the client does offer it, but the server's application strips the
	// extension from the ServerHello with the public WithServerHelloMessageHook: not negotiated either
	RRCSrvHook bool   `json:"rrcsrvhook,omitempty"`
	Obs        string `json:"obs"`            // observed endpoint "C" | "S"
	Steps      []Step `json:"steps"`          //
	Note       string `json:"note,omitempty"` // grid label
}

// Step kinds:
//
//	fresh   - the mover writes a payload; its datagram reaches Obs from address Src (newest, authentic)
//	stale   - the mover writes two payloads; the second reaches Obs from the mover's validated
//	          address first, then the first (authentic, not newest) from Src
//	replay  - a datagram already delivered is delivered again from Src
//	garbage - a fresh genuine record is damaged (Garb) and delivered from Src
//	owrite  - Obs writes N payloads
//	sleep   - Ms milliseconds of virtual time pass
//	release - held path responses are delivered from the addresses they answer for
//
// Resp says what happens to the mover's answer to a path challenge provoked by the step:
// timely | late (after the 1 s validity) | wrongaddr (arrives from another address) | dup | drop | hold.
type Step struct {
	Kind string `json:"k"`
	Src  string `json:"src,omitempty"` // H (home) | B | D (both reach the mover) | X (reaches nobody)
	Resp string `json:"resp,omitempty"`
	Garb string `json:"garb,omitempty"` // cid-flip | cid-strip | cid-add | body | trunc
	N    int    `json:"n,omitempty"`
	Ms   int    `json:"ms,omitempty"`
}

var hookMu sync.Mutex

func cidLenOf(code int) (int, bool) {
	switch {
	case code == 0:
		return 0, false
	case code < 0 || code == 1000:
		return 0, true
	default:
		return code, true
	}
}

func epsFor(c *Case) (cl, sv scen.EP) {
	cl = scen.EP{RootCA: 1, ServerName: scen.ServerName, CID: c.CIDC}
	sv = scen.EP{Cert: "ecdsa", CID: c.CIDS}
	if c.Ver == 13 {
		cl.MinVer, cl.MaxVer, sv.MinVer, sv.MaxVer = 13, 13, 13, 13
		cl.Curves, sv.Curves = []uint16{0x1d}, []uint16{0x1d}
	} else {
		cl.MinVer, cl.MaxVer, sv.MinVer, sv.MaxVer = 12, 12, 12, 12
	}
	if c.Suite != 0 {
		cl.Suites, sv.Suites = []uint16{c.Suite}, []uint16{c.Suite}
	}

	return cl, sv
}

// stripRRC removes the return_routability_check extension from the client's hellos.
func stripRRC(info dtlshandshake.VerifFlightInfo, pkts []*dtlsflight.Packet) []*dtlsflight.Packet {
	if !info.IsClient {
		return pkts
	}
	for _, p := range pkts {
		h, ok := p.Record.Content.(*handshake.Handshake)
		if !ok {
			continue
		}
		ch, ok := h.Message.(*handshake.MessageClientHello)
		if !ok {
			continue
		}
		var keep []extension.Value
		for _, e := range ch.Extensions {
			if e.ExtensionType() == extension.TypeReturnRoutabilityCheck {
				continue
			}
			keep = append(keep, e)
		}
		ch.Extensions = keep
	}

	return pkts
}

type challenge struct {
	addr   string
	cookie string
	at     time.Duration
}

type heldResp struct {
	data   []byte
	cookie string
}

func payload(tag uint32) []byte {
	pl := make([]byte, 24)
	binary.BigEndian.PutUint32(pl, 0xC15C15C1)
	binary.BigEndian.PutUint32(pl[4:], tag)
	for i := 8; i < len(pl); i++ {
		pl[i] = byte(i) ^ byte(tag)
	}

	return pl
}

//nolint:gocyclo,cyclop,maintidx
func run(c Case, r *pbt.R) {
	hookMu.Lock()
	defer hookMu.Unlock()
	var gens []scen.Gen13
	stop := scen.CaptureGens13(&gens)
	defer stop()
	srvHook := c.RRCOff && c.RRCSrvHook && c.Ver == 12
	if c.RRCOff && !srvHook {
		dtlshandshake.VerifFlightHook = stripRRC
		defer func() { dtlshandshake.VerifFlightHook = nil }()
	}
	berr := pbt.Bubble(func() {
		cEP, sEP := epsFor(&c)
		env := scen.NewEnv()
		env.Log = &scen.LogSink{Keep: os.Getenv("VERIF_DEBUG") != ""}
		if srvHook {
			env.ExtraServer = append(env.ExtraServer, dtls.WithServerHelloMessageHook(func(sh handshake.MessageServerHello) handshake.Message {
				var keep []extension.Value
				for _, e := range sh.Extensions {
					if e.ExtensionType() != extension.TypeReturnRoutabilityCheck {
						keep = append(keep, e)
					}
				}
				sh.Extensions = keep

				return &sh
			}))
		}
		p := scen.NewPair(env, &cEP, &sEP)
		defer p.Close()
		p.Handshake(10 * time.Minute)
		if !(p.C.OK() && p.S.OK()) {
			r.Failf("C15|harness|handshake", "setup handshake failed: %v %v (%+v)", p.C.Err(), p.S.Err(), c)

			return
		}
		obs, mov := p.C, p.S
		if c.Obs == "S" {
			obs, mov = p.S, p.C
		}
		home := mov.Name
		// negotiated IDs: both sides must have configured a generator
		own := map[string][]byte{"C": nil, "S": nil}
		lc, okc := cidLenOf(c.CIDC)
		ls, oks := cidLenOf(c.CIDS)
		negotiated := okc && oks
		if negotiated {
			if l := env.CIDs["C"]; len(l) > 0 && lc > 0 {
				own["C"] = l[len(l)-1]
			}
			if l := env.CIDs["S"]; len(l) > 0 && ls > 0 {
				own["S"] = l[len(l)-1]
			}
		}
		rrc := negotiated && !c.RRCOff
		ownObs, ownMov := own[obs.Name], own[mov.Name]

		var dec *ref.Decoder
		if c.Ver == 13 {
			dec = scen.Decoder13(p, gens)
		} else {
			dec = scen.Decoder12(p, env)
		}
		if dec == nil {
			r.Failf("C15|harness|decoder", "no decoder")

			return
		}
		debug := os.Getenv("VERIF_DEBUG") != ""
		defer func() {
			if debug {
				fmt.Println(p.Dump())
				fmt.Println(strings.Join(env.Log.Lines, "\n"))
			}
		}()

		obs.StartReader()
		mov.StartReader()
		scen.Settle()
		time.Sleep(3 * time.Second) // let final-flight retransmission timers and 1.3 ACK traffic finish
		scen.Settle()

		// From here on the mover's datagrams are captured, not delivered.
		p.Net.Blocked[mov.Name] = true
		for _, a := range []string{"B", "D"} {
			p.Net.Redirect[a] = mov.Name
		}
		active := home // model: the address Obs is entitled to send to
		recvFrom := map[string]int{}
		sentTo := map[string]int{}
		validated := map[string]bool{home: true}
		permitted := map[string]bool{}
		var challenges []challenge
		var held []heldResp
		delivered := [][]byte{} // datagrams of the mover already delivered to Obs (for replay)
		tag := uint32(0)
		cursor := len(p.Net.Events())
		garbagePayloads := map[uint32]bool{}
		forgedSeq := uint64(0)
		migrated, challenged := false, false
		classes := map[string]bool{}

		addrOf := func(s string) string {
			if s == "H" || s == "" {
				return home
			}

			return s
		}
		inject := func(src string, d []byte) {
			if src != active {
				recvFrom[src] += len(d)
			}
			p.Net.Inject(src, obs.Name, d)
			scen.Settle()
		}
		// capture: run fn (mover API calls) and return the datagrams the mover emitted
		capture := func(fn func()) [][]byte {
			mark := len(p.Net.Events())
			fn()
			scen.Settle()
			var out [][]byte
			for _, ev := range p.Net.Events()[mark:] {
				if ev.From == mov.Name {
					out = append(out, ev.Data)
				}
			}

			return out
		}
		rrcOf := func(from string, d []byte, cidLen int) (typ int, cookie string, ok bool) {
			ds, _ := dec.Decode(from, d, cidLen)
			for _, x := range ds {
				if x.OK && x.Type == 27 && len(x.Plain) >= 1 {
					ck := ""
					if len(x.Plain) == 9 {
						ck = hex.EncodeToString(x.Plain[1:])
					}

					return int(x.Plain[0]), ck, true
				}
			}

			return 0, "", false
		}
		fail := false
		failf := func(sig, f string, a ...any) {
			if !fail {
				fail = true
				r.Failf(sig, f, a...)
			}
		}

		// process: account for everything emitted since the cursor; eligibleFor is the address a
		// challenge may legitimately be sent to in this step ("" = none).
		process := func(si int, st Step, eligibleFor string, resp string) {
			for pass := 0; pass < 6; pass++ {
				evs := p.Net.Events()
				if cursor >= len(evs) {
					break
				}
				batch := evs[cursor:]
				cursor = len(evs)
				var newResp []heldResp
				for _, ev := range batch {
					switch ev.From {
					case obs.Name:
						typ, cookie, isRRC := rrcOf(obs.Name, ev.Data, len(ownMov))
						if ev.To != active && !permitted[ev.To] {
							// sending to an address that has not been validated (bytes exchanged while
							// an address was the validated one do not count towards its budget)
							sentTo[ev.To] += len(ev.Data)
							if !rrc {
								failf("C15|sends-to-new-address-without-rrc|"+st.Kind, "step %d %+v: return routability was not negotiated (cids %d/%d rrcoff=%v) yet %s sent %d bytes to %s (active %s)", si, st, c.CIDC, c.CIDS, c.RRCOff, obs.Name, len(ev.Data), ev.To, active)
							}
							if sentTo[ev.To] > 3*recvFrom[ev.To] {
								failf("C15|amplification-limit-exceeded|"+st.Kind, "step %d %+v: %s has sent %d bytes to unvalidated %s having received %d from it", si, st, obs.Name, sentTo[ev.To], ev.To, recvFrom[ev.To])
							}
							if isRRC && typ == 0 {
								challenged = true
								if ev.To != eligibleFor {
									failf("C15|challenge-without-newest-authentic-record|"+st.Kind+":"+st.Garb, "step %d %+v: path challenge sent to %s although no authentic newest record carrying the endpoint's ID just arrived from it", si, st, ev.To)
								}
								challenges = append(challenges, challenge{ev.To, cookie, ev.T})
							} else if !isRRC {
								classes["non-rrc-to-unvalidated-within-budget"] = true
							}
						}
					case mov.Name:
						typ, cookie, isRRC := rrcOf(mov.Name, ev.Data, len(ownObs))
						if isRRC && typ == 1 {
							newResp = append(newResp, heldResp{ev.Data, cookie})
						} else if ev.To == obs.Name && !isRRC {
							// e.g. a DTLS 1.3 ACK of the mover: deliver from home, it is part of honest traffic
							classes["mover-other-traffic"] = true
						}
					}
				}
				for _, h := range newResp {
					var target *challenge
					for i := range challenges {
						if challenges[i].cookie == h.cookie {
							target = &challenges[i]
						}
					}
					if target == nil {
						classes["response-without-known-challenge"] = true

						continue
					}
					deliver := func(from string) {
						if from == target.addr && rrc && p.Net.Now() < target.at+time.Second {
							permitted[from] = true
						}
						inject(from, h.data)
					}
					switch resp {
					case "late":
						time.Sleep(1100 * time.Millisecond)
						scen.Settle()
						deliver(target.addr)
						classes["response-late"] = true
					case "wrongaddr":
						other := "D"
						if target.addr == "D" {
							other = "B"
						}
						deliver(other)
						classes["response-from-other-address"] = true
					case "dup":
						deliver(target.addr)
						deliver(target.addr)
						classes["response-duplicated"] = true
					case "drop":
						classes["response-dropped"] = true
					case "hold":
						held = append(held, h)
						classes["response-held"] = true
					default:
						deliver(target.addr)
						classes["response-timely"] = true
					}
				}
				scen.Settle()
			}
			now := obs.Conn.RemoteAddr().String()
			if now != active {
				if !permitted[now] {
					why := "no valid timely response from that address"
					if !rrc {
						why = "return routability was not negotiated"
					}
					failf("C15|address-changed-without-validation|"+st.Kind+":"+st.Resp+":"+st.Garb, "step %d %+v: RemoteAddr of %s changed %s -> %s: %s (challenges %+v)", si, st, obs.Name, active, now, why, challenges)
				}
				active = now
				delete(sentTo, now)
				delete(recvFrom, now)
				validated[now] = true
				migrated = true
				permitted = map[string]bool{}
			}
		}

		for si, st := range c.Steps {
			if fail {
				break
			}
			src := addrOf(st.Src)
			switch st.Kind {
			case "fresh":
				tag++
				ds := capture(func() { _, _ = mov.Conn.Write(payload(tag)) })
				if len(ds) != 1 {
					failf("C15|harness|capture", "step %d: %d datagrams for one write", si, len(ds))

					break
				}
				elig := ""
				if rrc && len(ownObs) > 0 && src != active {
					elig = src
				}
				before := len(obs.ReadLog())
				inject(src, ds[0])
				delivered = append(delivered, ds[0])
				process(si, st, elig, st.Resp)
				if len(obs.ReadLog()) == before {
					classes["fresh-not-delivered"] = true
				}
				if src != active && src != home {
					classes["authentic-newest-from-new-address"] = true
				}
			case "stale":
				tag += 2
				t1, t2 := tag-1, tag
				ds := capture(func() {
					_, _ = mov.Conn.Write(payload(t1))
					_, _ = mov.Conn.Write(payload(t2))
				})
				if len(ds) != 2 {
					failf("C15|harness|capture", "step %d: %d datagrams for two writes", si, len(ds))

					break
				}
				inject(active, ds[1])
				process(si, st, "", "drop")
				inject(src, ds[0])
				delivered = append(delivered, ds[1], ds[0])
				process(si, st, "", st.Resp)
				classes["stale-authentic"] = true
			case "replay":
				if len(delivered) == 0 {
					continue
				}
				inject(src, delivered[st.N%len(delivered)])
				process(si, st, "", st.Resp)
				classes["replay"] = true
			case "garbage":
				tag++
				ds := capture(func() { _, _ = mov.Conn.Write(payload(tag)) })
				if len(ds) != 1 {
					failf("C15|harness|capture", "step %d: %d datagrams for one write", si, len(ds))

					break
				}
				g, ok := damage(ds[0], st.Garb, c.Ver, len(ownObs), st.N)
				if !ok {
					// not applicable to this header layout: deliver the genuine record instead
					inject(active, ds[0])
					delivered = append(delivered, ds[0])
					process(si, st, "", "drop")

					continue
				}
				garbagePayloads[tag] = true
				inject(src, g)
				process(si, st, "", st.Resp)
				classes["garbage:"+st.Garb] = true
			case "keyedbad":
				// Application data sealed by the harness with the session's OWN keys (DTLS 1.2, key log) but without
				// the observed endpoint's connection ID: as a plain application_data record (no ID at all), or as a
				// tls12_cid record carrying another ID of the same length (consistently, also in the additional data).
				// Only the missing / foreign ID tells it from a genuine record: it must not be accepted.
				if !dec.Has12 || len(ownObs) == 0 {
					continue
				}
				forgedSeq++
				tag++
				k := dec.SW
				if mov.Name == "C" {
					k = dec.CW
				}
				h := ref.Hdr12{Type: 23, Version: [2]byte{0xfe, 0xfd}, Epoch: 1, Seq: 1<<31 + forgedSeq}
				pl := payload(tag)
				if st.N%2 == 1 {
					other := append([]byte(nil), ownObs...)
					other[len(other)-1] ^= 0x5a
					h.Type, h.CID = 25, other
					pl = append(append([]byte(nil), pl...), 23)
				}
				d, err := ref.Seal12(k, h, pl, bytes.Repeat([]byte{9}, 16))
				if err != nil {
					continue
				}
				garbagePayloads[tag] = true
				inject(src, d)
				process(si, st, "", "drop")
				classes["keyed-record-without-own-id:"+map[bool]string{true: "foreign-id", false: "no-id"}[st.N%2 == 1]] = true
			case "pchallenge":
				// An authentic path_challenge of the mover arriving from Src. The honest mover only
				// challenges when IT sees a new address, so the harness - which knows the session keys from
				// the key log - seals this one record itself (DTLS 1.2 only), numbered above everything
				// the mover has sent. The answer goes to an unvalidated address and is subject to the
				// three-times budget.
				if !dec.Has12 || !rrc {
					continue // an honest peer never sends RRC messages unless the extension was negotiated
				}
				forgedSeq++
				k := dec.SW
				if mov.Name == "C" {
					k = dec.CW
				}
				content := append([]byte{0}, []byte{0xc1, 0x5c, 0x15, byte(forgedSeq), 1, 2, 3, 4}...)
				h := ref.Hdr12{Type: 27, Version: [2]byte{0xfe, 0xfd}, Epoch: 1, Seq: 1<<30 + forgedSeq}
				pl := content
				if len(ownObs) > 0 {
					h.Type, h.CID = 25, ownObs
					pl = append(append([]byte(nil), content...), 27)
				}
				d, err := ref.Seal12(k, h, pl, bytes.Repeat([]byte{9}, 16))
				if err != nil {
					continue
				}
				elig := ""
				if rrc && len(ownObs) > 0 && src != active {
					elig = src // an authentic newest record from a new address: Obs may open its own validation
				}
				inject(src, d)
				process(si, st, elig, "drop")
				classes["authentic-challenge-from-"+map[bool]string{true: "validated", false: "new"}[src == active]+"-address"] = true
			case "owrite":
				n := st.N%4 + 1
				mark := len(p.Net.Events())
				for i := 0; i < n; i++ {
					tag++
					_, _ = obs.Conn.Write(payload(tag | 0x80000000))
				}
				scen.Settle()
				for _, ev := range p.Net.Events()[mark:] {
					if ev.From == obs.Name && ev.To != active {
						if _, _, isRRC := rrcOf(obs.Name, ev.Data, len(ownMov)); !isRRC {
							failf("C15|data-sent-to-unvalidated-address", "step %d: application write of %s went to %s while the validated address is %s", si, obs.Name, ev.To, active)
						}
					}
				}
				process(si, st, "", "timely")
			case "sleep":
				time.Sleep(time.Duration(st.Ms%2500) * time.Millisecond)
				scen.Settle()
				process(si, st, "", "timely")
			case "release":
				hs := held
				held = nil
				for _, h := range hs {
					for i := range challenges {
						if challenges[i].cookie == h.cookie {
							t := challenges[i]
							if rrc && p.Net.Now() < t.at+time.Second {
								permitted[t.addr] = true
							}
							inject(t.addr, h.data)
						}
					}
				}
				process(si, st, "", "timely")
			}
		}
		if fail {
			return
		}
		// nothing damaged may have been delivered to the application
		for _, g := range obs.ReadLog() {
			if len(g) >= 8 && binary.BigEndian.Uint32(g) == 0xC15C15C1 && garbagePayloads[binary.BigEndian.Uint32(g[4:])] {
				failf("C15|record-with-foreign-id-delivered", "a record whose connection ID / header was altered was delivered to the application: tag %d", binary.BigEndian.Uint32(g[4:]))
			}
		}
		// ---- CID discipline over the whole tap: every protected record carries the receiver's
		// negotiated ID (and no ID when the receiver's ID is empty).
		nprot := 0
		for _, ev := range p.Net.Events() {
			if strings.HasPrefix(ev.From, "inject") {
				continue
			}
			rcvOwn := own["S"]
			if ev.From == "S" {
				rcvOwn = own["C"]
			}
			ds, _ := dec.Decode(ev.From, ev.Data, len(rcvOwn))
			for _, x := range ds {
				if x.Epoch == 0 || x.Type == 20 && x.Kind == "legacy" {
					continue
				}
				nprot++
				hasCID := x.Kind == "cid" || (x.Kind == "unified" && len(x.CID) > 0)
				switch {
				case len(rcvOwn) > 0 && !hasCID:
					failf("C15|protected-record-without-peer-id|"+fmt.Sprint(c.Ver), "%s emitted a protected record (epoch %d, type %d, %s) without the peer's connection ID %x", ev.From, x.Epoch, x.Type, x.Kind, rcvOwn)
				case len(rcvOwn) > 0 && !bytes.Equal(x.CID, rcvOwn):
					failf("C15|protected-record-with-wrong-id|"+fmt.Sprint(c.Ver), "%s emitted a protected record with ID %x, the peer's is %x", ev.From, x.CID, rcvOwn)
				case len(rcvOwn) == 0 && hasCID:
					failf("C15|record-carries-id-none-negotiated|"+fmt.Sprint(c.Ver), "%s emitted a record with a connection ID (%s) although the peer asked for none", ev.From, x.Kind)
				}
			}
		}
		cl := []string{fmt.Sprintf("v%d", c.Ver), fmt.Sprintf("rrc=%v", rrc), fmt.Sprintf("ownid=%d", len(ownObs)), "obs=" + c.Obs}
		for k := range classes {
			cl = append(cl, k)
		}
		if migrated {
			cl = append(cl, "address-migrated")
		}
		if challenged {
			cl = append(cl, "challenged")
		}
		nt := classes["authentic-newest-from-new-address"] || classes["stale-authentic"] || classes["replay"] || len(garbagePayloads) > 0
		raw, _ := jsonKey(c)
		r.Eval(raw, nt, cl...)
		_ = validated
		_ = nprot
	})
	if berr != nil {
		if berr.Deadlock {
			r.Failf("C15|goroutine-left-blocked", "goroutines left durably blocked: %v", berr.Value)
		} else {
			r.Failf(pbt.PanicSig("C15", []byte(berr.Stack)), "panic: %v\n%s", berr.Value, berr.Stack)
		}
	}
}

func jsonKey(c Case) (string, error) {
	return fmt.Sprintf("%d|%x|%d|%d|%v|%s|%+v", c.Ver, c.Suite, c.CIDC, c.CIDS, c.RRCOff, c.Obs, c.Steps), nil
}

// damage alters the connection-ID part (or the body) of a genuine record. ownLen is the length
// of the receiver's ID.
func damage(d []byte, how string, ver, ownLen, n int) ([]byte, bool) {
	g := append([]byte(nil), d...)
	unified := len(g) > 0 && g[0]&0xe0 == 0x20
	switch how {
	case "cid-flip":
		if ownLen == 0 {
			return nil, false
		}
		if unified {
			if g[0]&0x10 == 0 || len(g) < 1+ownLen {
				return nil, false
			}
			g[1+n%ownLen] ^= 1 << (n % 8)

			return g, true
		}
		if g[0] != 25 || len(g) < 11+ownLen {
			return nil, false
		}
		g[11+n%ownLen] ^= 1 << (n % 8)

		return g, true
	case "cid-strip":
		if ownLen == 0 {
			return nil, false
		}
		if unified {
			if g[0]&0x10 == 0 {
				return nil, false
			}
			out := append([]byte{g[0] &^ 0x10}, g[1+ownLen:]...)

			return out, true
		}
		if g[0] != 25 {
			return nil, false
		}
		out := append([]byte{23}, g[1:11]...)
		out = append(out, g[11+ownLen:]...)

		return out, true
	case "cid-add":
		// present an ID although the receiver has none
		if ownLen != 0 {
			return nil, false
		}
		extra := []byte{0xAA, 0xBB, 0xCC}[:1+n%3]
		if unified {
			if g[0]&0x10 != 0 {
				return nil, false
			}
			out := append([]byte{g[0] | 0x10}, extra...)

			return append(out, g[1:]...), true
		}
		if g[0] == 25 {
			// zero-length ID negotiated: lengthen it
			out := append(append([]byte(nil), g[:11]...), extra...)

			return append(out, g[11:]...), true
		}
		out := append([]byte{25}, g[1:11]...)
		out = append(out, extra...)

		return append(out, g[11:]...), true
	case "body":
		if len(g) < 20 {
			return nil, false
		}
		g[len(g)-1-n%8] ^= 0x40

		return g, true
	case "trunc":
		if len(g) < 20 {
			return nil, false
		}

		return g[:len(g)-1-n%6], true
	}
	_ = ver

	return nil, false
}

// ---- generators ---------------------------------------------------------------------------

var (
	cidCodes = []int{0, -1, 1000, 1, 4, 8, 20, 120}
	srcs     = []string{"H", "B", "B", "D", "X", "X"}
	resps    = []string{"timely", "timely", "late", "wrongaddr", "dup", "drop", "hold"}
	garbs    = []string{"cid-flip", "cid-strip", "cid-add", "body", "trunc"}
	suites12 = []uint16{0, 0, 0xc02b, 0xc00a, 0xcca9, 0xc0ac}
)

func genCase(t *rapid.T) Case {
	c := Case{Ver: 12}
	if rapid.IntRange(0, 2).Draw(t, "ver13") == 0 {
		c.Ver = 13
	}
	if c.Ver == 12 {
		c.Suite = rapid.SampledFrom(suites12).Draw(t, "suite")
	}
	// mostly negotiated IDs
	if rapid.IntRange(0, 9).Draw(t, "negotiated") < 8 {
		c.CIDC = rapid.SampledFrom(cidCodes[1:]).Draw(t, "cidc")
		c.CIDS = rapid.SampledFrom(cidCodes[1:]).Draw(t, "cids")
	} else {
		c.CIDC = rapid.SampledFrom(cidCodes).Draw(t, "cidc")
		c.CIDS = rapid.SampledFrom(cidCodes).Draw(t, "cids")
	}
	c.RRCOff = rapid.IntRange(0, 4).Draw(t, "rrcoff") == 0
	c.RRCSrvHook = c.RRCOff && rapid.Bool().Draw(t, "rrcsrvhook")
	c.Obs = rapid.SampledFrom([]string{"S", "S", "C"}).Draw(t, "obs")
	n := rapid.IntRange(1, 8).Draw(t, "nsteps")
	for i := 0; i < n; i++ {
		k := rapid.SampledFrom([]string{"fresh", "fresh", "fresh", "stale", "replay", "garbage", "owrite", "sleep", "release", "pchallenge", "keyedbad"}).Draw(t, "kind")
		st := Step{Kind: k}
		switch k {
		case "pchallenge":
			st.Src = rapid.SampledFrom(srcs).Draw(t, "src")
		case "keyedbad":
			st.Src = rapid.SampledFrom(srcs).Draw(t, "src")
			st.N = rapid.IntRange(0, 1).Draw(t, "n")
		case "fresh", "stale", "replay":
			st.Src = rapid.SampledFrom(srcs).Draw(t, "src")
			st.Resp = rapid.SampledFrom(resps).Draw(t, "resp")
			st.N = rapid.IntRange(0, 7).Draw(t, "n")
		case "garbage":
			st.Src = rapid.SampledFrom(srcs).Draw(t, "src")
			st.Resp = "timely"
			st.Garb = rapid.SampledFrom(garbs).Draw(t, "garb")
			st.N = rapid.IntRange(0, 63).Draw(t, "n")
		case "owrite":
			st.N = rapid.IntRange(0, 3).Draw(t, "n")
		case "sleep":
			st.Ms = rapid.SampledFrom([]int{1, 300, 900, 1000, 1001, 2400}).Draw(t, "ms")
		}
		c.Steps = append(c.Steps, st)
		if st.Resp == "hold" && (k == "fresh") && rapid.Bool().Draw(t, "tail") {
			// what happens to a held response: time passes, newer traffic overtakes it, then it arrives
			if rapid.Bool().Draw(t, "tailSleep") {
				c.Steps = append(c.Steps, Step{Kind: "sleep", Ms: rapid.SampledFrom([]int{300, 999, 1001, 1500}).Draw(t, "tms")})
			}
			if rapid.Bool().Draw(t, "tailFresh") {
				c.Steps = append(c.Steps, Step{Kind: "fresh", Src: rapid.SampledFrom([]string{"H", "B", "D", "X"}).Draw(t, "tsrc"), Resp: rapid.SampledFrom(resps).Draw(t, "tresp")})
			}
			c.Steps = append(c.Steps, Step{Kind: "release"})
		}
	}

	return c
}

// enumGrid: every ID-length pair x version x rrc x observed side for a fixed catalogue of short
// scenarios (honest migration, spoofed source, replayed/stale record from a new address, late /
// misdirected / duplicated response, racing candidates, writes while validation is pending).
func enumGrid(_ string, yield func(Case) bool) {
	for _, c := range gridCases() {
		if !yield(c) {
			return
		}
	}
}

func gridCases() []Case {
	scenarios := map[string][]Step{
		"honest-migration":   {{Kind: "fresh", Src: "B", Resp: "timely"}, {Kind: "owrite", N: 2}, {Kind: "fresh", Src: "B", Resp: "timely"}},
		"spoofed-source":     {{Kind: "fresh", Src: "X", Resp: "timely"}, {Kind: "owrite", N: 3}, {Kind: "fresh", Src: "X"}, {Kind: "owrite", N: 3}},
		"replay-from-new":    {{Kind: "fresh", Src: "H"}, {Kind: "replay", Src: "B", N: 0}, {Kind: "replay", Src: "X", N: 0}, {Kind: "owrite", N: 1}},
		"stale-from-new":     {{Kind: "stale", Src: "B", Resp: "timely"}, {Kind: "owrite", N: 1}},
		"late-response":      {{Kind: "fresh", Src: "B", Resp: "late"}, {Kind: "owrite", N: 1}},
		"response-elsewhere": {{Kind: "fresh", Src: "B", Resp: "wrongaddr"}, {Kind: "owrite", N: 1}},
		"dup-response":       {{Kind: "fresh", Src: "B", Resp: "dup"}, {Kind: "owrite", N: 1}},
		"racing":             {{Kind: "fresh", Src: "B", Resp: "hold"}, {Kind: "fresh", Src: "D", Resp: "hold"}, {Kind: "release"}, {Kind: "owrite", N: 1}},
		"held-then-late":     {{Kind: "fresh", Src: "B", Resp: "hold"}, {Kind: "sleep", Ms: 1001}, {Kind: "release"}, {Kind: "owrite", N: 1}},
		"pending-writes":     {{Kind: "fresh", Src: "B", Resp: "hold"}, {Kind: "owrite", N: 3}, {Kind: "owrite", N: 3}, {Kind: "release"}, {Kind: "owrite", N: 1}},
		"held-stale-late":    {{Kind: "fresh", Src: "B", Resp: "hold"}, {Kind: "sleep", Ms: 1001}, {Kind: "fresh", Src: "H"}, {Kind: "release"}, {Kind: "owrite", N: 1}},
		"held-stale-timely":  {{Kind: "fresh", Src: "B", Resp: "hold"}, {Kind: "fresh", Src: "H"}, {Kind: "release"}, {Kind: "owrite", N: 1}},
		"garbage-flip":       {{Kind: "garbage", Src: "B", Garb: "cid-flip", N: 3}, {Kind: "owrite", N: 1}},
		"garbage-strip":      {{Kind: "garbage", Src: "B", Garb: "cid-strip"}, {Kind: "owrite", N: 1}},
		"garbage-add":        {{Kind: "garbage", Src: "H", Garb: "cid-add", N: 1}, {Kind: "owrite", N: 1}},
		"garbage-body":       {{Kind: "garbage", Src: "X", Garb: "body", N: 2}, {Kind: "owrite", N: 1}},
		"migrate-and-back":   {{Kind: "fresh", Src: "B", Resp: "timely"}, {Kind: "fresh", Src: "H", Resp: "timely"}, {Kind: "owrite", N: 1}},
		"many-spoofs":        {{Kind: "fresh", Src: "X"}, {Kind: "fresh", Src: "X"}, {Kind: "fresh", Src: "X"}, {Kind: "sleep", Ms: 1001}, {Kind: "fresh", Src: "X"}, {Kind: "fresh", Src: "X"}},
	}
	names := make([]string, 0, len(scenarios))
	for k := range scenarios {
		names = append(names, k)
	}
	sortStrings(names)
	var out []Case
	// asymmetric ID lengths: a short challenge (it carries the observed side's short ID) draws a long
	// response (it carries the peer's long ID) - the only honest-looking traffic that reaches the budget
	for _, o := range []string{"S", "C"} {
		for _, lens := range [][2]int{{1, 120}, {120, 1}, {1, 200}, {200, 1}, {4, 8}} {
			for _, src := range []string{"X", "B", "H"} {
				out = append(out, Case{Ver: 12, CIDC: lens[0], CIDS: lens[1], Obs: o, Note: "authentic-challenge",
					Steps: []Step{{Kind: "pchallenge", Src: src}, {Kind: "pchallenge", Src: src}, {Kind: "owrite", N: 1}}})
			}
		}
	}
	for _, o := range []string{"S", "C"} {
		for _, n := range []int{0, 1} {
			for _, src := range []string{"H", "X"} {
				out = append(out, Case{Ver: 12, CIDC: 4, CIDS: 6, Obs: o, Note: "keyed-record-without-own-id",
					Steps: []Step{{Kind: "keyedbad", Src: src, N: n}, {Kind: "fresh", Src: "H", Resp: "timely"}}})
			}
		}
	}
	for _, ver := range []int{12, 13} {
		for _, cc := range cidCodes {
			for _, cs := range cidCodes {
				for _, off := range []bool{false, true} {
					if off && (cc == 0 || cs == 0) {
						continue
					}
					for _, o := range []string{"S", "C"} {
						for _, nm := range names {
							// thin the grid: full catalogue only for representative length pairs
							full := (cc == 4 && cs == 8) || (cc == 1000 && cs == 4) || (cc == 20 && cs == -1) || (cc == 8 && cs == 1)
							if !full && nm != "honest-migration" && nm != "spoofed-source" && nm != "replay-from-new" {
								continue
							}
							out = append(out, Case{Ver: ver, CIDC: cc, CIDS: cs, RRCOff: off, Obs: o, Steps: scenarios[nm], Note: nm})
						}
					}
				}
			}
		}
	}

	return out
}

func sortStrings(s []string) {
	for i := 1; i < len(s); i++ {
		for j := i; j > 0 && s[j] < s[j-1]; j-- {
			s[j], s[j-1] = s[j-1], s[j]
		}
	}
}

func init() {
	pbt.Register(pbt.Prop[Case]{
		Name: "path-grid", Enum: enumGrid, Exhaustive: true, Run: run, Crashy: true,
		Rule: "scenario delivers at least one authentic record from a new address, a replayed/stale record or a record with a damaged connection ID; distinct = (version, ID lengths, rrc, observed side, step list)",
	})
	pbt.Register(pbt.Prop[Case]{
		Name: "path-scenarios", Quick: 1500, Thorough: 60000, Gen: genCase, Run: run, Crashy: true,
		Rule: "scenario delivers at least one authentic record from a new address, a replayed/stale record or a record with a damaged connection ID; distinct = (version, suite, ID lengths, rrc, observed side, step list)",
	})
}
