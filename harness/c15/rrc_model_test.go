package c15

import (
	"fmt"
	"net"
	"time"

	"github.com/pion/dtls/v3/internal/rrc"
	"github.com/pion/dtls/v3/internal/zzverif/lib/pbt"
	"github.com/pion/dtls/v3/internal/zzverif/lib/vnet"
	"pgregory.net/rapid"
)

// MCase is an operation history applied to one rrc.Manager (the path-validation and
// amplification bookkeeping) on a virtual clock, compared with a cumulative model.
type MCase struct {
	Ops []MOp `json:"ops"`
}

// MOp kinds: recv (authentic record of N bytes from Addr; Latest says whether it was the newest),
// start (the connection offers Addr as candidate, Enabled = rrc negotiated && record had our ID &&
// newest), reserve (N bytes about to be sent to Addr), resp (a path response arrives from Addr
// carrying cookie number Ck: the Ck-th cookie issued so far, or an unknown one when out of range),
// cancel (challenge write failed), sleep (Ms).
type MOp struct {
	K       string `json:"k"`
	Addr    int    `json:"a,omitempty"` // 0 = the active address, 1..3 candidates
	N       int    `json:"n,omitempty"`
	Enabled bool   `json:"en,omitempty"`
	Latest  bool   `json:"latest,omitempty"`
	Ck      int    `json:"ck,omitempty"`
	Ms      int    `json:"ms,omitempty"`
}

type issued struct {
	addr   int
	cookie [8]byte
	at     time.Time
	dead   bool // consumed by a successful response or cancelled
}

func runModel(c MCase, r *pbt.R) {
	berr := pbt.Bubble(func() {
		var m rrc.Manager
		addrs := []net.Addr{vnet.Addr("A0"), vnet.Addr("A1"), vnet.Addr("A2"), vnet.Addr("A3")}
		active := 0
		activeFn := func() net.Addr { return addrs[active] }
		recv := map[int]uint64{}
		sent := map[int]uint64{}
		var cookies []issued
		accepted, reservedOK, started := 0, 0, 0
		for i, op := range c.Ops {
			a := 0
			if op.Addr > 0 {
				a = op.Addr % len(addrs)
			}
			switch op.K {
			case "recv":
				marker := m.WrapReplayMarker(func() bool { return op.Latest }, addrs[a], op.N, activeFn, true)
				got := marker()
				_ = marker() // a second call must not count the bytes again
				if got != op.Latest {
					r.Failf("C15|rrc-model|marker-changes-latest", "op %d: wrapped marker returned %v for %v", i, got, op.Latest)

					return
				}
				if a != active && op.N > 0 {
					recv[a] += uint64(op.N) //nolint:gosec
				}
			case "start":
				ck, ok, err := m.Start(op.Enabled, addrs[a], activeFn())
				if err != nil {
					continue
				}
				if ok {
					started++
					if !op.Enabled {
						r.Failf("C15|rrc-model|challenge-without-newest-authentic-record", "op %d: Start issued a challenge although the record was not an authentic newest record with our ID", i)

						return
					}
					if a == active {
						r.Failf("C15|rrc-model|challenge-to-active-address", "op %d: Start issued a challenge for the validated address", i)

						return
					}
					for _, old := range cookies {
						if old.cookie == ck {
							r.Failf("C15|rrc-model|cookie-reused", "op %d: cookie %x issued twice", i, ck)

							return
						}
					}
					for j := range cookies {
						if cookies[j].addr == a {
							cookies[j].dead = true // replaced by the new challenge for this address
						}
					}
					cookies = append(cookies, issued{addr: a, cookie: ck, at: time.Now()})
				}
			case "reserve":
				err := m.Reserve(addrs[a], activeFn(), op.N)
				if err == nil && a != active {
					reservedOK++
					sent[a] += uint64(op.N) //nolint:gosec
					if sent[a] > 3*recv[a] {
						r.Failf("C15|rrc-model|amplification-limit-exceeded", "op %d: %d bytes reserved towards unvalidated address %d, only %d received from it (history %+v)", i, sent[a], a, recv[a], c.Ops[:i+1])

						return
					}
				}
			case "resp":
				var ck [8]byte
				idx := -1
				if len(cookies) > 0 && op.Ck >= 0 && op.Ck < len(cookies) {
					idx = op.Ck
					ck = cookies[idx].cookie
				} else {
					ck = [8]byte{0xde, 0xad, byte(op.Ck)}
				}
				if op.Addr < 0 && idx >= 0 {
					a = cookies[idx].addr
				} else if op.Addr < 0 {
					a = 1
				}
				ok := m.HandleResponse(addrs[a], ck)
				if ok {
					accepted++
					switch {
					case idx < 0:
						r.Failf("C15|rrc-model|response-accepted|unknown-cookie", "op %d: response with a cookie never issued was accepted", i)
					case cookies[idx].addr != a:
						r.Failf("C15|rrc-model|response-accepted|other-address", "op %d: cookie issued for address %d accepted from address %d", i, cookies[idx].addr, a)
					case cookies[idx].dead:
						r.Failf("C15|rrc-model|response-accepted|cookie-already-used", "op %d: cookie %d accepted after it was consumed or cancelled", i, idx)
					case !time.Now().Before(cookies[idx].at.Add(time.Second)):
						r.Failf("C15|rrc-model|response-accepted|late", "op %d: response accepted %v after the challenge", i, time.Since(cookies[idx].at))
					default:
						// validated: the connection switches, every candidate is forgotten
						active = a
						for j := range cookies {
							cookies[j].dead = true
						}
						recv, sent = map[int]uint64{}, map[int]uint64{}

						continue
					}

					return
				}
			case "cancel":
				if len(cookies) > 0 && op.Ck >= 0 && op.Ck < len(cookies) {
					m.Cancel(addrs[cookies[op.Ck].addr], cookies[op.Ck].cookie)
					cookies[op.Ck].dead = true
				}
			case "sleep":
				time.Sleep(time.Duration(op.Ms) * time.Millisecond)
			}
		}
		cl := []string{}
		if accepted > 0 {
			cl = append(cl, "response-accepted")
		}
		if reservedOK > 0 {
			cl = append(cl, "reserve-granted")
		}
		if started > 0 {
			cl = append(cl, "challenge-issued")
		}
		r.Eval(fmt.Sprintf("%+v", c.Ops), started > 0 && (accepted > 0 || reservedOK > 0), cl...)
	})
	if berr != nil && !berr.Deadlock {
		r.Failf(pbt.PanicSig("C15", []byte(berr.Stack)), "panic: %v\n%s", berr.Value, berr.Stack)
	}
}

func genModel(t *rapid.T) MCase {
	n := rapid.IntRange(2, 24).Draw(t, "n")
	var c MCase
	issuedSoFar := 0
	for i := 0; i < n; i++ {
		k := rapid.SampledFrom([]string{"recv", "recv", "start", "start", "reserve", "reserve", "reserve", "resp", "resp", "cancel", "sleep"}).Draw(t, "k")
		op := MOp{K: k, Addr: rapid.SampledFrom([]int{0, 1, 1, 1, 2, 3}).Draw(t, "a")}
		switch k {
		case "recv":
			op.N = rapid.SampledFrom([]int{0, 1, 13, 40, 100, 1200}).Draw(t, "n")
			op.Latest = rapid.Bool().Draw(t, "latest")
		case "start":
			op.Enabled = rapid.IntRange(0, 4).Draw(t, "en") > 0
			issuedSoFar++
		case "reserve":
			op.N = rapid.SampledFrom([]int{1, 13, 39, 40, 41, 119, 120, 121, 300, 3600, 3601}).Draw(t, "n")
		case "resp", "cancel":
			op.Ck = rapid.IntRange(-1, issuedSoFar).Draw(t, "ck")
			if k == "resp" && rapid.Bool().Draw(t, "fromChallenged") {
				op.Addr = -1 // from the address the cookie was issued for
				if rapid.Bool().Draw(t, "newestCookie") && issuedSoFar > 0 {
					op.Ck = issuedSoFar - 1
				}
			}
		case "sleep":
			op.Ms = rapid.SampledFrom([]int{1, 400, 999, 1001, 1500}).Draw(t, "ms")
		}
		c.Ops = append(c.Ops, op)
	}

	return c
}

func init() {
	pbt.Register(pbt.Prop[MCase]{
		Name: "rrc-manager-model", Quick: 6000, Thorough: 400000, Gen: genModel, Run: runModel,
		Rule: "history issues at least one challenge and then has a response accepted or a reservation granted; distinct = operation list",
	})
}
