package c13

import (
	"bytes"
	"context"
	"fmt"
	"os"
	"strings"
	"testing"
	"time"

	dtls "github.com/pion/dtls/v3"
	"github.com/pion/dtls/v3/internal/zzverif/lib/pbt"
	"github.com/pion/dtls/v3/internal/zzverif/lib/scen"
	"github.com/pion/dtls/v3/internal/zzverif/lib/vnet"
	"pgregory.net/rapid"
)

func TestMain(m *testing.M) { pbt.Main(m, "C13") }

func TestProps(t *testing.T) { pbt.RunAll(t) }

func TestReplay(t *testing.T) { pbt.Replay(t) }

// Step is one ClientHello sent by the raw client.
type Step struct {
	Cookie string `json:"cookie"` // absent, right, wrongbyte, truncated, extended, stale, empty
	Alter  string `json:"alter"`  // none, random, suites-drop, suites-swap, sid, compression, ext-byte, ext-drop, ext-add, version
	GapMs  int    `json:"gap"`    // virtual time to wait before sending
	Frag   bool   `json:"frag,omitempty"`
	Repeat int    `json:"repeat,omitempty"`
}

// Case is a sequence of hellos against a server with hello verification on.
type Case struct {
	Ver       int    `json:"ver"` // 12 | 13
	Family    string `json:"family"`
	KnownID   bool   `json:"knownid,omitempty"`   // 1.2: first hello offers a session id the server knows
	BogusID   bool   `json:"bogusid,omitempty"`   // first hello offers an unknown session id
	SrvStore  bool   `json:"srvstore,omitempty"`  // the server has a session store (which does not know the offered id)
	NoBackoff bool   `json:"nobackoff,omitempty"` // server configured with WithDisableRetransmitBackoff
	IvlMs     int    `json:"ivl"`
	// OtherGroup (1.3): the server only allows a group the first hello has no key share for, so that its
	// HelloRetryRequest selects a group besides carrying the cookie
	OtherGroup bool `json:"othergroup,omitempty"`
	// PSKModes (1.3): the first hello advertises psk_key_exchange_modes, as most TLS 1.3 stacks do
	PSKModes bool   `json:"pskmodes,omitempty"`
	Steps    []Step `json:"steps"`
}

var hrrRandom = []byte{0xCF, 0x21, 0xAD, 0x74, 0xE5, 0x9A, 0x61, 0x11, 0xBE, 0x1D, 0x8C, 0x02, 0x1E, 0x65, 0xB8, 0x91, 0xC2, 0xA2, 0x11, 0x16, 0x7A, 0xBB, 0x8C, 0x5E, 0x07, 0x9E, 0x09, 0xE2, 0xC8, 0xA8, 0x33, 0x9C}

func epsFor(c *Case) (cl, sv scen.EP) {
	cl = scen.EP{RootCA: 1, ServerName: scen.ServerName}
	sv = scen.EP{Cert: "ecdsa"}
	if c.Family == "psk" {
		cl = scen.EP{PSK: "cookie-psk-001", PSKHint: "id", Suites: []uint16{0x00a8, 0xc0a8}}
		sv = scen.EP{PSK: "cookie-psk-001", PSKHint: "h", Suites: []uint16{0x00a8, 0xc0a8}}
	}
	if c.Ver == 13 {
		cl.MinVer, cl.MaxVer, sv.MinVer, sv.MaxVer = 13, 13, 13, 13
		cl.Curves, sv.Curves = []uint16{0x1d, 0x17}, []uint16{0x1d, 0x17}
		if c.OtherGroup {
			sv.Curves = []uint16{0x17} // the first hello's only key share is for 0x1d
		}
	}
	cl.IntervalMs, sv.IntervalMs = c.IvlMs, c.IvlMs
	if c.Ver == 12 {
		// the two extensions the server DOES compare between the first and the second hello
		cl.CID, sv.CID = 4, 4
		cl.SRTP, sv.SRTP = []uint16{1, 2}, []uint16{1, 2}
	}
	if c.KnownID {
		cl.Store, sv.Store = "cs", "ss"
	}
	if c.SrvStore {
		sv.Store = "ss"
	}
	sv.NoBackoff = c.NoBackoff

	return cl, sv
}

// emission classification of one server datagram
func classify(d []byte) (kinds []string) {
	recs, ok := scen.SplitDatagram(d, 0)
	if !ok {
		recs, ok = scen.SplitDatagram(d, 4) // records towards the DTLS 1.2 client carry its 4-byte connection ID
	}
	if !ok {
		return []string{"unparseable"}
	}
	for _, r := range recs {
		switch {
		case r.Kind == "unified":
			kinds = append(kinds, "protected")
		case r.Epoch != 0:
			kinds = append(kinds, "protected")
		case r.Type == scen.CTAlert:
			kinds = append(kinds, "alert")
		case r.Type == scen.CTChangeCipherSpec:
			kinds = append(kinds, "ccs")
		case r.Type == scen.CTHandshake:
			fr, _ := scen.SplitHandshake(r.Body)
			for _, f := range fr {
				switch {
				case f.Type == scen.HTHelloVerifyRequest:
					kinds = append(kinds, "HVR")
				case f.Type == scen.HTServerHello && f.FragOff == 0 && len(f.Body) >= 34 && bytes.Equal(f.Body[2:34], hrrRandom):
					kinds = append(kinds, "HRR")
				default:
					kinds = append(kinds, fmt.Sprintf("hs%d", f.Type))
				}
			}
		default:
			kinds = append(kinds, fmt.Sprintf("type%d", r.Type))
		}
	}

	return kinds
}

func cookieFrom(d []byte, ver int) ([]byte, bool) {
	if ver == 12 {
		f, ok := scen.FirstPlainHS(d, scen.HTHelloVerifyRequest)
		if !ok || len(f.Body) < 3 {
			return nil, false
		}
		n := int(f.Body[2])
		if len(f.Body) < 3+n {
			return nil, false
		}

		return append([]byte(nil), f.Body[3:3+n]...), true
	}
	f, ok := scen.FirstPlainHS(d, scen.HTServerHello)
	if !ok {
		return nil, false
	}
	sh, ok := scen.ParseServerHello(f.Body)
	if !ok || !bytes.Equal(sh.Random, hrrRandom) {
		return nil, false
	}
	ck, ok := scen.FindExt(sh.Exts, 44)
	if !ok || len(ck) < 2 {
		return nil, false
	}

	return append([]byte(nil), ck[2:]...), true
}

type attempt struct {
	idx  int
	what string
}

func attemptBefore(evs []vnet.Event, attempts []attempt) string {
	name := "nothing"
	for _, a := range attempts {
		if a.idx <= len(evs) {
			name = a.what
		}
	}

	return name
}

func withCookie(ch *scen.ClientHello, ver int, cookie []byte, present bool) *scen.ClientHello {
	out := *ch
	out.Exts = append([]scen.Ext(nil), ch.Exts...)
	if ver == 12 {
		out.Cookie = nil
		if present {
			out.Cookie = cookie
		}

		return &out
	}
	if present {
		data := append([]byte{byte(len(cookie) >> 8), byte(len(cookie))}, cookie...)
		out.Exts = append(out.Exts, scen.Ext{Type: 44, Data: data})
	}

	return &out
}

func alter(ch *scen.ClientHello, how string) (*scen.ClientHello, bool) {
	out := *ch
	out.Random = append([]byte(nil), ch.Random...)
	out.Suites = append([]uint16(nil), ch.Suites...)
	out.Exts = append([]scen.Ext(nil), ch.Exts...)
	switch how {
	case "none":
		return &out, false
	case "random":
		out.Random[7] ^= 0x01
	case "suites-drop":
		if len(out.Suites) < 2 {
			return &out, false
		}
		out.Suites = out.Suites[:len(out.Suites)-1]
	case "suites-swap":
		if len(out.Suites) < 2 || out.Suites[0] == out.Suites[1] {
			return &out, false
		}
		out.Suites[0], out.Suites[1] = out.Suites[1], out.Suites[0]
	case "sid":
		out.SID = append(append([]byte(nil), ch.SID...), 0x5a)
	case "sid-content":
		// same length, other content (only possible when the first hello offered a session id)
		if len(ch.SID) == 0 {
			return &out, false
		}
		out.SID = append([]byte(nil), ch.SID...)
		out.SID[len(out.SID)/2] ^= 0x21
	case "compression":
		out.Comp = append(append([]byte(nil), ch.Comp...), 1)
	case "cid-ext", "srtp-ext":
		// a change inside connection_id (54) / use_srtp (14): these two the server compares
		want := uint16(54)
		if how == "srtp-ext" {
			want = 14
		}
		for i, e := range out.Exts {
			if e.Type == want && len(e.Data) > 0 {
				d := append([]byte(nil), e.Data...)
				d[len(d)-1] ^= 0x01
				out.Exts[i] = scen.Ext{Type: e.Type, Data: d}

				return &out, true
			}
		}

		return &out, false
	case "ext-byte":
		// (one of the extensions the server does not compare)
		for i, e := range out.Exts {
			if len(e.Data) > 0 && e.Type != 44 && e.Type != 54 && e.Type != 14 {
				d := append([]byte(nil), e.Data...)
				d[len(d)-1] ^= 0x01
				out.Exts[i] = scen.Ext{Type: e.Type, Data: d}

				return &out, true
			}
		}

		return &out, false
	case "ext-drop":
		for i, e := range out.Exts {
			if e.Type != 44 && e.Type != 43 && e.Type != 51 && e.Type != 10 && e.Type != 54 && e.Type != 14 {
				out.Exts = append(out.Exts[:i:i], out.Exts[i+1:]...)

				return &out, true
			}
		}

		return &out, false
	case "ext-add":
		out.Exts = append(out.Exts, scen.Ext{Type: 0xfaf0, Data: []byte{1, 2, 3}})
		out.HasExts = true
	case "psk-add":
		// a pre_shared_key extension (last, as it must be) the first hello did not have; 1.3 only
		is13 := false
		for _, e := range out.Exts {
			is13 = is13 || e.Type == 43
		}
		if !is13 {
			return &out, false
		}
		d := []byte{0, 10, 0, 4, 't', 'k', 't', '1', 0, 0, 0, 7, 0, 33, 32}
		d = append(d, bytes.Repeat([]byte{0x5c}, 32)...)
		out.Exts = append(out.Exts, scen.Ext{Type: 41, Data: d})
	case "version":
		out.Version = [2]byte{0xfe, 0xff}
	default:
		return &out, false
	}

	return &out, true
}

func run(c Case, r *pbt.R) {
	berr := pbt.Bubble(func() {
		cEP, sEP := epsFor(&c)
		env := scen.NewEnv()
		env.Log = &scen.LogSink{Keep: os.Getenv("VERIF_DEBUG") != ""}
		if c.KnownID {
			p0 := scen.NewPair(env, &cEP, &sEP)
			p0.Handshake(5 * time.Minute)
			ok := p0.C.OK() && p0.S.OK()
			p0.Close()
			scen.Settle()
			if !ok {
				r.Failf("C13|harness|prime", "priming connection failed")

				return
			}
		}
		// capture a genuine first ClientHello from a real client talking to nobody
		capNet := vnet.New()
		capEP := capNet.Endpoint("C")
		copts, err := cEP.ClientOptions(env)
		if err != nil {
			r.Failf("C13|harness|opts", "%v", err)

			return
		}
		cc, err := dtls.ClientWithOptions(capEP, vnet.Addr("S"), copts...)
		if err != nil {
			r.Failf("C13|harness|client", "%v", err)

			return
		}
		ctx, cancel := context.WithTimeout(context.Background(), time.Millisecond)
		_ = cc.HandshakeContext(ctx)
		cancel()
		_ = cc.Close()
		_ = capEP.Close()
		scen.Settle()
		var ch1 *scen.ClientHello
		for _, ev := range capNet.EventsFrom("C") {
			if f, ok := scen.FirstPlainHS(ev.Data, scen.HTClientHello); ok {
				ch1, _ = scen.ParseClientHello(f.Body)

				break
			}
		}
		if ch1 == nil {
			r.Failf("C13|harness|capture", "no ClientHello captured")

			return
		}
		if c.BogusID && !c.KnownID {
			ch1.SID = bytes.Repeat([]byte{0xab}, 32)
		}
		if !c.KnownID && !c.BogusID {
			ch1.SID = nil
		}
		if c.OtherGroup && c.Ver == 13 {
			// keep only the key shares of groups the server does not allow
			for i, e := range ch1.Exts {
				if e.Type != 51 || len(e.Data) < 2 {
					continue
				}
				var kept []byte
				for d := e.Data[2:]; len(d) >= 4; {
					n := 4 + int(d[2])<<8 | int(d[3])
					if n > len(d) {
						break
					}
					if !(d[0] == 0 && d[1] == 0x17) {
						kept = append(kept, d[:n]...)
					}
					d = d[n:]
				}
				ch1.Exts[i] = scen.Ext{Type: 51, Data: append([]byte{byte(len(kept) >> 8), byte(len(kept))}, kept...)}
			}
		}
		if c.PSKModes && c.Ver == 13 {
			ch1.Exts = append(ch1.Exts, scen.Ext{Type: 45, Data: []byte{1, 1}}) // psk_dhe_ke
		}
		// the server under test
		n := vnet.New()
		sep := n.Endpoint("S")
		sopts, err := sEP.ServerOptions(env)
		if err != nil {
			r.Failf("C13|harness|opts", "%v", err)

			return
		}
		srv, err := dtls.ServerWithOptions(sep, vnet.Addr("C"), sopts...)
		if err != nil {
			r.Failf("C13|harness|server", "%v", err)

			return
		}
		hsDone := make(chan error, 2)
		go func() {
			ctx, cancel := context.WithTimeout(context.Background(), 30*time.Minute)
			defer cancel()
			hsDone <- srv.HandshakeContext(ctx)
		}()
		defer func() {
			_ = srv.Close()
			_ = sep.Close()
			<-hsDone
		}()
		scen.Settle()
		recSeq := uint64(0)
		var issued [][]byte // cookies issued so far, in order
		var recvAt, ackAt []time.Duration
		junkKind := map[time.Duration]string{} // instants of non-ClientHello handshake records
		recvBytes := 0
		dead := func() bool {
			select {
			case err := <-hsDone:
				hsDone <- err

				return err != nil
			default:
				return false
			}
		}
		accepted := false // a hello echoing the latest cookie and otherwise equal to ch1 was delivered
		acceptedAt := time.Duration(-1)
		_ = acceptedAt
		acceptedIdx := 1 << 30
		lastAttempt := "first-hello"
		nNonAccepting, idleGap := 0, false
		var attempts []attempt
		send := func(ch *scen.ClientHello, msgSeq uint16, frag bool) {
			attempts = append(attempts, attempt{len(n.Events()), lastAttempt})
			body := ch.Marshal()
			if frag && len(body) > 40 {
				cut := len(body) / 2
				d1 := scen.HSRecordFrag(recSeq, scen.HTClientHello, msgSeq, len(body), 0, body[:cut])
				d2 := scen.HSRecordFrag(recSeq+1, scen.HTClientHello, msgSeq, len(body), cut, body[cut:])
				recSeq += 2
				recvBytes += len(d1) + len(d2)
				n.Inject("C", "S", d1)
				n.Inject("C", "S", d2)
				recvAt = append(recvAt, n.Now())
			} else {
				d := scen.HSRecord(recSeq, scen.HTClientHello, msgSeq, body)
				recSeq++
				recvBytes += len(d)
				n.Inject("C", "S", d)
			}
			recvAt = append(recvAt, n.Now())
			scen.Settle()
			for _, ev := range n.EventsFrom("S") {
				if ck, ok := cookieFrom(ev.Data, c.Ver); ok {
					if len(issued) == 0 || !bytes.Equal(issued[len(issued)-1], ck) {
						issued = append(issued, ck)
					}
				}
			}
		}
		// first hello
		send(withCookie(ch1, c.Ver, nil, false), 0, false)
		for _, st := range c.Steps {
			if st.GapMs > 0 {
				time.Sleep(time.Duration(st.GapMs) * time.Millisecond)
				scen.Settle()
				if st.GapMs >= c.IvlMs {
					idleGap = true
				}
			}
			if st.Cookie == "ack" {
				// not a ClientHello at all: a plaintext ACK record with an empty record list. Alone at its
				// instant, so that any cookie request it provokes is attributable.
				time.Sleep(time.Millisecond)
				d := []byte{26, 0xfe, 0xfd, 0, 0, 0, 0, 0, 0, byte(recSeq >> 8), byte(recSeq), 0, 2, 0, 0}
				recSeq++
				n.Inject("C", "S", d)
				scen.Settle()
				ackAt = append(ackAt, n.Now())
				time.Sleep(time.Millisecond)
				nNonAccepting++

				continue
			}
			if st.Cookie == "hs-finished" || st.Cookie == "hs-emptyfrag" {
				// not a ClientHello either: a handshake record of another message type. hs-finished: a Finished
				// header with message_seq 0 and no body; hs-emptyfrag: a zero-length fragment of a 100-byte
				// Certificate with message_seq 1. Alone at its instant.
				time.Sleep(time.Millisecond)
				hs := []byte{20, 0, 0, 0, 0, 0, 0, 0, 0, 0, 0, 0}
				if st.Cookie == "hs-emptyfrag" {
					hs = []byte{11, 0, 0, 100, 0, 1, 0, 0, 0, 0, 0, 0}
				}
				d := append([]byte{22, 0xfe, 0xfd, 0, 0, 0, 0, 0, 0, byte(recSeq >> 8), byte(recSeq), 0, 12}, hs...)
				recSeq++
				n.Inject("C", "S", d)
				scen.Settle()
				ackAt = append(ackAt, n.Now())
				junkKind[n.Now()] = st.Cookie
				time.Sleep(time.Millisecond)
				nNonAccepting++

				continue
			}
			for rep := 0; rep <= st.Repeat; rep++ {
				var cookie []byte
				present := true
				latest := []byte(nil)
				if len(issued) > 0 {
					latest = issued[len(issued)-1]
				}
				isRight := false
				switch st.Cookie {
				case "absent":
					present = false
				case "right":
					cookie, isRight = latest, latest != nil
				case "wrongbyte":
					cookie = append([]byte(nil), latest...)
					if len(cookie) > 0 {
						cookie[len(cookie)/2] ^= 0x40
					} else {
						cookie = []byte{1}
					}
				case "truncated":
					if len(latest) > 1 {
						cookie = latest[:len(latest)-1]
					}
				case "extended":
					cookie = append(append([]byte(nil), latest...), 0x00)
				case "stale":
					if len(issued) > 1 {
						cookie = issued[0]
					} else {
						cookie = bytes.Repeat([]byte{0x11}, len(latest))
					}
				case "empty":
					cookie = []byte{}
					present = c.Ver == 13
				}
				base := withCookie(ch1, c.Ver, cookie, present)
				chx, altered := alter(base, st.Alter)
				msgSeq := uint16(1)
				if !present {
					msgSeq = 0
				}
				willAccept := isRight && !altered && !accepted && !dead()
				if !willAccept {
					nNonAccepting++
				}
				if willAccept {
					accepted = true
					acceptedAt = n.Now()
					acceptedIdx = len(n.Events())
				} else if !accepted {
					lastAttempt = fmt.Sprintf("cookie=%s,alter=%s", st.Cookie, st.Alter)
					if !altered {
						lastAttempt = fmt.Sprintf("cookie=%s,alter=none", st.Cookie)
					}
				}
				send(chx, msgSeq, st.Frag)
			}
		}
		// let timers run for a long idle period
		time.Sleep(10 * time.Minute)
		scen.Settle()
		if os.Getenv("VERIF_DEBUG") != "" {
			for _, ev := range n.Events() {
				fmt.Printf("%10v %s->%s %s %v\n", ev.T, ev.From, ev.To, scen.Describe(ev.Data, 0), classify(ev.Data))
			}
			fmt.Println(strings.Join(env.Log.Lines, "\n"))
		}
		// ---- oracle
		ver := map[int]string{12: "dtls12", 13: "dtls13"}[c.Ver]
		isRecvInstant := func(t time.Duration) bool {
			for _, x := range recvAt {
				if x == t {
					return true
				}
			}

			return false
		}
		emitted, requests, sawFlight := 0, 0, false
		resumedDirect := false
		for evIdx, ev := range n.Events() {
			if ev.From != "S" {
				continue
			}
			kinds := classify(ev.Data)
			pre := evIdx < acceptedIdx
			for _, k := range kinds {
				switch k {
				case "HVR", "HRR":
					requests++
					for _, a := range ackAt {
						if a == ev.T && !isRecvInstant(ev.T) && junkKind[a] != "" {
							r.Failf("C13|"+ver+"|cookie-request-in-response-to-other-handshake-record", "cookie request emitted at %v in response to a handshake record that is no ClientHello (%s), no ClientHello arrived then (hellos at %v)", ev.T, junkKind[a], recvAt)

							return
						}
						if a == ev.T && !isRecvInstant(ev.T) {
							r.Failf("C13|"+ver+"|cookie-request-in-response-to-ack", "cookie request emitted at %v in response to a plaintext ACK record, no ClientHello arrived then (hellos at %v)", ev.T, recvAt)

							return
						}
					}
					if !isRecvInstant(ev.T) {
						r.Failf("C13|"+ver+"|cookie-request-on-timer", "cookie request emitted at %v, not at the instant of a ClientHello receipt %v", ev.T, recvAt)

						return
					}
				case "alert":
				default:
					if pre && !sawFlight {
						if c.KnownID && c.Ver == 12 && (k == "hs2" || k == "ccs" || k == "protected") {
							resumedDirect = true // the stated exception: the hello resumes a session the server knows

							continue
						}
						// which hello made the server continue: the last one delivered before this emission
						r.Failf("C13|"+ver+"|server-continues-after|"+attemptBefore(n.Events()[:evIdx], attempts), "server emitted %v at %v before a ClientHello echoing its cookie and otherwise identical to the first arrived (steps %+v)", kinds, ev.T, c.Steps)
						if r.Failed() {
							return
						}
						sawFlight, resumedDirect = true, true // listed finding: the amplification bound no longer applies to this run

						continue
					}
					sawFlight = true
				}
			}
			if pre {
				emitted += len(ev.Data)
			}
		}
		if requests > len(recvAt) {
			r.Failf("C13|"+ver+"|more-requests-than-hellos", "%d cookie requests for %d ClientHello datagrams", requests, len(recvAt))

			return
		}
		if !resumedDirect && emitted > recvBytes {
			r.Failf("C13|"+ver+"|amplification", "server emitted %d bytes before the cookie came back, received %d", emitted, recvBytes)

			return
		}
		// (with OtherGroup a hello that only adds the cookie lacks the key share the request asked for: the
		// server may refuse it)
		if accepted && !sawFlight && !c.OtherGroup {
			r.Failf("C13|"+ver+"|control-failed", "the right second hello did not make the server continue (steps %+v)", c.Steps)

			return
		}
		if len(issued) == 0 && !resumedDirect {
			r.Failf("C13|"+ver+"|no-cookie-request", "server never issued a cookie request")

			return
		}
		if nNonAccepting > 0 || idleGap {
			r.NonTrivial()
		}
		r.Class(ver)
		if resumedDirect {
			r.Class("known-session-exception")
		}
		if accepted {
			r.Class("accepted")
		}
		for _, st := range c.Steps {
			r.Class("cookie=" + st.Cookie)
			r.Class("alter=" + st.Alter)
		}
	})
	if berr != nil {
		if berr.Deadlock {
			r.Failf("C13|bubble-deadlock", "goroutines left blocked: %v", berr.Value)
		} else {
			r.Failf(pbt.PanicSig("C13", []byte(berr.Stack)), "panic: %v\n%s", berr.Value, berr.Stack)
		}
	}
}

var (
	cookies = []string{"absent", "right", "wrongbyte", "truncated", "extended", "stale", "empty"}
	alters  = []string{"none", "random", "suites-drop", "suites-swap", "sid", "sid-content", "compression", "ext-byte", "ext-drop", "ext-add", "version", "cid-ext", "srtp-ext", "psk-add"}
)

func gen(t *rapid.T) Case {
	c := Case{Ver: rapid.SampledFrom([]int{12, 12, 13}).Draw(t, "ver"), IvlMs: rapid.SampledFrom([]int{100, 1000}).Draw(t, "ivl")}
	c.Family = "cert"
	if c.Ver == 12 {
		c.Family = rapid.SampledFrom([]string{"cert", "cert", "psk"}).Draw(t, "family")
		switch rapid.IntRange(0, 5).Draw(t, "sid") {
		case 0:
			c.KnownID = c.Family == "cert"
		case 1, 2:
			c.BogusID = true
			c.SrvStore = rapid.Bool().Draw(t, "srvstore")
		}
	}
	c.NoBackoff = rapid.IntRange(0, 3).Draw(t, "nobackoff") == 0
	if c.Ver == 13 {
		c.OtherGroup = rapid.IntRange(0, 2).Draw(t, "othergroup") == 0
		c.PSKModes = rapid.Bool().Draw(t, "pskmodes")
	}
	ns := rapid.IntRange(1, 5).Draw(t, "nsteps")
	for i := 0; i < ns; i++ {
		st := Step{
			Cookie: rapid.SampledFrom(append(append([]string(nil), cookies...), "ack", "hs-finished", "hs-emptyfrag")).Draw(t, "cookie"),
			Alter:  "none",
			GapMs:  rapid.SampledFrom([]int{0, 0, c.IvlMs / 2, c.IvlMs, 10 * c.IvlMs, 300000}).Draw(t, "gap"),
			Frag:   rapid.IntRange(0, 4).Draw(t, "frag") == 0,
			Repeat: rapid.SampledFrom([]int{0, 0, 0, 1, 3}).Draw(t, "repeat"),
		}
		if rapid.IntRange(0, 1).Draw(t, "alt") == 1 {
			st.Alter = rapid.SampledFrom(alters).Draw(t, "alter")
		}
		c.Steps = append(c.Steps, st)
	}

	return c
}

func enumGrid(_ string, yield func(Case) bool) {
	type v13 struct{ og, pm bool }
	for _, ver := range []int{12, 13} {
		for _, nb := range []bool{false, true} {
			if ver == 13 {
				// the request that also selects a group, left unanswered
				if !yield(Case{Ver: 13, Family: "cert", IvlMs: 100, NoBackoff: nb, OtherGroup: true, Steps: []Step{{Cookie: "absent", Alter: "none", GapMs: 3000}}}) {
					return
				}
			}
			// silence after the first hello (the run ends with ten idle minutes), with and without backoff
			if !yield(Case{Ver: ver, Family: "cert", IvlMs: 100, NoBackoff: nb, Steps: []Step{{Cookie: "absent", Alter: "none", GapMs: 3000}}}) {
				return
			}
			// plaintext ACK records while the server waits for the cookie
			if !yield(Case{Ver: ver, Family: "cert", IvlMs: 1000, NoBackoff: nb, Steps: []Step{{Cookie: "ack"}, {Cookie: "ack"}, {Cookie: "ack"}, {Cookie: "right", Alter: "none"}}}) {
				return
			}
		}
		for _, ck := range cookies {
			for _, al := range alters {
				for _, gap := range []int{0, 5000} {
					c := Case{Ver: ver, Family: "cert", IvlMs: 1000, Steps: []Step{{Cookie: ck, Alter: al, GapMs: gap}, {Cookie: "right", Alter: "none"}}}
					if !yield(c) {
						return
					}
					if ver == 13 && gap == 0 {
						for _, x := range []v13{{true, false}, {false, true}} {
							c2 := c
							c2.OtherGroup, c2.PSKModes = x.og, x.pm
							if !yield(c2) {
								return
							}
						}
					}
					if ver == 12 && gap == 0 {
						// the first hello offers a session id the server cannot know, with and without a store
						for _, st := range []bool{false, true} {
							c2 := c
							c2.BogusID, c2.SrvStore = true, st
							if !yield(c2) {
								return
							}
						}
					}
				}
			}
		}
	}
}

func init() {
	rule := "raw client (hellos built by byte surgery on a captured genuine ClientHello) against a live server with hello verification on: first hello, then a generated sequence of " +
		"second hellos (cookie absent/right/wrong byte/truncated/extended/stale/empty x body identical or one field altered x repetitions x virtual-time gaps x fragmentation), both versions; " +
		"oracle on the tap: before a hello echoing exactly the issued cookie and otherwise identical arrived, the server emits only HelloVerifyRequest/HelloRetryRequest or alerts, " +
		"each at the instant of a hello receipt (never on a timer, 10 idle minutes observed), at most one per received hello, bytes emitted <= bytes received; the right hello makes the server flight appear. " +
		"non-trivial = >=1 non-accepting second hello or an idle gap >= I; distinct = whole case"
	pbt.Register(pbt.Prop[Case]{Name: "cookie-exchange", Quick: 4000, Thorough: 100000, Gen: gen, Run: run, Crashy: true, Rule: "SAMPLED: " + rule})
	pbt.Register(pbt.Prop[Case]{Name: "cookie-grid", Enum: enumGrid, Exhaustive: true, Run: run, Crashy: true,
		Rule: "GRID (version x 7 cookie variants x 10 body alterations x {no gap, 5 s gap}, followed by the right hello): " + rule})
}
