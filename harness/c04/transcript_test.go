package c04

import (
	"bytes"
	"fmt"
	"os"
	"strings"
	"testing"
	"time"

	"github.com/pion/dtls/v3/internal/zzverif/lib/pbt"
	"github.com/pion/dtls/v3/internal/zzverif/lib/scen"
	"github.com/pion/dtls/v3/internal/zzverif/lib/vnet"
	"pgregory.net/rapid"
)

func TestMain(m *testing.M) { pbt.Main(m, "C04") }

func TestProps(t *testing.T) { pbt.RunAll(t) }

func TestReplay(t *testing.T) { pbt.Replay(t) }

// Case: a persistent man in the middle rewriting one plaintext handshake message type.
type Case struct {
	Ver     int    `json:"ver"`
	KX      string `json:"kx"`  // cert, psk, epsk
	EMS     int    `json:"ems"` // 0 request (on), 2 disabled on both
	Resumed bool   `json:"resumed,omitempty"`
	CAuth   bool   `json:"cauth,omitempty"`
	SkipHV  bool   `json:"skiphv,omitempty"`
	From    string `json:"from"` // sender of the targeted message: C | S
	Msg     int    `json:"msg"`  // handshake type
	Nth     int    `json:"nth"`  // which ClientHello (0 = first, 1 = second); ignored for other messages
	Mut     string `json:"mut"`
	Arg     int    `json:"arg"`
	// Split: the man in the middle forwards every record of a datagram as a datagram of its own
	// (both directions), so that the messages of one flight arrive in separate parse passes.
	Split bool `json:"split,omitempty"`
	// CID: both sides negotiate connection IDs of this length (the first ClientHello then offers connection_id)
	CID int `json:"cid,omitempty"`
	// SrvReqEMS: the server REQUIRES the extended master secret while the client merely requests it
	SrvReqEMS bool `json:"srvreqems,omitempty"`
}

func epsFor(c *Case) (cl, sv scen.EP) {
	cl = scen.EP{RootCA: 1, ServerName: scen.ServerName}
	sv = scen.EP{Cert: "ecdsa"}
	switch c.KX {
	case "psk":
		cl = scen.EP{PSK: "transcript-psk-01", PSKHint: "id", Suites: []uint16{0x00a8, 0xccab}}
		sv = scen.EP{PSK: "transcript-psk-01", PSKHint: "hint", Suites: []uint16{0x00a8, 0xccab}}
	case "epsk":
		cl = scen.EP{PSK: "transcript-psk-01", PSKHint: "id", Suites: []uint16{0xc037}}
		sv = scen.EP{PSK: "transcript-psk-01", PSKHint: "hint", Suites: []uint16{0xc037}}
	default:
		cl.Suites = []uint16{0xc02b, 0xcca9, 0xc02c}
		cl.ALPN, sv.ALPN = []string{"h2", "webrtc"}, []string{"webrtc", "h2"}
		cl.SRTP, sv.SRTP = []uint16{1, 2, 7}, []uint16{7, 1}
	}
	if c.Ver == 13 {
		cl.Suites = nil
		cl.MinVer, cl.MaxVer, sv.MinVer, sv.MaxVer = 13, 13, 13, 13
		cl.Curves, sv.Curves = []uint16{0x1d, 0x17}, []uint16{0x1d, 0x17}
		cl.SRTP, sv.SRTP = nil, nil
	}
	cl.EMS, sv.EMS = c.EMS, c.EMS
	if c.SrvReqEMS && c.EMS == 0 {
		sv.EMS = 1
	}
	cl.CID, sv.CID = c.CID, c.CID
	sv.SkipHelloVfy = c.SkipHV
	if c.CAuth && c.KX == "cert" {
		cl.Cert = "client-ecdsa"
		sv.ClientAuth, sv.ClientCAs = 4, true
	}
	if c.Resumed {
		cl.Store, sv.Store = "cs", "ss"
	}

	return cl, sv
}

var hrrRandom = []byte{0xCF, 0x21, 0xAD, 0x74, 0xE5, 0x9A, 0x61, 0x11, 0xBE, 0x1D, 0x8C, 0x02, 0x1E, 0x65, 0xB8, 0x91, 0xC2, 0xA2, 0x11, 0x16, 0x7A, 0xBB, 0x8C, 0x5E, 0x07, 0x9E, 0x09, 0xE2, 0xC8, 0xA8, 0x33, 0x9C}

// mutateBody rewrites the body of a handshake message; ok=false if the mutation does not apply.
func mutateBody(c *Case, typ int, body []byte) ([]byte, bool) {
	switch typ {
	case scen.HTClientHello:
		ch, ok := scen.ParseClientHello(body)
		if !ok {
			return nil, false
		}
		switch c.Mut {
		case "add-suite":
			ch.Suites = append(ch.Suites, 0x1234)
		case "drop-last-suite":
			if len(ch.Suites) < 2 {
				return nil, false
			}
			ch.Suites = ch.Suites[:len(ch.Suites)-1]
		case "swap-suites":
			if len(ch.Suites) < 2 || ch.Suites[0] == ch.Suites[1] {
				return nil, false
			}
			ch.Suites[0], ch.Suites[1] = ch.Suites[1], ch.Suites[0]
		case "random-byte":
			ch.Random[c.Arg%32] ^= 0x01
		case "sid":
			ch.SID = append(ch.SID, byte(c.Arg))
		case "add-ext":
			ch.Exts = append(ch.Exts, scen.Ext{Type: 0xfaf0, Data: []byte{byte(c.Arg)}})
			ch.HasExts = true
		case "drop-ext":
			// drop one extension the handshake does not need to proceed (ALPN, SRTP, EMS, point formats, SNI, renegotiation)
			cands := []uint16{16, 14, 23, 11, 0, 0xff01, 54}
			want := cands[c.Arg%len(cands)]
			found := false
			var out []scen.Ext
			for _, e := range ch.Exts {
				if e.Type == want && !found {
					found = true

					continue
				}
				out = append(out, e)
			}
			if !found {
				return nil, false
			}
			ch.Exts = out
		case "ext-byte":
			// flip a byte inside ALPN / SRTP / signature_algorithms / supported_groups data
			cands := []uint16{16, 14, 13, 10, 51}
			want := cands[c.Arg%len(cands)]
			done := false
			for i, e := range ch.Exts {
				if e.Type == want && len(e.Data) > 3 {
					d := append([]byte(nil), e.Data...)
					d[len(d)-1] ^= 0x01
					ch.Exts[i] = scen.Ext{Type: e.Type, Data: d}
					done = true

					break
				}
			}
			if !done {
				return nil, false
			}
		case "legacy-version":
			ch.Version = [2]byte{0xfe, 0xff}
		case "compression":
			ch.Comp = append(ch.Comp, 1)
		default:
			return nil, false
		}

		return ch.Marshal(), true
	case scen.HTServerHello:
		sh, ok := scen.ParseServerHello(body)
		if !ok {
			return nil, false
		}
		switch c.Mut {
		case "random-byte":
			if bytes.Equal(sh.Random, hrrRandom) {
				return nil, false
			}
			sh.Random[c.Arg%32] ^= 0x01
		case "sid":
			sh.SID = append(sh.SID, byte(c.Arg))
		case "add-ext":
			sh.Exts = append(sh.Exts, scen.Ext{Type: 0xfaf0, Data: []byte{1}})
			sh.HasExts = true
		case "drop-ext":
			cands := []uint16{16, 14, 23, 11, 0xff01, 54}
			want := cands[c.Arg%len(cands)]
			found := false
			var out []scen.Ext
			for _, e := range sh.Exts {
				if e.Type == want && !found {
					found = true

					continue
				}
				out = append(out, e)
			}
			if !found {
				return nil, false
			}
			sh.Exts = out
		case "ext-byte":
			done := false
			for i, e := range sh.Exts {
				if (e.Type == 16 || e.Type == 14 || e.Type == 51) && len(e.Data) > 2 {
					d := append([]byte(nil), e.Data...)
					d[len(d)-1] ^= 0x01
					sh.Exts[i] = scen.Ext{Type: e.Type, Data: d}
					done = true

					break
				}
			}
			if !done {
				return nil, false
			}
		default:
			return nil, false
		}

		return sh.Marshal(), true
	default:
		if c.Mut != "byte" || len(body) == 0 {
			return nil, false
		}
		out := append([]byte(nil), body...)
		out[c.Arg%len(out)] ^= 0x01

		return out, true
	}
}

type mitm struct {
	c        *Case
	chSeen   int
	altered  int // messages altered and forwarded
	sameByte int // rewrites that reproduced identical bytes
}

// mangle rewrites every transmission of the targeted message in a datagram.
func (m *mitm) mangle(ev *vnet.Event) [][]byte {
	out := m.rewrite(ev)
	if !m.c.Split {
		return out
	}
	src := ev.Data
	if out != nil {
		src = out[0]
	}
	recs, ok := scen.SplitDatagram(src, 0)
	if !ok || len(recs) < 2 {
		return out
	}
	var parts [][]byte
	for _, rc := range recs {
		parts = append(parts, append([]byte(nil), rc.Raw...))
	}

	return parts
}

func (m *mitm) rewrite(ev *vnet.Event) [][]byte {
	if ev.From != m.c.From {
		return nil
	}
	recs, ok := scen.SplitDatagram(ev.Data, 0)
	if !ok {
		return nil
	}
	var out []byte
	changed := false
	for _, rc := range recs {
		if rc.Kind == "unified" || rc.Epoch != 0 || rc.Type != scen.CTHandshake {
			out = append(out, rc.Raw...)

			continue
		}
		frags, ok := scen.SplitHandshake(rc.Body)
		if !ok {
			out = append(out, rc.Raw...)

			continue
		}
		var body []byte
		for _, f := range frags {
			fb := f.Body
			if f.Type == m.c.Msg && f.FragOff == 0 && f.FragLen == f.Length {
				apply := true
				if f.Type == scen.HTClientHello {
					// message_seq tells first and second hello apart (retransmissions keep it)
					apply = f.MsgSeq == m.c.Nth
				}
				if f.Type == scen.HTServerHello && len(f.Body) >= 34 && bytes.Equal(f.Body[2:34], hrrRandom) && m.c.Nth == 0 {
					apply = m.c.Mut != "random-byte"
				}
				if apply {
					if nb, ok := mutateBody(m.c, f.Type, f.Body); ok {
						if bytes.Equal(nb, f.Body) {
							m.sameByte++
						} else {
							fb = nb
							changed = true
							m.altered++
						}
					}
				}
			}
			n := len(fb)
			hdr := []byte{byte(f.Type), byte(n >> 16), byte(n >> 8), byte(n), byte(f.MsgSeq >> 8), byte(f.MsgSeq), 0, 0, 0, byte(n >> 16), byte(n >> 8), byte(n)}
			if !(f.FragOff == 0 && f.FragLen == f.Length) {
				// fragment of a larger message: forwarded untouched
				hdr = []byte{byte(f.Type), byte(f.Length >> 16), byte(f.Length >> 8), byte(f.Length), byte(f.MsgSeq >> 8), byte(f.MsgSeq),
					byte(f.FragOff >> 16), byte(f.FragOff >> 8), byte(f.FragOff), byte(f.FragLen >> 16), byte(f.FragLen >> 8), byte(f.FragLen)}
			}
			body = append(body, hdr...)
			body = append(body, fb...)
		}
		rh := append([]byte(nil), rc.Raw[:rc.HdrLen]...)
		rh[len(rh)-2], rh[len(rh)-1] = byte(len(body)>>8), byte(len(body))
		out = append(out, rh...)
		out = append(out, body...)
	}
	if !changed {
		return nil
	}

	return [][]byte{out}
}

func run(c Case, r *pbt.R) {
	type outcome struct {
		okC, okS bool
		errC     error
		errS     error
		altered  int
		same     int
		dataC2S  bool
		dump     string
		stormed  bool
	}
	attempt := func(cc Case, identity bool) (o outcome, berr *pbt.BubbleError) {
		berr = pbt.Bubble(func() {
			cEP, sEP := epsFor(&cc)
			env := scen.NewEnv()
			env.Log = &scen.LogSink{Keep: os.Getenv("VERIF_DEBUG") != ""}
			if cc.Resumed {
				p0 := scen.NewPair(env, &cEP, &sEP)
				p0.Handshake(5 * time.Minute)
				ok := p0.C.OK() && p0.S.OK()
				p0.Close()
				scen.Settle()
				if !ok {
					o.errC = fmt.Errorf("priming connection failed")

					return
				}
			}
			p := scen.NewPair(env, &cEP, &sEP)
			defer p.Close()
			p.Net.MaxEvents = 4000
			m := &mitm{c: &cc}
			if !identity {
				p.Net.Mangle = m.mangle
			}
			p.Handshake(3 * time.Minute)
			o.okC, o.okS, o.errC, o.errS = p.C.OK(), p.S.OK(), p.C.Err(), p.S.Err()
			o.altered, o.same = m.altered, m.sameByte
			o.stormed = p.Net.HasStormed()
			if o.okC && o.okS {
				gotS, _, _ := p.Exchange([][]byte{[]byte("after-tamper")}, nil)
				o.dataC2S = len(gotS) == 1
			}
			if os.Getenv("VERIF_DEBUG") != "" {
				fmt.Println(p.Dump())
				fmt.Println(strings.Join(env.Log.Lines, "\n"))
			}
		})

		return o, berr
	}
	co, berr := attempt(c, true)
	if berr != nil {
		r.Failf(pbt.PanicSig("C04", []byte(berr.Stack)), "control bubble: %v", berr.Value)

		return
	}
	if !(co.okC && co.okS) {
		r.Failf("C04|harness|control-failed", "control (identity rewrite) does not succeed: %v / %v (%+v)", co.errC, co.errS, c)

		return
	}
	o, berr := attempt(c, false)
	if berr != nil {
		if berr.Deadlock {
			r.Failf("C04|bubble-deadlock", "goroutines left blocked: %v", berr.Value)
		} else {
			r.Failf(pbt.PanicSig("C04", []byte(berr.Stack)), "panic: %v\n%s", berr.Value, berr.Stack)
		}

		return
	}
	if o.altered == 0 {
		r.Class("nothing-altered")

		return
	}
	ver := map[int]string{12: "dtls12", 13: "dtls13"}[c.Ver]
	ems := map[int]string{0: "ems:on", 2: "ems:off"}[c.EMS]
	mode := "full"
	if c.Resumed {
		mode = "resumed"
	}
	receiver, sender := "server", "client"
	recvOK, sendOK := o.okS, o.okC
	if c.From == "S" {
		receiver, sender = "client", "server"
		recvOK, sendOK = o.okC, o.okS
	}
	helloNo := ""
	if c.Msg == 1 {
		helloNo = fmt.Sprintf("#%d", c.Nth+1)
	}
	msgName := map[int]string{1: "ClientHello" + helloNo, 2: "ServerHello", 3: "HelloVerifyRequest", 11: "Certificate", 12: "ServerKeyExchange", 13: "CertificateRequest", 14: "ServerHelloDone", 15: "CertificateVerify", 16: "ClientKeyExchange"}[c.Msg]
	tail := ems + "|" + mode
	if c.Msg == 1 && c.Nth == 0 && c.Ver == 12 {
		// the first ClientHello of a hello-verify exchange is not part of the Finished transcript (RFC 6347
		// 4.2.1); only the comparison with the second hello can notice a change: one root cause whatever EMS/mode
		tail = "hello-verify-exchange"
	}
	mut := c.Mut
	if c.SrvReqEMS && c.EMS == 0 && c.Mut == "drop-ext" && c.Arg%7 == 2 {
		// not the listed leniency towards the first hello's extensions: this extension is one the server's
		// policy REQUIRES, and the unchanged library aborts when it is missing from either hello
		mut = "drop-ext:ems-required-by-server"
	}
	if recvOK {
		r.Failf(fmt.Sprintf("C04|%s|%s-accepts|msg:%s|%s|%s", ver, receiver, msgName, mut, tail),
			"the %s received an altered %s (%s, arg %d, %d transmissions rewritten) and still reports a successful handshake (kx=%s cauth=%v skiphv=%v; sender ok=%v)", receiver, msgName, c.Mut, c.Arg, o.altered, c.KX, c.CAuth, c.SkipHV, sendOK)
		if r.Failed() {
			return
		}
	}
	if sendOK {
		// the sender of the altered message may only complete if the message belongs to its own final flight
		// (it legitimately finished before the peer could object); none of the plaintext targets is in a final flight
		r.Failf(fmt.Sprintf("C04|%s|%s-of-altered-message-completes|msg:%s|%s|%s", ver, sender, msgName, mut, tail),
			"the %s's %s was altered in transit (%s) and the %s still reports success: it completed without a Finished that covers what the peer saw", sender, msgName, c.Mut, sender)
		if r.Failed() {
			return
		}
	}
	if o.stormed {
		r.Class("retransmission-ping-pong(>20000 datagrams at one instant)")
	}
	r.NonTrivial()
	r.Key(fmt.Sprintf("%d|%s|%d|%v|%v|%v|%s|%d|%d|%s|%v|%d|%v", c.Ver, c.KX, c.EMS, c.Resumed, c.CAuth, c.SkipHV, c.From, c.Msg, c.Nth, c.Mut, c.Split, c.CID, c.SrvReqEMS))
	r.Class(ver + "/" + msgName + "/" + c.Mut)
	r.Class(ems)
	r.Class(mode)
}

var chMuts = []string{"add-suite", "drop-last-suite", "swap-suites", "random-byte", "sid", "add-ext", "drop-ext", "ext-byte", "legacy-version", "compression"}
var shMuts = []string{"random-byte", "sid", "add-ext", "drop-ext", "ext-byte"}

func gen(t *rapid.T) Case {
	c := Case{Ver: rapid.SampledFrom([]int{12, 12, 13}).Draw(t, "ver")}
	c.KX = "cert"
	if c.Ver == 12 {
		c.KX = rapid.SampledFrom([]string{"cert", "cert", "psk", "epsk"}).Draw(t, "kx")
		c.EMS = rapid.SampledFrom([]int{0, 2}).Draw(t, "ems")
		c.Resumed = rapid.IntRange(0, 3).Draw(t, "resumed") == 0
	}
	c.CAuth = rapid.IntRange(0, 2).Draw(t, "cauth") == 0
	c.SkipHV = rapid.Bool().Draw(t, "skiphv")
	if c.Ver == 12 {
		if rapid.IntRange(0, 2).Draw(t, "cid") == 0 {
			c.CID = rapid.SampledFrom([]int{1, 4, 8}).Draw(t, "cidlen")
		}
		c.SrvReqEMS = rapid.IntRange(0, 2).Draw(t, "srvreqems") == 0
	}
	type tgt struct {
		from string
		msg  int
	}
	tg := []tgt{{"C", 1}, {"C", 1}, {"S", 2}, {"S", 2}}
	if c.Ver == 12 {
		tg = append(tg, tgt{"S", 3}, tgt{"S", 11}, tgt{"S", 12}, tgt{"S", 13}, tgt{"C", 11}, tgt{"C", 16}, tgt{"C", 15})
	}
	x := rapid.SampledFrom(tg).Draw(t, "target")
	c.From, c.Msg = x.from, x.msg
	c.Nth = rapid.IntRange(0, 1).Draw(t, "nth")
	switch c.Msg {
	case 1:
		c.Mut = rapid.SampledFrom(chMuts).Draw(t, "mut")
	case 2:
		c.Mut = rapid.SampledFrom(shMuts).Draw(t, "mut")
	default:
		c.Mut = "byte"
	}
	c.Arg = rapid.IntRange(0, 4000).Draw(t, "arg")
	c.Split = rapid.IntRange(0, 3).Draw(t, "split") == 0

	return c
}

func enumGrid(_ string, yield func(Case) bool) {
	// first ClientHello of the cookie exchange with connection IDs offered, and with a server that requires
	// the extended master secret: every hello mutation
	for _, mu := range chMuts {
		for arg := 0; arg < 7; arg++ {
			if (mu != "drop-ext" && mu != "ext-byte") && arg >= 2 {
				continue
			}
			if !yield(Case{Ver: 12, KX: "cert", From: "C", Msg: 1, Nth: 0, Mut: mu, Arg: arg, CID: 4}) {
				return
			}
			if !yield(Case{Ver: 12, KX: "cert", From: "C", Msg: 1, Nth: 0, Mut: mu, Arg: arg, SrvReqEMS: true}) {
				return
			}
		}
	}
	for _, ver := range []int{12, 13} {
		emss := []int{0, 2}
		if ver == 13 {
			emss = []int{0}
		}
		for _, ems := range emss {
			for _, skip := range []bool{false, true} {
				for nth := 0; nth <= 1; nth++ {
					for _, mu := range chMuts {
						for arg := 0; arg < 3; arg++ {
							if !yield(Case{Ver: ver, KX: "cert", EMS: ems, SkipHV: skip, From: "C", Msg: 1, Nth: nth, Mut: mu, Arg: arg}) {
								return
							}
							if arg == 0 && !yield(Case{Ver: ver, KX: "cert", EMS: ems, SkipHV: skip, From: "C", Msg: 1, Nth: nth, Mut: mu, Arg: arg, Split: true}) {
								return
							}
						}
					}
				}
				for _, mu := range shMuts {
					for arg := 0; arg < 3; arg++ {
						if !yield(Case{Ver: ver, KX: "cert", EMS: ems, SkipHV: skip, From: "S", Msg: 2, Nth: 1, Mut: mu, Arg: arg}) {
							return
						}
						if arg == 0 && !yield(Case{Ver: ver, KX: "cert", EMS: ems, SkipHV: skip, From: "S", Msg: 2, Nth: 1, Mut: mu, Arg: arg, Split: true}) {
							return
						}
					}
				}
				if ver == 12 {
					for _, tg := range [][2]int{{'S', 3}, {'S', 11}, {'S', 12}, {'C', 16}} {
						for _, arg := range []int{0, 3, 17, 40, 200} {
							if !yield(Case{Ver: 12, KX: "cert", EMS: ems, SkipHV: skip, From: string(rune(tg[0])), Msg: tg[1], Mut: "byte", Arg: arg}) {
								return
							}
						}
					}
				}
			}
		}
	}
}

func init() {
	rule := "persistent man in the middle: one plaintext handshake message type (ClientHello #1/#2, HelloVerifyRequest, ServerHello/HelloRetryRequest, Certificate, ServerKeyExchange, CertificateRequest, " +
		"client Certificate, ClientKeyExchange, CertificateVerify) is rewritten consistently in EVERY transmission (field-level: add/drop/swap suites, random, session id, add/drop/alter extensions, legacy " +
		"version, compression; or a bit flip at a generated offset) under key exchange x EMS on/off x full/resumed x client-auth x hello-verify x version; control = identity rewrite must succeed. " +
		"oracle: the receiver of an altered message never reports success, nor does its sender. non-trivial = >=1 byte of a delivered message changed and the control succeeded; distinct = (config, target, mutation)"
	pbt.Register(pbt.Prop[Case]{Name: "mitm-grid", Enum: enumGrid, Exhaustive: true, Run: run, Crashy: true, Rule: "GRID (default certificate configuration: every hello field mutation x hello #1/#2 x EMS x hello-verify x version, byte flips in the other plaintext messages): " + rule})
	pbt.Register(pbt.Prop[Case]{Name: "mitm-sampled", Quick: 1500, Thorough: 40000, Gen: gen, Run: run, Crashy: true, Rule: "SAMPLED: " + rule})
}
