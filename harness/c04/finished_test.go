package c04

import (
	"fmt"
	"sync"
	"time"

	dtlsflight "github.com/pion/dtls/v3/internal/flight"
	dtlshandshake "github.com/pion/dtls/v3/internal/handshake"
	"github.com/pion/dtls/v3/internal/zzverif/lib/pbt"
	"github.com/pion/dtls/v3/internal/zzverif/lib/ref"
	"github.com/pion/dtls/v3/internal/zzverif/lib/scen"
	"github.com/pion/dtls/v3/internal/zzverif/lib/vnet"
	"github.com/pion/dtls/v3/pkg/protocol/handshake"
)

// FinCase: a rogue endpoint (this library steered through the flight hook) sends a Finished whose
// verify_data is wrong in one byte, everything else being correct.
type FinCase struct {
	KX      string `json:"kx"`
	Resumed bool   `json:"resumed"`
	Rogue   string `json:"rogue"` // C | S
	EMS     int    `json:"ems"`
	Byte    int    `json:"byte"`
	Ver     int    `json:"ver,omitempty"` // 0/12 or 13
	CAuth   bool   `json:"cauth,omitempty"`
}

var finMu sync.Mutex

func runFin(c FinCase, r *pbt.R) {
	finMu.Lock()
	defer finMu.Unlock()
	attempt := func(forge bool) (okC, okS bool, applied bool, berr *pbt.BubbleError) {
		armed := false
		var gens []scen.Gen13
		if c.Ver == 13 {
			stop := scen.CaptureGens13(&gens)
			defer stop()
		}
		dtlshandshake.VerifFlightHook = func(info dtlshandshake.VerifFlightInfo, pkts []*dtlsflight.Packet) []*dtlsflight.Packet {
			if !forge || !armed || info.IsClient != (c.Rogue == "C") {
				return pkts
			}
			for _, p := range pkts {
				if h, ok := p.Record.Content.(*handshake.Handshake); ok {
					if f, ok := h.Message.(*handshake.MessageFinished); ok && len(f.VerifyData) > 0 {
						vd := append([]byte(nil), f.VerifyData...)
						vd[c.Byte%len(vd)] ^= 0x01
						f.VerifyData = vd
						applied = true
					}
				}
			}

			return pkts
		}
		defer func() { dtlshandshake.VerifFlightHook = nil }()
		berr = pbt.Bubble(func() {
			cc := Case{Ver: 12, KX: c.KX, EMS: c.EMS, Resumed: c.Resumed, CAuth: c.CAuth}
			if c.Ver == 13 {
				cc.Ver = 13
			}
			cEP, sEP := epsFor(&cc)
			env := scen.NewEnv()
			if c.Resumed {
				p0 := scen.NewPair(env, &cEP, &sEP)
				p0.Handshake(5 * time.Minute)
				ok := p0.C.OK() && p0.S.OK()
				p0.Close()
				scen.Settle()
				if !ok {
					return
				}
			}
			armed = true
			if c.Ver == 13 {
				cEP.Suites, sEP.Suites = []uint16{0x1301}, []uint16{0x1301}
			}
			p := scen.NewPair(env, &cEP, &sEP)
			defer p.Close()
			p.Net.MaxEvents = 4000
			if c.Ver == 13 && forge {
				// DTLS 1.3 computes verify_data when the flight is committed, after the flight hook: the forgery is
				// made on the wire instead, by a translator that holds the handshake traffic secrets (hook) - it
				// opens the rogue's Finished record, flips one byte of verify_data and protects it again under the
				// same keys and record number. What the honest side receives is a correctly protected, wrong Finished.
				dec := ref.NewDecoder13(0x1301)
				p.Net.Mangle = func(ev *vnet.Event) [][]byte {
					if ev.From != c.Rogue || dec == nil {
						return nil
					}
					for _, g := range scen.SnapshotGens13() {
						dec.AddGen13(g.Epoch, g.Secret)
					}
					ds, ok := dec.Decode(ev.From, ev.Data, 0)
					if !ok {
						return nil
					}
					var out []byte
					changed := false
					for _, d := range ds {
						if d.Kind == "unified" && d.OK && d.Type == scen.CTHandshake && len(d.Plain) > 12 && d.Plain[0] == scen.HTFinished {
							pl := append([]byte(nil), d.Plain...)
							pl[12+c.Byte%(len(pl)-12)] ^= 0x01
							d.Plain = pl
							if rec, err := dec.Reseal13(d, true, true); err == nil {
								out = append(out, rec...)
								changed, applied = true, true

								continue
							}
						}
						out = append(out, d.Raw...)
					}
					if !changed {
						return nil
					}

					return [][]byte{out}
				}
			}
			p.Handshake(3 * time.Minute)
			okC, okS = p.C.OK(), p.S.OK()
		})

		return okC, okS, applied, berr
	}
	okC, okS, _, berr := attempt(false)
	if berr != nil || !(okC && okS) {
		r.Failf("C04|harness|finished-control", "control failed: %v %v %v", okC, okS, berr)

		return
	}
	okC, okS, applied, berr := attempt(true)
	if berr != nil {
		r.Failf(pbt.PanicSig("C04", []byte(berr.Stack)), "bubble: %v", berr.Value)

		return
	}
	if !applied {
		r.Class("finished-not-reached")

		return
	}
	honestOK, who := okS, "server"
	if c.Rogue == "S" {
		honestOK, who = okC, "client"
	}
	mode := "full"
	if c.Resumed {
		mode = "resumed"
	}
	ver := "dtls12"
	if c.Ver == 13 {
		ver = "dtls13"
	}
	if honestOK {
		r.Failf(fmt.Sprintf("C04|%s|%s-accepts-forged-finished|%s", ver, who, mode), "the %s reports success although the peer's Finished verify_data was wrong in byte %d (kx=%s ems=%d)", who, c.Byte, c.KX, c.EMS)

		return
	}
	r.NonTrivial()
	r.Class(ver + "/" + who + "/" + mode)
}

func enumFin(_ string, yield func(FinCase) bool) {
	for _, rogue := range []string{"C", "S"} {
		for _, cauth := range []bool{false, true} {
			for _, b := range []int{0, 1, 15, 31} {
				if !yield(FinCase{KX: "cert", Rogue: rogue, Byte: b, Ver: 13, CAuth: cauth}) {
					return
				}
			}
		}
	}
	for _, kx := range []string{"cert", "psk", "epsk"} {
		for _, resumed := range []bool{false, true} {
			for _, rogue := range []string{"C", "S"} {
				for _, ems := range []int{0, 2} {
					for b := 0; b < 12; b++ {
						if !yield(FinCase{KX: kx, Resumed: resumed, Rogue: rogue, EMS: ems, Byte: b}) {
							return
						}
					}
				}
			}
		}
	}
}

func init() {
	pbt.Register(pbt.Prop[FinCase]{
		Name: "forged-finished", Enum: enumFin, Exhaustive: true, Run: runFin, Crashy: true,
		Rule: "GRID (DTLS 1.2: key exchange x full/resumed x rogue role x EMS x each of the 12 verify_data bytes; DTLS 1.3: rogue role x client authentication x 4 byte positions): an otherwise correct peer, steered through the flight hook, " +
			"sends a Finished whose verify_data is wrong in one byte; oracle: the honest side never reports success; control without the forgery succeeds",
	})
}
