package c14

import (
	"bytes"
	"fmt"
	"os"
	"sort"
	"strings"
	"testing"
	"time"

	dtls "github.com/pion/dtls/v3"
	"github.com/pion/dtls/v3/internal/zzverif/lib/pbt"
	"github.com/pion/dtls/v3/internal/zzverif/lib/scen"
	"github.com/pion/dtls/v3/internal/zzverif/lib/vnet"
	"pgregory.net/rapid"
)

func TestMain(m *testing.M) { pbt.Main(m, "C14") }

func TestProps(t *testing.T) { pbt.RunAll(t) }

func TestReplay(t *testing.T) { pbt.Replay(t) }

// Action is one step of a history over shared session stores.
type Action struct {
	// connect, mutate, alert, overlap, import (the Side of the last connection is serialised and resumed with
	// ResumeWithOptions on the same stores, the connection stays "last"), race (a second connection to the same
	// name offers the stored session and is stalled; the last connection's client sends a fatal alert; the
	// stalled connection then completes)
	Kind string `json:"kind"`
	// connect / overlap
	Name  int          `json:"name,omitempty"` // which server name (client store key)
	FC    []vnet.Fault `json:"fc,omitempty"`
	FS    []vnet.Fault `json:"fs,omitempty"`
	EMS   int          `json:"ems,omitempty"`
	Suite int          `json:"suite,omitempty"` // index into suite sets
	CID   int          `json:"cid,omitempty"`
	// client authentication of this connect (certificate family): 0 none, 1 server requests / client
	// has a certificate, 2 server requires any / client has one, 3 require+verify / client has one,
	// 4 server requests / client has none, 5 server requires any / client has none
	CAuth int `json:"cauth,omitempty"`
	// mutate
	Mut string `json:"mut,omitempty"`
	Arg int    `json:"arg,omitempty"`
	// alert: which side of the previous (kept open) connection emits a fatal alert
	Side string `json:"side,omitempty"`
}

// Case is a history.
type Case struct {
	Family  string   `json:"family"` // cert | psk
	Actions []Action `json:"actions"`
}

var names = []string{"server.test", "alt.server.test", ""}

var suiteSets = map[string][][]uint16{
	"cert": {{0xc02b}, {0xc02c}, {0xc02b, 0xcca9}, {0xcca9, 0xc02b}, nil},
	"psk":  {{0x00a8}, {0xccab}, {0x00a8, 0xccab}, {0xccab, 0x00a8}, {0xc0a8}},
}

func epsFor(c *Case, a *Action) (cl, sv scen.EP) {
	if c.Family == "psk" {
		cl = scen.EP{PSK: "resume-psk-0001", PSKHint: "id"}
		sv = scen.EP{PSK: "resume-psk-0001", PSKHint: "h"}
	} else {
		cl = scen.EP{NoVerify: true}
		sv = scen.EP{Cert: "ecdsa"}
	}
	cl.ServerName = names[a.Name%len(names)]
	ss := suiteSets[c.Family]
	cl.Suites = ss[a.Suite%len(ss)]
	if c.Family == "psk" {
		sv.Suites = []uint16{0x00a8, 0xccab, 0xc0a8}
		if cl.Suites == nil {
			cl.Suites = []uint16{0x00a8}
		}
	}
	cl.EMS, sv.EMS = a.EMS%3, 0
	if a.CID > 0 {
		cl.CID, sv.CID = a.CID, a.CID+1
	}
	cl.Store, sv.Store = "client", "server"
	if c.Family != "psk" {
		switch a.CAuth {
		case 1:
			sv.ClientAuth, cl.Cert = 1, "client-ecdsa"
		case 2:
			sv.ClientAuth, cl.Cert = 2, "client-ecdsa"
		case 3:
			sv.ClientAuth, sv.ClientCAs, cl.Cert = 4, true, "client-ecdsa"
		case 4:
			sv.ClientAuth = 1
		case 5:
			sv.ClientAuth = 2
		}
	}

	return cl, sv
}

func clientKey(name string) string { return "S_" + name }

type connResult struct {
	ok          bool
	abbreviated bool
	cr, sr      []byte
	exporter    []byte
	cCID, sCID  []byte
	pair        *scen.Pair
	key         string
	sid         []byte // session id of the established connection as the client holds it
	ssid        []byte // ... as the server holds it (empty when the server did not keep the session)
	cEP, sEP    scen.EP
	act         Action
}

func isAbbreviated(p *scen.Pair) bool {
	sawSH := false
	for _, ev := range p.Net.EventsFrom("S") {
		for _, ht := range scen.PlainHSTypes(ev.Data) {
			if ht == scen.HTCertificate || ht == scen.HTServerKeyExchange || ht == scen.HTServerHelloDone {
				return false
			}
			if ht == scen.HTServerHello {
				sawSH = true
			}
		}
	}

	return sawSH
}

func run(c Case, r *pbt.R) {
	berr := pbt.Bubble(func() {
		env := scen.NewEnv()
		env.Log = &scen.LogSink{Keep: os.Getenv("VERIF_DEBUG") != ""}
		cs, ss := env.Store("client"), env.Store("server")
		var open []*scen.Pair
		defer func() {
			for _, p := range open {
				p.Close()
			}
		}()
		var prevRandoms [][]byte
		var prevExporters [][]byte
		var last *connResult
		resumptions, mutations, lossyAbbrev := 0, 0, 0
		alerted := map[string]bool{}      // "C:<key>" / "S:<hex id>" sessions on which a fatal alert was sent
		alertedSid := map[string][]byte{} // "C:<key>" -> id of the session the client sent the fatal alert on
		certSessions := map[string]bool{} // ids of sessions in whose full handshake the client presented a certificate
		connect := func(a *Action) *connResult {
			cEP, sEP := epsFor(&c, a)
			key := clientKey(cEP.ServerName)
			// the match predicate at the moment of the ClientHello
			csnap, ssnap := cs.Snapshot(), ss.Snapshot()
			ce, have := csnap[key]
			match := false
			if have && len(ce.ID) > 0 {
				if se, ok := ssnap[string(ce.ID)]; ok && bytes.Equal(se.Secret, ce.Secret) {
					match = true
				}
			}
			offeredBefore := have && len(ce.ID) > 0
			p := scen.NewPair(env, &cEP, &sEP)
			open = append(open, p)
			p.Net.Faults["C"] = a.FC
			p.Net.Faults["S"] = a.FS
			p.Handshake(20 * time.Minute)
			res := &connResult{pair: p, key: key, cEP: cEP, sEP: sEP, act: *a}
			res.abbreviated = isAbbreviated(p)
			res.ok = p.C.OK() && p.S.OK()
			if p.C.OK() != p.S.OK() {
				// one-sided success is a liveness matter (C02); here only keyed connections matter
				r.Class("one-sided")
			}
			// what did the client offer?
			var offered []byte
			for _, ev := range p.Net.EventsFrom("C") {
				if f, ok := scen.FirstPlainHS(ev.Data, scen.HTClientHello); ok {
					if ch, ok := scen.ParseClientHello(f.Body); ok {
						offered = ch.SID
					}
				}
			}
			if sid, known := alertedSid["C:"+key]; known && !bytes.Equal(sid, offered) {
				// the entry was legitimately replaced by a full handshake of another connection meanwhile
				delete(alerted, "C:"+key)
			}
			if alerted["C:"+key] && len(offered) > 0 && offeredBefore && bytes.Equal(offered, ce.ID) {
				r.Failf("C14|session-offered-after-fatal-alert|client", "client offers session %x again although it sent a fatal alert on it", offered)

				return res
			}
			delete(alerted, "C:"+key)
			delete(alertedSid, "C:"+key)
			if res.ok && res.abbreviated {
				resumptions++
				if p.Net.EffectiveFaults() > 0 {
					lossyAbbrev++
				}
				if alerted["S:"+string(offered)] {
					r.Failf("C14|session-resumed-after-fatal-alert|server", "server resumed session %x although it sent a fatal alert on it", offered)

					return res
				}
				if certSessions[string(offered)] {
					r.Failf("C14|client-certificate-session-resumed", "session %x, established with a client certificate, was resumed by an abbreviated handshake (client-auth mode of this connect: %d): the certificate is not presented or checked again", offered, a.CAuth)

					return res
				}
				if !match {
					r.Failf("C14|resumed-without-matching-secrets", "abbreviated handshake succeeded although the stores did not hold the same secret for the offered id (client has entry=%v)", have)

					return res
				}
			}
			if res.ok {
				stc, ok1 := p.C.Conn.ConnectionState()
				sts, ok2 := p.S.Conn.ConnectionState()
				if !ok1 || !ok2 {
					r.Failf("C14|no-state", "no connection state after success")

					return res
				}
				res.sid = bytes.Clone(stc.SessionID)
				res.ssid = bytes.Clone(sts.SessionID)
				if !res.abbreviated && cEP.Cert != "" && sEP.ClientAuth > 0 && len(sts.PeerCertificates) > 0 {
					certSessions[string(stc.SessionID)] = true
					r.Class("client-certificate-session")
				}
				e1, err1 := stc.ExportKeyingMaterial("EXPORTER-verif-resume", nil, 32)
				e2, err2 := sts.ExportKeyingMaterial("EXPORTER-verif-resume", nil, 32)
				if err1 != nil || err2 != nil || !bytes.Equal(e1, e2) {
					r.Failf("C14|keys-disagree", "established with different keys: exporter %x vs %x (%v %v), abbreviated=%v match=%v", e1, e2, err1, err2, res.abbreviated, match)

					return res
				}
				p.Net.Heal()
				scen.Settle()
				gotS, gotC, werr := p.Exchange([][]byte{[]byte("resume-c2s")}, [][]byte{[]byte("resume-s2c")})
				if werr != nil || len(gotS) != 1 || len(gotC) != 1 {
					r.Failf("C14|no-data|abbreviated="+fmt.Sprint(res.abbreviated), "established but data does not flow: %v %d %d", werr, len(gotS), len(gotC))

					return res
				}
				res.exporter = e1
				res.cr, res.sr, _, _ = scen.HelloRandoms(p)
				// freshness
				for _, pr := range prevRandoms {
					if (res.cr != nil && bytes.Equal(pr, res.cr)) || (res.sr != nil && bytes.Equal(pr, res.sr)) {
						r.Failf("C14|hello-random-reused", "a hello random of an earlier connection was used again")

						return res
					}
				}
				for _, pe := range prevExporters {
					if bytes.Equal(pe, e1) {
						r.Failf("C14|exporter-repeats", "exported keying material equals that of an earlier connection (record keys not fresh)")

						return res
					}
				}
				prevRandoms = append(prevRandoms, res.cr, res.sr)
				prevExporters = append(prevExporters, e1)
				// connection ids are the freshly generated ones
				if a.CID > 0 {
					mc, errc := exported(&stc)
					ms, errs := exported(&sts)
					wantC, wantS := lastOf(env.CIDs["C"]), lastOf(env.CIDs["S"])
					if errc == nil && errs == nil {
						if !bytes.Equal(mc.LocalConnectionID, wantC) || !bytes.Equal(ms.LocalConnectionID, wantS) ||
							!bytes.Equal(mc.RemoteConnectionID, wantS) || !bytes.Equal(ms.RemoteConnectionID, wantC) {
							r.Failf("C14|connection-ids-not-renegotiated", "resumed=%v: client L=%x R=%x server L=%x R=%x, freshly generated C=%x S=%x", res.abbreviated,
								mc.LocalConnectionID, mc.RemoteConnectionID, ms.LocalConnectionID, ms.RemoteConnectionID, wantC, wantS)

							return res
						}
					}
				}
			}

			return res
		}
		for i := range c.Actions {
			a := &c.Actions[i]
			switch a.Kind {
			case "connect":
				last = connect(a)
			case "overlap":
				// two connections to the same name share the stores; run them back to back without closing
				last = connect(a)
				if r.Failed() {
					return
				}
				last = connect(a)
			case "mutate":
				if mutate(cs, ss, a) {
					mutations++
				}
			case "import":
				if last == nil || !last.ok {
					continue
				}
				sd, ep := last.pair.C, &last.cEP
				if a.Side == "S" {
					sd, ep = last.pair.S, &last.sEP
				}
				if _, err := last.pair.ExportImport(sd, env, ep, nil); err != nil {
					r.Failf("C14|harness|import", "export/import of side %s: %v", a.Side, err)

					return
				}
				_ = sd.Conn.Handshake()
				scen.Settle()
				r.Class("imported-connection")
			case "race":
				if last == nil || !last.ok || len(last.sid) == 0 {
					continue
				}
				if v, ok := cs.Snapshot()[last.key]; !ok || !bytes.Equal(v.ID, last.sid) {
					continue // the store no longer offers the session of the last connection
				}
				// B offers the stored session; everything the server answers is lost for the moment
				cEP, sEP := last.cEP, last.sEP
				b := scen.NewPair(env, &cEP, &sEP)
				open = append(open, b)
				b.Net.Blocked["S"] = true
				sdone := b.S.StartHandshake(20 * time.Minute)
				cdone := b.C.StartHandshake(20 * time.Minute)
				scen.Settle()
				// A's client sends a fatal alert: the session leaves the client's store
				last.pair.Net.Inject("S", "C", []byte{23, 0xfe, 0xfd, 0, 0, 0, 0, 0, 0, 0, 78, 0, 1, 0x41})
				scen.Settle()
				if v, ok := cs.Snapshot()[last.key]; ok && bytes.Equal(v.ID, last.sid) {
					r.Failf("C14|session-kept-after-fatal-alert|client", "client store still holds session %x under %q after the client sent a fatal alert on it", last.sid, last.key)

					return
				}
				b.Net.Blocked["S"] = false
				<-sdone
				<-cdone
				scen.Settle()
				if v, ok := cs.Snapshot()[last.key]; ok && bytes.Equal(v.ID, last.sid) {
					r.Failf("C14|session-restored-after-fatal-alert|client", "the client sent a fatal alert on session %x and dropped it; a connection that had offered it before (completed: C=%v S=%v, abbreviated=%v) put it back into the store under %q",
						last.sid, b.C.OK(), b.S.OK(), isAbbreviated(b), last.key)

					return
				}
				alerted["C:"+last.key] = true
				alertedSid["C:"+last.key] = last.sid
				r.Class("alert-raced-with-pending-resumption")
				if b.C.OK() && b.S.OK() && isAbbreviated(b) {
					r.Class("alert-raced-with-pending-resumption:abbreviated-completed")
				}
				last = nil
			case "alert":
				if last == nil || !last.ok {
					continue
				}
				p := last.pair
				side, from := p.S, "C"
				if a.Side == "C" {
					side, from = p.C, "S"
				}
				if _, ok := side.Conn.ConnectionState(); !ok {
					continue
				}
				// the session the connection was established on (also after an export/import of this side)
				st := struct{ SessionID []byte }{last.sid}
				if side.Name == "S" {
					st.SessionID = last.ssid
				}
				// an unprotected application_data record makes the endpoint send a fatal unexpected_message alert
				p.Net.Inject(from, side.Name, []byte{23, 0xfe, 0xfd, 0, 0, 0, 0, 0, 0, 0, 77, 0, 1, 0x41})
				scen.Settle()
				sent := false
				for _, ev := range p.Net.EventsFrom(side.Name) {
					_ = ev
					sent = true
				}
				if sent && len(st.SessionID) > 0 {
					if side.Name == "C" {
						// the entry the connection was keyed under must be gone (or no longer hold this session)
						if v, ok := cs.Snapshot()[last.key]; ok && bytes.Equal(v.ID, st.SessionID) {
							r.Failf("C14|session-kept-after-fatal-alert|client", "client store still holds session %x under %q after the client sent a fatal alert on it", st.SessionID, last.key)

							return
						}
						alerted["C:"+last.key] = true
					} else {
						if v, ok := ss.Snapshot()[string(st.SessionID)]; ok && len(v.ID) > 0 {
							r.Failf("C14|session-kept-after-fatal-alert|server", "server store still holds session %x after the server sent a fatal alert on it", st.SessionID)

							return
						}
						alerted["S:"+string(st.SessionID)] = true
					}
				}
				last = nil
			}
			if r.Failed() {
				return
			}
			// nobody but the harness (through Set) changes a stored session: the stores keep the slices the
			// library gave them, as an application's map would
			for name, st := range map[string]*scen.MemStore{"client": cs, "server": ss} {
				if tm := st.Tampered(); len(tm) > 0 {
					r.Failf("C14|stored-session-changed-in-place|"+name, "after action %d (%s) the %s store holds other bytes than were stored: %v", i, a.Kind, name, tm)

					return
				}
			}
		}
		// ... and closing every connection of the history must not change them either
		for _, p := range open {
			p.Close()
		}
		open = nil
		scen.Settle()
		for name, st := range map[string]*scen.MemStore{"client": cs, "server": ss} {
			if tm := st.Tampered(); len(tm) > 0 {
				r.Failf("C14|stored-session-changed-in-place|"+name, "after all connections were closed the %s store holds other bytes than were stored: %v", name, tm)

				return
			}
		}
		if os.Getenv("VERIF_DEBUG") != "" {
			fmt.Println(strings.Join(env.Log.Lines, "\n"))
		}
		if resumptions > 0 && (mutations > 0 || lossyAbbrev > 0) {
			r.NonTrivial()
		}
		r.Classf("resumptions=%d", min(resumptions, 4))
		r.Classf("mutations=%d", min(mutations, 4))
		r.Class(c.Family)
	})
	if berr != nil {
		if berr.Deadlock {
			r.Failf("C14|bubble-deadlock", "goroutines left blocked: %v", berr.Value)
		} else {
			r.Failf(pbt.PanicSig("C14", []byte(berr.Stack)), "panic: %v\n%s", berr.Value, berr.Stack)
		}
	}
}

func lastOf(l [][]byte) []byte {
	if len(l) == 0 {
		return nil
	}

	return l[len(l)-1]
}

func exported(st *dtls.State) (*scen.MirrorState, error) {
	raw, err := st.MarshalBinary()
	if err != nil {
		return nil, err
	}

	return scen.DecodeState(raw)
}

func sortedKeys(m map[string]dtls.Session) []string {
	out := make([]string, 0, len(m))
	for k := range m {
		out = append(out, k)
	}
	sort.Strings(out)

	return out
}

// mutate edits the stores; returns whether anything changed.
func mutate(cs, ss *scen.MemStore, a *Action) bool {
	csn, ssn := cs.Snapshot(), ss.Snapshot()
	ck, sk := sortedKeys(csn), sortedKeys(ssn)
	switch a.Mut {
	case "del-server":
		if len(sk) == 0 {
			return false
		}
		_ = ss.Del([]byte(sk[a.Arg%len(sk)]))
	case "del-client":
		if len(ck) == 0 {
			return false
		}
		_ = cs.Del([]byte(ck[a.Arg%len(ck)]))
	case "flip-server":
		if len(sk) == 0 {
			return false
		}
		k := sk[a.Arg%len(sk)]
		v := ssn[k]
		if len(v.Secret) == 0 {
			return false
		}
		v.Secret[a.Arg%len(v.Secret)] ^= 0x04
		_ = ss.Set([]byte(k), v)
	case "flip-client":
		if len(ck) == 0 {
			return false
		}
		k := ck[a.Arg%len(ck)]
		v := csn[k]
		if len(v.Secret) == 0 {
			return false
		}
		v.Secret[a.Arg%len(v.Secret)] ^= 0x04
		_ = cs.Set([]byte(k), v)
	case "truncate-server":
		if len(sk) == 0 {
			return false
		}
		k := sk[a.Arg%len(sk)]
		v := ssn[k]
		v.Secret = v.Secret[:a.Arg%(len(v.Secret)+1)]
		_ = ss.Set([]byte(k), v)
	case "truncate-client":
		if len(ck) == 0 {
			return false
		}
		k := ck[a.Arg%len(ck)]
		v := csn[k]
		v.Secret = v.Secret[:a.Arg%(len(v.Secret)+1)]
		_ = cs.Set([]byte(k), v)
	case "swap-server":
		if len(sk) < 2 {
			return false
		}
		k1, k2 := sk[0], sk[1+a.Arg%(len(sk)-1)]
		v1, v2 := ssn[k1], ssn[k2]
		v1.Secret, v2.Secret = v2.Secret, v1.Secret
		_ = ss.Set([]byte(k1), v1)
		_ = ss.Set([]byte(k2), v2)
	case "swap-client-id":
		if len(ck) < 2 {
			return false
		}
		k1, k2 := ck[0], ck[1+a.Arg%(len(ck)-1)]
		v1, v2 := csn[k1], csn[k2]
		v1.ID, v2.ID = v2.ID, v1.ID
		_ = cs.Set([]byte(k1), v1)
		_ = cs.Set([]byte(k2), v2)
	case "inject-server":
		// an entry for the id the client will offer, with a secret of another length / value
		if len(ck) == 0 {
			return false
		}
		v := csn[ck[a.Arg%len(ck)]]
		if len(v.ID) == 0 {
			return false
		}
		_ = ss.Set(v.ID, dtls.Session{ID: v.ID, Secret: bytes.Repeat([]byte{byte(a.Arg) | 1}, 32+a.Arg%33)})
	default:
		return false
	}

	return true
}

var muts = []string{"del-server", "del-client", "flip-server", "flip-client", "truncate-server", "truncate-client", "swap-server", "swap-client-id", "inject-server"}

func gen(t *rapid.T) Case {
	c := Case{Family: rapid.SampledFrom([]string{"cert", "cert", "psk"}).Draw(t, "family")}
	n := rapid.IntRange(2, 12).Draw(t, "n")
	for i := 0; i < n; i++ {
		var a Action
		k := rapid.IntRange(0, 9).Draw(t, "kind")
		switch {
		case i == 0 || k <= 5:
			a.Kind = "connect"
			if k == 5 && i > 0 {
				a.Kind = "overlap"
			}
			a.Name = rapid.SampledFrom([]int{0, 0, 0, 1, 2}).Draw(t, "name")
			if rapid.IntRange(0, 2).Draw(t, "faults") == 0 {
				a.FC = scen.GenFaults(t, "fc", 4)
				a.FS = scen.GenFaults(t, "fs", 4)
			}
			a.EMS = rapid.SampledFrom([]int{0, 0, 0, 1, 2}).Draw(t, "ems")
			a.Suite = rapid.SampledFrom([]int{0, 0, 0, 1, 2, 3, 4}).Draw(t, "suite")
			a.CID = rapid.SampledFrom([]int{0, 0, 3, 5}).Draw(t, "cid")
			if c.Family == "cert" {
				a.CAuth = rapid.SampledFrom([]int{0, 0, 0, 0, 1, 2, 3, 4, 5}).Draw(t, "cauth")
			}
		case k <= 7:
			a.Kind = "mutate"
			a.Mut = rapid.SampledFrom(muts).Draw(t, "mut")
			a.Arg = rapid.IntRange(0, 255).Draw(t, "arg")
		default:
			a.Kind = rapid.SampledFrom([]string{"alert", "alert", "import", "race"}).Draw(t, "akind")
			a.Side = rapid.SampledFrom([]string{"C", "S"}).Draw(t, "side")
		}
		c.Actions = append(c.Actions, a)
	}

	return c
}

func init() {
	pbt.Register(pbt.Prop[Case]{
		Name: "resumption-histories", Quick: 1500, Thorough: 40000, Gen: gen, Run: run, Crashy: true,
		Rule: "history of <=12 actions over one client and one server session store (recording, harness-owned): connect (server name, fault mask on the flights, EMS, suite list, CID), " +
			"overlapping connects, store mutations (delete / flip a byte / truncate / swap secrets / swap ids / inject a foreign entry), provoked fatal alert on the last connection, export/import of one side of the last connection (ResumeWithOptions on the same stores) before the alert, and a fatal alert raced with a second, stalled connection that had already offered the session; " +
			"oracle after every step: both-succeeded => keys agree (exporter equal, data flows); a successful abbreviated handshake only when both stores held the same secret for the offered id; " +
			"hello randoms and exporter output never repeat; connection IDs are the freshly generated ones; after a fatal alert the sender's store no longer holds the session and it is not " +
			"offered/resumed again. non-trivial = >=1 successful resumption and (>=1 store mutation or loss in an abbreviated flight); distinct = action sequence",
	})
}
