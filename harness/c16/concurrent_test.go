package c16

import (
	"context"
	"errors"
	"fmt"
	"os"
	"strings"
	"sync"
	"time"

	dtls "github.com/pion/dtls/v3"
	"github.com/pion/dtls/v3/internal/zzverif/lib/pbt"
	"github.com/pion/dtls/v3/internal/zzverif/lib/scen"
	"pgregory.net/rapid"
)

// APICase: goroutines issuing API calls concurrently on an established connection.
type APICase struct {
	Variant string     `json:"variant"`
	Ops     [][]string `json:"ops"` // per goroutine (on the client connection) a list of operations
	PeerOps []string   `json:"peerops"`
}

var apiOps = []string{"read", "write", "setdeadline", "setreaddeadline", "setwritedeadline", "state", "srtp", "mki", "raddr", "laddr", "update", "close", "cleardeadline", "export"}

func doOp(conn *dtls.Conn, op string, i int) {
	switch op {
	case "read":
		_ = conn.SetReadDeadline(time.Now().Add(50 * time.Millisecond))
		_, _ = conn.Read(make([]byte, 2048))
	case "write":
		_, _ = conn.Write([]byte{0xA9, byte(i)})
	case "setdeadline":
		_ = conn.SetDeadline(time.Now().Add(time.Duration(i%3) * 10 * time.Millisecond))
	case "setreaddeadline":
		_ = conn.SetReadDeadline(time.Now().Add(20 * time.Millisecond))
	case "setwritedeadline":
		_ = conn.SetWriteDeadline(time.Now().Add(20 * time.Millisecond))
	case "cleardeadline":
		_ = conn.SetDeadline(time.Time{})
	case "state":
		_, _ = conn.ConnectionState()
	case "export":
		if st, ok := conn.ConnectionState(); ok {
			_, _ = st.ExportKeyingMaterial("EXTRACTOR-dtls_srtp", nil, 30)
		}
	case "srtp":
		_, _ = conn.SelectedSRTPProtectionProfile()
	case "mki":
		_, _ = conn.RemoteSRTPMasterKeyIdentifier()
	case "raddr":
		_ = conn.RemoteAddr()
	case "laddr":
		_ = conn.LocalAddr()
	case "update":
		ctx, cancel := context.WithTimeout(context.Background(), 200*time.Millisecond)
		_ = conn.UpdateKeys(ctx, dtls.KeyUpdateOptions{RequestPeerUpdate: i%2 == 0})
		cancel()
	case "close":
		_ = conn.Close()
	}
}

func runAPI(c APICase, r *pbt.R) {
	berr := pbt.Bubble(func() {
		cEP, sEP, _ := epsFor(c.Variant)
		cEP.SRTP, sEP.SRTP = []uint16{1}, []uint16{1}
		env := scen.NewEnv()
		p := scen.NewPair(env, &cEP, &sEP)
		defer p.Close()
		p.Handshake(10 * time.Minute)
		if !(p.C.OK() && p.S.OK()) {
			r.Failf("C16|harness|handshake", "setup failed: %v %v", p.C.Err(), p.S.Err())

			return
		}
		var wg sync.WaitGroup
		hasWriter, hasCloser := false, false
		for g, ops := range c.Ops {
			wg.Add(1)
			go func(g int, ops []string) {
				defer wg.Done()
				for i, op := range ops {
					doOp(p.C.Conn, op, g*16+i)
				}
			}(g, ops)
			for _, op := range ops {
				hasWriter = hasWriter || op == "write"
				hasCloser = hasCloser || op == "close"
			}
		}
		wg.Add(1)
		go func() {
			defer wg.Done()
			for i, op := range c.PeerOps {
				doOp(p.S.Conn, op, 200+i)
			}
		}()
		done := make(chan struct{})
		go func() { wg.Wait(); close(done) }()
		select {
		case <-done:
		case <-time.After(time.Minute):
			// a Read whose deadline another goroutine cleared blocks legitimately: closing must release it
			_ = p.C.Conn.Close()
			_ = p.S.Conn.Close()
			select {
			case <-done:
			case <-time.After(30 * time.Minute):
				r.Failf("C16|concurrent-api-deadlock", "API calls did not return within 30 virtual minutes even after Close: %+v", c)

				return
			}
		}
		if len(c.Ops) >= 3 && hasWriter && hasCloser {
			r.NonTrivial()
		}
		r.Class(c.Variant)
		r.Classf("goroutines=%d", len(c.Ops))
	})
	if berr != nil {
		if berr.Deadlock {
			r.Failf("C16|goroutine-left-blocked", "goroutines left durably blocked: %v", berr.Value)
		} else {
			r.Failf(pbt.PanicSig("C16", []byte(berr.Stack)), "panic: %v\n%s", berr.Value, berr.Stack)
		}
	}
}

func genAPI(t *rapid.T) APICase {
	c := APICase{Variant: rapid.SampledFrom([]string{"v12", "v12-cid", "v13", "v12-psk"}).Draw(t, "variant")}
	ng := rapid.IntRange(2, 8).Draw(t, "goroutines")
	for g := 0; g < ng; g++ {
		n := rapid.IntRange(1, 6).Draw(t, "nops")
		var ops []string
		for i := 0; i < n; i++ {
			ops = append(ops, rapid.SampledFrom(apiOps).Draw(t, "op"))
		}
		c.Ops = append(c.Ops, ops)
	}
	np := rapid.IntRange(0, 5).Draw(t, "npeer")
	for i := 0; i < np; i++ {
		c.PeerOps = append(c.PeerOps, rapid.SampledFrom([]string{"write", "write", "read", "update", "state", "close"}).Draw(t, "peerop"))
	}

	return c
}

// DeadlineCase: deadlines interrupt blocked calls at exactly the virtual instant.
type DeadlineCase struct {
	Variant string `json:"variant"`
	AfterMs int    `json:"after"` // deadline = now + AfterMs (0 or negative: already past)
	Kind    string `json:"kind"`  // read | all
}

func runDeadline(c DeadlineCase, r *pbt.R) {
	berr := pbt.Bubble(func() {
		cEP, sEP, _ := epsFor(c.Variant)
		env := scen.NewEnv()
		p := scen.NewPair(env, &cEP, &sEP)
		defer p.Close()
		p.Handshake(10 * time.Minute)
		if !(p.C.OK() && p.S.OK()) {
			r.Failf("C16|harness|handshake", "setup failed")

			return
		}
		scen.Settle()
		type res struct {
			err error
			at  time.Duration
		}
		out := make(chan res, 1)
		start := p.Net.Now()
		go func() {
			_, err := p.C.Conn.Read(make([]byte, 100))
			out <- res{err, p.Net.Now()}
		}()
		scen.Settle()
		dl := time.Now().Add(time.Duration(c.AfterMs) * time.Millisecond)
		if c.Kind == "all" {
			_ = p.C.Conn.SetDeadline(dl)
		} else {
			_ = p.C.Conn.SetReadDeadline(dl)
		}
		var got res
		select {
		case got = <-out:
		case <-time.After(10 * time.Minute):
			r.Failf("C16|deadline-does-not-interrupt-read", "blocked Read still pending 10 virtual minutes after a deadline of +%dms", c.AfterMs)

			return
		}
		want := start + time.Duration(max(c.AfterMs, 0))*time.Millisecond
		var ne interface{ Timeout() bool }
		if got.err == nil || !(errors.As(got.err, &ne) && ne.Timeout() || strings.Contains(got.err.Error(), "deadline") || errors.Is(got.err, os.ErrDeadlineExceeded)) {
			r.Failf("C16|deadline-wrong-error", "Read interrupted by a deadline returned %v", got.err)

			return
		}
		if got.at != want {
			r.Failf("C16|deadline-wrong-instant", "Read returned at %v, deadline was %v", got.at, want)

			return
		}
		// the connection stays usable once the deadline is cleared
		_ = p.C.Conn.SetDeadline(time.Time{})
		gotS, gotC, werr := p.Exchange([][]byte{[]byte("after-deadline-c")}, [][]byte{[]byte("after-deadline-s")})
		if werr != nil || len(gotS) != 1 || len(gotC) != 1 {
			r.Failf("C16|unusable-after-deadline", "after a deadline expired and was cleared: werr=%v server got %d client got %d", werr, len(gotS), len(gotC))

			return
		}
		r.NonTrivial()
		r.Class(fmt.Sprintf("%s/%s", c.Variant, c.Kind))
	})
	if berr != nil {
		r.Failf(pbt.PanicSig("C16", []byte(berr.Stack)), "bubble: %v", berr.Value)
	}
}

func genDeadline(t *rapid.T) DeadlineCase {
	return DeadlineCase{
		Variant: rapid.SampledFrom([]string{"v12", "v12-cid", "v13"}).Draw(t, "variant"),
		AfterMs: rapid.SampledFrom([]int{-1000, 0, 1, 10, 999, 1000, 1001, 60000}).Draw(t, "after"),
		Kind:    rapid.SampledFrom([]string{"read", "all"}).Draw(t, "kind"),
	}
}

func init() {
	pbt.Register(pbt.Prop[APICase]{
		Name: "concurrent-api", Quick: 600, Thorough: 15000, Gen: genAPI, Run: runAPI, Crashy: true,
		Rule: "2..8 goroutines issuing generated lists of {Read, Write, SetDeadline, SetReadDeadline, SetWriteDeadline, ConnectionState, ExportKeyingMaterial, SelectedSRTPProtectionProfile, " +
			"RemoteSRTPMasterKeyIdentifier, RemoteAddr, LocalAddr, UpdateKeys, Close} on an established connection while the peer writes/reads/updates/closes; oracle: everything returns " +
			"(no deadlock), and - in the race-detector build of the same scenarios - the detector reports nothing. non-trivial = >=3 goroutines with >=1 writer and >=1 closer",
	})
	pbt.Register(pbt.Prop[DeadlineCase]{
		Name: "deadlines", Quick: 300, Thorough: 5000, Gen: genDeadline, Run: runDeadline,
		Rule: "a Read blocked on an established connection and a read/overall deadline set to now+d (d in {-1s,0,1ms,...,60s}); oracle: Read returns a timeout-class error at exactly " +
			"that virtual instant and the connection keeps exchanging data after the deadline is cleared",
	})
}
