package c16

import (
	"context"
	"errors"
	"fmt"
	"io"
	"net"
	"os"
	"strings"
	"sync"
	"testing"
	"time"

	dtls "github.com/pion/dtls/v3"
	"github.com/pion/dtls/v3/internal/zzverif/lib/pbt"
	"github.com/pion/dtls/v3/internal/zzverif/lib/ref"
	"github.com/pion/dtls/v3/internal/zzverif/lib/scen"
	"github.com/pion/dtls/v3/internal/zzverif/lib/vnet"
	"pgregory.net/rapid"
)

func TestMain(m *testing.M) { pbt.Main(m, "C16") }

func TestProps(t *testing.T) { pbt.RunAll(t) }

func TestReplay(t *testing.T) { pbt.Replay(t) }

// Case: a handshake variant under a fault mask, with Close placed at a protocol event.
type Case struct {
	Variant string       `json:"variant"`
	FC      []vnet.Fault `json:"fc,omitempty"`
	FS      []vnet.Fault `json:"fs,omitempty"`
	// who closes: "C", "S", "both"
	Who string `json:"who"`
	// when: "sent" (when TrigSide has emitted K datagrams), "time" (virtual ms), "established" (after both succeeded)
	When     string `json:"when"`
	TrigSide string `json:"trigside,omitempty"`
	K        int    `json:"k,omitempty"`
	Ms       int    `json:"ms,omitempty"`
	Closers  int    `json:"closers"` // concurrent closer goroutines per closing side
	Times    int    `json:"times"`   // Close calls per closer
	PendR    int    `json:"pendr"`   // goroutines blocked in Read per side
	PendW    int    `json:"pendw"`   // goroutines calling Write per side
	PendU    int    `json:"pendu,omitempty"`
	// PeerWriteFail: from the moment of the Close on, every transport write of the OTHER side fails
	// (path gone, ICMP unreachable): its reply to the close_notify cannot be sent.
	PeerWriteFail bool `json:"peerwfail,omitempty"`
}

func epsFor(v string) (cl, sv scen.EP, resumed bool) {
	cl = scen.EP{RootCA: 1, ServerName: scen.ServerName}
	sv = scen.EP{Cert: "ecdsa"}
	switch v {
	case "v12":
	case "v12-psk":
		cl = scen.EP{PSK: "life-psk-0001", PSKHint: "id", Suites: []uint16{0x00a8}}
		sv = scen.EP{PSK: "life-psk-0001", PSKHint: "h", Suites: []uint16{0x00a8}}
	case "v12-resumed":
		cl.Store, sv.Store = "cs", "ss"
		resumed = true
	case "v12-cid":
		cl.CID, sv.CID = 4, 4
	case "v12-ccm8": // 8-byte tag: the 2-byte alert is the smallest record a suite has to open
		cl.Suites, sv.Suites = []uint16{0xc0ae}, []uint16{0xc0ae}
	case "v12-cbc":
		cl.Suites, sv.Suites = []uint16{0xc00a}, []uint16{0xc00a}
	case "v12-chacha-cid":
		cl.Suites, sv.Suites = []uint16{0xcca9}, []uint16{0xcca9}
		cl.CID, sv.CID = 3, 5
	case "v13":
		cl.MinVer, cl.MaxVer, sv.MinVer, sv.MaxVer = 13, 13, 13, 13
		cl.Curves, sv.Curves = []uint16{0x1d}, []uint16{0x1d}
	case "v13-nohv":
		cl.MinVer, cl.MaxVer, sv.MinVer, sv.MaxVer = 13, 13, 13, 13
		cl.Curves, sv.Curves = []uint16{0x1d}, []uint16{0x1d}
		sv.SkipHelloVfy = true
	case "dual-12":
		cl.MinVer, cl.MaxVer = 12, 13
		cl.Curves, sv.Curves = []uint16{0x1d}, []uint16{0x1d}
	}

	return cl, sv, resumed
}

type callRec struct {
	side    string
	kind    string // handshake, read, write, update, close
	started time.Duration
	ended   time.Duration
	err     error
	n       int
	done    bool
}

type recorder struct {
	mu     sync.Mutex
	calls  []*callRec
	wg     sync.WaitGroup
	net    *vnet.Net
	hsLeft int
	hsDone chan struct{}
}

func (rc *recorder) run(side, kind string, f func() (int, error)) {
	c := &callRec{side: side, kind: kind, started: rc.net.Now()}
	rc.mu.Lock()
	rc.calls = append(rc.calls, c)
	rc.mu.Unlock()
	rc.wg.Add(1)
	go func() {
		defer rc.wg.Done()
		n, err := f()
		rc.mu.Lock()
		c.n, c.err, c.done, c.ended = n, err, true, rc.net.Now()
		if kind == "handshake" {
			rc.hsLeft--
			if rc.hsLeft == 0 {
				close(rc.hsDone)
			}
		}
		rc.mu.Unlock()
	}()
}

func closedClass(err error) bool {
	if err == nil {
		return false
	}
	if errors.Is(err, io.EOF) || errors.Is(err, net.ErrClosed) || errors.Is(err, dtls.ErrConnClosed) || errors.Is(err, context.Canceled) {
		return true
	}
	s := err.Error()

	return strings.Contains(s, "closed") || strings.Contains(s, "EOF") || strings.Contains(s, "handshake failed") || strings.Contains(s, "canceled")
}

func run(c Case, r *pbt.R) {
	var gens []scen.Gen13
	stop := scen.CaptureGens13(&gens)
	defer stop()
	is13 := strings.HasPrefix(c.Variant, "v13")
	berr := pbt.Bubble(func() {
		cEP, sEP, resumed := epsFor(c.Variant)
		env := scen.NewEnv()
		env.Log = &scen.LogSink{Keep: os.Getenv("VERIF_DEBUG") != ""}
		if resumed {
			p0 := scen.NewPair(env, &cEP, &sEP)
			p0.Handshake(10 * time.Minute)
			ok := p0.C.OK() && p0.S.OK()
			p0.Close()
			scen.Settle()
			if !ok {
				r.Failf("C16|harness|prime", "priming connection failed")

				return
			}
		}
		gens = gens[:0]
		p := scen.NewPair(env, &cEP, &sEP)
		p.Net.Faults["C"] = c.FC
		p.Net.Faults["S"] = c.FS
		rc := &recorder{net: p.Net, hsLeft: 2, hsDone: make(chan struct{})}
		sides := map[string]*scen.Side{"C": p.C, "S": p.S}
		closing := map[string]bool{}
		switch c.Who {
		case "both":
			closing["C"], closing["S"] = true, true
		default:
			closing[c.Who] = true
		}
		hsCtx, hsCancel := context.WithTimeout(context.Background(), 30*time.Minute)
		defer hsCancel()
		for _, name := range []string{"S", "C"} {
			sd := sides[name]
			rc.run(name, "handshake", func() (int, error) { return 0, sd.Conn.HandshakeContext(hsCtx) })
			for i := 0; i < c.PendR; i++ {
				rc.run(name, "read", func() (int, error) {
					buf := make([]byte, 2048)
					for {
						n, err := sd.Conn.Read(buf)
						if err != nil {
							return n, err
						}
					}
				})
			}
			for i := 0; i < c.PendW; i++ {
				i := i
				rc.run(name, "write", func() (int, error) {
					for k := 0; ; k++ {
						if _, err := sd.Conn.Write([]byte{0xC1, 0x6C, byte(i), byte(k)}); err != nil {
							return k, err
						}
						if k >= 3 {
							// keep one goroutine per side parked in the library between writes
							time.Sleep(50 * time.Millisecond)
						}
						if k > 40 {
							return k, nil
						}
					}
				})
			}
			if is13 {
				for i := 0; i < c.PendU; i++ {
					rc.run(name, "update", func() (int, error) {
						ctx, cancel := context.WithTimeout(context.Background(), 10*time.Minute)
						defer cancel()

						return 0, sd.Conn.UpdateKeys(ctx, dtls.KeyUpdateOptions{RequestPeerUpdate: i%2 == 0})
					})
				}
			}
		}
		// trigger (event based: a goroutine parked on the library's handshake mutex is not durably
		// blocked for synctest, so the harness must not depend on virtual time while such calls exist)
		switch c.When {
		case "sent":
			select {
			case <-p.Net.WaitSent(c.TrigSide, c.K):
			case <-rc.hsDone:
			case <-time.After(20 * time.Minute):
			}
		case "time":
			time.Sleep(time.Duration(c.Ms) * time.Millisecond)
		default:
			select {
			case <-rc.hsDone:
			case <-time.After(20 * time.Minute):
			}
		}
		established, hsFailed := map[string]bool{}, map[string]bool{}
		rc.mu.Lock()
		for _, cl := range rc.calls {
			if cl.kind == "handshake" && cl.done && cl.err == nil {
				established[cl.side] = true
			}
			if cl.kind == "handshake" && cl.done && cl.err != nil {
				hsFailed[cl.side] = true
			}
		}
		rc.mu.Unlock()
		if c.PeerWriteFail && len(closing) == 1 {
			for name := range closing {
				peer := "S"
				if name == "S" {
					peer = "C"
				}
				sides[peer].EP.WriteErr = errors.New("vnet: network is unreachable")
				r.Class("peer-write-fails")
			}
		}
		closeAt := p.Net.Now()
		tapMark := len(p.Net.Events())
		var cwg sync.WaitGroup
		closeReturned := make(chan struct{})
		for name := range closing {
			sd := sides[name]
			for g := 0; g < c.Closers; g++ {
				cwg.Add(1)
				go func() {
					defer cwg.Done()
					for k := 0; k < c.Times; k++ {
						_ = sd.Conn.Close()
					}
				}()
			}
		}
		go func() { cwg.Wait(); close(closeReturned) }()
		select {
		case <-closeReturned:
		case <-time.After(30 * time.Minute):
			r.Failf("C16|close-does-not-return|"+c.Variant, "Close did not return within 30 virtual minutes (case %+v)", c)
			// cannot continue safely: the bubble would hang; dump and give up on this process state
			return
		}
		bothEstablished := established["C"] && established["S"]
		if bothEstablished {
			// nobody is parked on the handshake mutex: quiescence and virtual time are available, so
			// the close_notify can propagate and the peer can react on its own
			scen.Settle()
			time.Sleep(2 * time.Second)
			scen.Settle()
		}
		var dec *ref.Decoder
		if is13 {
			dec = scen.Decoder13(p, gens)
		} else {
			dec = scen.Decoder12(p, env)
		}
		peerEOF := map[string]bool{}
		rc.mu.Lock()
		for _, cl := range rc.calls {
			if cl.kind == "read" && cl.done && errors.Is(cl.err, io.EOF) {
				peerEOF[cl.side] = true
			}
		}
		rc.mu.Unlock()
		// now close whatever is still open so that every call returns
		for _, name := range []string{"C", "S"} {
			if !closing[name] {
				_ = sides[name].Conn.Close()
			}
		}
		allDone := make(chan struct{})
		go func() { rc.wg.Wait(); close(allDone) }()
		select {
		case <-allDone:
		case <-time.After(40 * time.Minute):
			pend := ""
			rc.mu.Lock()
			for _, cl := range rc.calls {
				if !cl.done {
					pend += fmt.Sprintf(" %s:%s", cl.side, cl.kind)
				}
			}
			rc.mu.Unlock()
			r.Failf("C16|pending-call-never-returns|"+strings.Fields(pend + " ?")[0], "calls still blocked 40 virtual minutes after Close:%s (case %+v)", pend, c)

			return
		}
		_ = p.C.EP.Close()
		_ = p.S.EP.Close()
		scen.Settle()
		time.Sleep(time.Second)
		scen.Settle()
		if os.Getenv("VERIF_DEBUG") != "" {
			fmt.Println(p.Dump())
			fmt.Println(strings.Join(env.Log.Lines, "\n"))
		}
		// ---- oracle over the recorded calls
		rc.mu.Lock()
		calls := append([]*callRec(nil), rc.calls...)
		rc.mu.Unlock()
		for _, cl := range calls {
			if !closing[cl.side] {
				continue
			}
			// pending when Close began (or started later) and not already completed -> must carry an error
			completedBefore := cl.done && cl.ended < closeAt
			if completedBefore {
				continue
			}
			if cl.kind == "handshake" && cl.err == nil {
				continue // the handshake legitimately completed at the very instant of Close
			}
			if cl.kind == "write" && cl.err == nil {
				continue // writer finished its quota
			}
			if cl.kind == "update" && cl.err == nil {
				continue
			}
			if cl.err == nil {
				r.Failf("C16|pending-call-returns-nil|"+cl.kind, "%s %s returned nil although the connection was closed at %v (call %v..%v)", cl.side, cl.kind, closeAt, cl.started, cl.ended)

				return
			}
			if !closedClass(cl.err) && cl.kind != "update" {
				r.Failf("C16|pending-call-wrong-error|"+cl.kind, "%s %s returned %q, not a closed/EOF class error", cl.side, cl.kind, cl.err)

				return
			}
		}
		// calls started after Close fail immediately
		for name := range closing {
			sd := sides[name]
			if _, err := sd.Conn.Write([]byte("late")); err == nil {
				r.Failf("C16|write-after-close-succeeds", "%s: Write after Close returned nil", name)

				return
			}
			done := make(chan error, 1)
			go func() {
				// data that was already queued may still be handed out; then Read must fail
				var err error
				for i := 0; i < 4 && err == nil; i++ {
					_, err = sd.Conn.Read(make([]byte, 2048))
				}
				done <- err
			}()
			select {
			case err := <-done:
				if err == nil {
					r.Failf("C16|read-after-close-succeeds", "%s: Read after Close keeps returning nil", name)

					return
				}
			case <-time.After(time.Minute):
				r.Failf("C16|read-after-close-blocks", "%s: Read after Close blocked", name)

				return
			}
		}
		// close_notify discipline on the wire
		if dec != nil {
			notify, fatal := map[string]int{}, map[string]int{}
			cidLen := map[string]int{}
			if cEP.CID > 0 && sEP.CID > 0 {
				cidLen["C"], cidLen["S"] = cEP.CID, sEP.CID
			}
			for _, ev := range p.Net.Events() {
				if ev.From != "C" && ev.From != "S" {
					continue
				}
				to := "S"
				if ev.From == "S" {
					to = "C"
				}
				ds, _ := dec.Decode(ev.From, ev.Data, cidLen[to])
				for _, d := range ds {
					if d.OK && d.Type == scen.CTAlert && len(d.Plain) == 2 && d.Plain[1] == 0 {
						notify[ev.From]++
					}
					if d.OK && d.Type == scen.CTAlert && len(d.Plain) == 2 && d.Plain[0] == 2 {
						fatal[ev.From]++
					}
				}
			}
			for name, n := range notify {
				if n > 1 {
					race := ""
					if closing["C"] && closing["S"] {
						race = "|both-closing"
					}
					r.Failf("C16|close_notify-twice|"+verOf(is13)+race, "%s emitted %d close_notify alerts in one session (closers=%d times=%d who=%s)", name, n, c.Closers, c.Times, c.Who)
					if r.Failed() {
						return
					}
				}
			}
			for name := range closing {
				peer := "S"
				if name == "S" {
					peer = "C"
				}
				// exactly one when the application closes an established, still-open session
				// if both close at once either may have been closed by the peer's alert first; a peer whose own
				// handshake failed, or that sent a fatal alert, has ended the session from its side (DTLS 1.3
				// protects such an alert since 4675a6b, so it arrives)
				stillOpen := !closing[peer] && !hsFailed[peer] && fatal[peer] == 0
				if established[name] && stillOpen && notify[name] != 1 {
					r.Failf("C16|close_notify-missing|"+verOf(is13), "%s closed an established open session but emitted %d close_notify (tap since close: %d datagrams)", name, notify[name], len(p.Net.Events())-tapMark)

					return
				}
				if established[name] && established[peer] && stillOpen && c.PendR > 0 && !peerEOF[peer] {
					r.Failf("C16|peer-read-no-eof|"+verOf(is13), "%s closed an established session; the peer's pending Read did not return io.EOF", name)

					return
				}
			}
		}
		// no goroutine left behind
		if left := pbt.BubbleGoroutines(); len(left) > 0 {
			r.Failf("C16|goroutine-leak|"+leakSig(left), "%d goroutine(s) left after both connections were closed:\n%s", len(left), strings.Join(left, "\n\n")[:min(4000, len(strings.Join(left, "\n\n")))])

			return
		}
		inside := c.When != "established" && !(established["C"] && established["S"])
		if inside || c.PendR+c.PendW+c.PendU > 0 || c.Closers >= 2 {
			r.NonTrivial()
		}
		if inside {
			r.Class("close-inside-handshake")
		} else {
			r.Class("close-after-establishment")
		}
		r.Class(c.Variant)
		r.Class("who=" + c.Who)
		r.Classf("closers=%d", c.Closers)
	})
	if berr != nil {
		if berr.Deadlock {
			r.Failf("C16|goroutine-left-blocked", "goroutines left durably blocked when the scenario ended: %v", berr.Value)
		} else {
			r.Failf(pbt.PanicSig("C16", []byte(berr.Stack)), "panic: %v\n%s", berr.Value, berr.Stack)
		}
	}
}

func verOf(is13 bool) string {
	if is13 {
		return "dtls13"
	}

	return "dtls12"
}

func leakSig(stacks []string) string {
	for _, st := range stacks {
		for _, line := range strings.Split(st, "\n") {
			if strings.Contains(line, "github.com/pion/dtls/v3") && !strings.Contains(line, "zzverif") && strings.Contains(line, "(") {
				f := strings.TrimSpace(line)
				if i := strings.Index(f, "("); i > 0 {
					f = f[:i]
				}
				f = strings.TrimPrefix(f, "github.com/pion/dtls/v3")

				return strings.TrimPrefix(f, "/")
			}
		}
	}

	return "unknown"
}

var variants = []string{"v12", "v12-psk", "v12-resumed", "v12-cid", "v13", "v13-nohv", "dual-12", "v12-ccm8", "v12-cbc", "v12-chacha-cid"}

func gen(t *rapid.T) Case {
	c := Case{Variant: rapid.SampledFrom(variants).Draw(t, "variant")}
	if rapid.IntRange(0, 2).Draw(t, "faults") == 0 {
		c.FC = scen.GenFaults(t, "fc", 5)
		c.FS = scen.GenFaults(t, "fs", 5)
	}
	c.Who = rapid.SampledFrom([]string{"C", "S", "both"}).Draw(t, "who")
	c.When = rapid.SampledFrom([]string{"sent", "sent", "sent", "time", "established", "established"}).Draw(t, "when")
	c.TrigSide = rapid.SampledFrom([]string{"C", "S"}).Draw(t, "trigside")
	c.K = rapid.IntRange(0, 8).Draw(t, "k")
	c.Ms = rapid.SampledFrom([]int{0, 1, 500, 1000, 1001, 3000, 7000}).Draw(t, "ms")
	c.Closers = rapid.IntRange(1, 4).Draw(t, "closers")
	c.Times = rapid.IntRange(1, 3).Draw(t, "times")
	c.PendR = rapid.IntRange(0, 3).Draw(t, "pendr")
	c.PendW = rapid.IntRange(0, 3).Draw(t, "pendw")
	if strings.HasPrefix(c.Variant, "v13") {
		c.PendU = rapid.IntRange(0, 2).Draw(t, "pendu")
	}
	if len(c.FC)+len(c.FS) > 0 || c.When == "time" {
		// A goroutine parked on the library's handshake mutex (Read/Write during the handshake) is not
		// durably blocked for testing/synctest, so virtual time could not advance and the
		// retransmission timers these scenarios need would never fire: no pending calls here.
		c.PendR, c.PendW, c.PendU = 0, 0, 0
	}

	if c.Who != "both" && c.When == "established" {
		c.PeerWriteFail = rapid.IntRange(0, 2).Draw(t, "peerwfail") == 0
	}

	return c
}

// placement grid: variant x closing side x trigger side x k
func enumGrid(tier string, yield func(Case) bool) {
	maxK := 6
	if tier == "thorough" {
		maxK = 9
	}
	for _, v := range variants {
		for _, who := range []string{"C", "S", "both"} {
			for _, ts := range []string{"C", "S"} {
				for k := 0; k <= maxK; k++ {
					for _, closers := range []int{1, 3} {
						if !yield(Case{Variant: v, Who: who, When: "sent", TrigSide: ts, K: k, Closers: closers, Times: 2, PendR: 1, PendW: 1}) {
							return
						}
					}
				}
			}
			if who != "both" && !yield(Case{Variant: v, Who: who, When: "established", Closers: 1, Times: 1, PendR: 1, PeerWriteFail: true}) {
				return
			}
			if !yield(Case{Variant: v, Who: who, When: "established", Closers: 2, Times: 2, PendR: 2, PendW: 1}) {
				return
			}
		}
	}
}

func init() {
	rule := "handshake variant x fault mask x Close placement (when side X has emitted its k-th datagram / at a virtual instant / after establishment) x closing side(s) x 1..4 concurrent " +
		"closers x 1..3 Close calls each x pending calls (HandshakeContext always, 0..3 Read, 0..3 Write, 1.3 UpdateKeys); oracle: every Close returns, every call pending at Close " +
		"returns with a closed/EOF-class error, calls after Close fail at once, each endpoint emits at most one close_notify (counted with the independent decoder) and exactly one when it " +
		"closes an established still-open session, the peer's pending Read returns io.EOF, no goroutine is left. non-trivial = Close inside the handshake, or a blocked call, or >=2 closers"
	pbt.Register(pbt.Prop[Case]{Name: "close-placement", Quick: 2500, Thorough: 60000, Gen: gen, Run: run, Crashy: true, Rule: "SAMPLED: " + rule})
	pbt.Register(pbt.Prop[Case]{Name: "close-placement-grid", Enum: enumGrid, Exhaustive: true, Run: run, Crashy: true,
		Rule: "GRID (10 variants x closing side C/S/both x trigger side x k=0..6 (thorough 9) x closers 1/3, plus after establishment): " + rule})
}
