package c07

import (
	"bytes"
	"context"
	"crypto/sha256"
	"encoding/binary"
	"fmt"
	"os"
	"strings"
	"sync"
	"testing"
	"time"

	dtls "github.com/pion/dtls/v3"
	"github.com/pion/dtls/v3/internal/zzverif/lib/pbt"
	"github.com/pion/dtls/v3/internal/zzverif/lib/ref"
	"github.com/pion/dtls/v3/internal/zzverif/lib/scen"
	"github.com/pion/dtls/v3/internal/zzverif/lib/vnet"
	"pgregory.net/rapid"
)

// exporterPublic reports how an exporter output can be recomputed from what a passive observer
// knows (the hello randoms and constants): every formula of the exporter family keyed by public bytes.
func exporterPublic(got []byte, label string, cr, sr []byte) string {
	publicKeys := [][]byte{nil, {}, make([]byte, 32), make([]byte, 48), cr, sr, append(append([]byte(nil), cr...), sr...)}
	for _, hn := range []string{"sha256", "sha384"} {
		h := ref.HashByName(hn)
		for _, k := range publicKeys {
			for _, seeds := range [][2][]byte{{cr, sr}, {sr, cr}} {
				if bytes.Equal(got, ref.Exporter12(h, k, label, seeds[0], seeds[1], len(got))) {
					return fmt.Sprintf("equals PRF_%s(key=%d public bytes, label || hello randoms): computable from the cleartext of the handshake", hn, len(k))
				}
			}
		}
		for _, su := range ref.Suites13 {
			for _, k := range publicKeys {
				if len(k) > 0 && bytes.Equal(got, ref.Exporter13(su, k, label, nil, len(got))) {
					return "equals the RFC 8446 exporter keyed with public bytes"
				}
			}
		}
	}

	return ""
}

func TestMain(m *testing.M) { pbt.Main(m, "C07") }

func TestProps(t *testing.T) { pbt.RunAll(t) }

func TestReplay(t *testing.T) { pbt.Replay(t) }

// Case: a session with writes interleaved with handshake completion, retransmission, alerts, Close.
type Case struct {
	Suite   uint16       `json:"suite"`
	CIDC    int          `json:"cidc,omitempty"`
	CIDS    int          `json:"cids,omitempty"`
	SkipHV  bool         `json:"skiphv,omitempty"`
	FC      []vnet.Fault `json:"fc,omitempty"`
	FS      []vnet.Fault `json:"fs,omitempty"`
	Early   int          `json:"early,omitempty"`  // writer goroutines per side started BEFORE the handshake (no faults then)
	Writers int          `json:"writers"`          // writer goroutines per side after establishment
	Sizes   []int        `json:"sizes"`            // payload sizes
	Alerts  int          `json:"alerts,omitempty"` // injected conditions that make endpoints alert, during the writes
	Plain   int          `json:"plain,omitempty"`  // injected epoch-0 application_data records per side
	// PlainHS / PlainAt: an epoch-0 application_data record is slipped in front of the PlainAt-th datagram that side
	// PlainHS ("C"/"S") sends, i.e. it reaches the peer in the middle of the handshake
	PlainHS string `json:"plainhs,omitempty"`
	PlainAt int    `json:"plainat,omitempty"`
	Close   string `json:"close,omitempty"` // "", "C", "S": Close during the writes
	Seed    int    `json:"seed"`
	// Updates (1.3): key updates per side after establishment, before the writers start
	Updates int `json:"updates,omitempty"`
	// Import (1.2, no Close): after the writes that side is exported and resumed (ResumeWithOptions); the
	// exporter is then judged on the imported connection
	Import string `json:"import,omitempty"`
}

var pskSuite = map[uint16]bool{0xc0a4: true, 0xc0a8: true, 0xc0a9: true, 0x00a8: true, 0x00ae: true, 0xccab: true, 0xc037: true}

func epsFor(c *Case) (cl, sv scen.EP) {
	cl = scen.EP{RootCA: 1, ServerName: scen.ServerName, Suites: []uint16{c.Suite}}
	sv = scen.EP{Cert: "ecdsa", Suites: []uint16{c.Suite}}
	switch {
	case c.Suite>>8 == 0x13:
		cl.MinVer, cl.MaxVer, sv.MinVer, sv.MaxVer = 13, 13, 13, 13
		cl.Curves, sv.Curves = []uint16{0x1d}, []uint16{0x1d}
	case c.Suite == 0xc02f || c.Suite == 0xc030 || c.Suite == 0xc014 || c.Suite == 0xcca8:
		sv.Cert = "rsa"
	case pskSuite[c.Suite]:
		cl = scen.EP{PSK: "conf-psk-key-00001", PSKHint: "id", Suites: []uint16{c.Suite}}
		sv = scen.EP{PSK: "conf-psk-key-00001", PSKHint: "hint", Suites: []uint16{c.Suite}}
	}
	cl.CID, sv.CID = c.CIDC, c.CIDS
	sv.SkipHelloVfy = c.SkipHV

	return cl, sv
}

// payload: high-entropy bytes (SHA-256 in counter mode), so an accidental occurrence inside
// ciphertext has negligible probability
func payload(seed, idx, n int) []byte {
	var out []byte
	for ctr := 0; len(out) < n; ctr++ {
		var b [16]byte
		binary.BigEndian.PutUint32(b[:], uint32(seed)) //nolint:gosec
		binary.BigEndian.PutUint32(b[4:], uint32(idx)) //nolint:gosec
		binary.BigEndian.PutUint32(b[8:], uint32(ctr)) //nolint:gosec
		binary.BigEndian.PutUint32(b[12:], 0xC07C07C0)
		s := sha256.Sum256(b[:])
		out = append(out, s[:]...)
	}

	return out[:n]
}

func run(c Case, r *pbt.R) {
	is13 := c.Suite>>8 == 0x13
	var gens []scen.Gen13
	stop := scen.CaptureGens13(&gens)
	defer stop()
	berr := pbt.Bubble(func() {
		cEP, sEP := epsFor(&c)
		env := scen.NewEnv()
		env.Log = &scen.LogSink{Keep: os.Getenv("VERIF_DEBUG") != ""}
		// applications also export from the State handed to their VerifyConnection callback, i.e.
		// in the middle of the handshake: such an export must fail or be keyed by a secret too
		type midExport struct {
			side, label string
			val         []byte
		}
		var mid []midExport
		var midMu sync.Mutex
		midCB := func(side string) func(*dtls.State) error {
			return func(st *dtls.State) error {
				for _, label := range []string{"EXTRACTOR-dtls_srtp", "EXPORTER-verif-mid"} {
					if v, err := st.ExportKeyingMaterial(label, nil, 40); err == nil {
						midMu.Lock()
						mid = append(mid, midExport{side, label, v})
						midMu.Unlock()
					}
				}

				return nil
			}
		}
		env.ExtraClient = append(env.ExtraClient, dtls.WithVerifyConnection(midCB("C")))
		env.ExtraServer = append(env.ExtraServer, dtls.WithVerifyConnection(midCB("S")))
		p := scen.NewPair(env, &cEP, &sEP)
		defer p.Close()
		p.Net.Faults["C"] = c.FC
		p.Net.Faults["S"] = c.FS
		sides := map[string]*scen.Side{"C": p.C, "S": p.S}
		var mu sync.Mutex
		written := map[string][][]byte{}
		idx := 0
		var wg sync.WaitGroup
		writer := func(name string, n int) {
			defer wg.Done()
			for k := 0; k < n; k++ {
				mu.Lock()
				idx++
				size := c.Sizes[idx%len(c.Sizes)]
				pl := payload(c.Seed, idx, size)
				mu.Unlock()
				if _, err := sides[name].Conn.Write(pl); err == nil {
					mu.Lock()
					written[name] = append(written[name], pl)
					mu.Unlock()
				} else {
					mu.Lock()
					written[name] = append(written[name], pl) // it may still have been emitted; it must never be in clear
					mu.Unlock()

					return
				}
			}
		}
		early := c.Early
		if len(c.FC)+len(c.FS) > 0 || c.PlainHS != "" {
			early = 0 // a Write parked on the handshake mutex would freeze the virtual clock the retransmissions need
		}
		for _, name := range []string{"C", "S"} {
			for i := 0; i < early; i++ {
				wg.Add(1)
				go writer(name, 2)
			}
		}
		if c.PlainHS != "" {
			pl := []byte("PLAINTEXT-INJECTED-during-handshake")
			rec := append([]byte{23, 0xfe, 0xfd, 0, 0, 0, 0, 0, 0, 0, 119, 0, byte(len(pl))}, pl...)
			p.Net.Mangle = func(ev *vnet.Event) [][]byte {
				if ev.From == c.PlainHS && ev.Idx == c.PlainAt {
					return [][]byte{rec, ev.Data}
				}

				return nil
			}
		}
		p.Handshake(20 * time.Minute)
		p.Net.Mangle = nil
		established := p.C.OK() && p.S.OK()
		if c.PlainHS != "" {
			r.Class(fmt.Sprintf("plaintext-data-during-handshake:established=%v", established))
			// whatever became of the handshake, a reader on either side must never see the record
			if !established {
				for _, sd := range []*scen.Side{p.C, p.S} {
					if sd.OK() {
						sd.StartReader()
					}
				}
				scen.Settle()
			}
		}
		if established {
			p.C.StartReader()
			p.S.StartReader()
			if is13 {
				for u := 0; u < c.Updates; u++ {
					for _, name := range []string{"C", "S"} {
						ctx, cancel := context.WithTimeout(context.Background(), time.Minute)
						_ = sides[name].Conn.UpdateKeys(ctx, dtls.KeyUpdateOptions{})
						cancel()
					}
				}
				if c.Updates > 0 {
					r.Class("key-updates")
				}
			}
			for _, name := range []string{"C", "S"} {
				for i := 0; i < c.Writers; i++ {
					wg.Add(1)
					go writer(name, 3)
				}
			}
			for a := 0; a < c.Alerts; a++ {
				// a protected-looking record with a wrong epoch-1 body and an epoch-0 handshake junk: provoke alert paths
				p.Net.Inject("C", "S", []byte{22, 0xfe, 0xfd, 0, 0, 0, 0, 0, 0, 0, byte(90 + a), 0, 3, 9, 9, 9})
				p.Net.Inject("S", "C", []byte{22, 0xfe, 0xfd, 0, 0, 0, 0, 0, 0, 0, byte(90 + a), 0, 3, 9, 9, 9})
			}
			for a := 0; a < c.Plain; a++ {
				pl := append([]byte("PLAINTEXT-INJECTED-"), byte(a))
				rec := append([]byte{23, 0xfe, 0xfd, 0, 0, 0, 0, 0, 0, 0, byte(120 + a), 0, byte(len(pl))}, pl...)
				p.Net.Inject("C", "S", rec)
				p.Net.Inject("S", "C", rec)
			}
			if c.Close != "" {
				_ = sides[c.Close].Conn.Close()
			}
		}
		done := make(chan struct{})
		go func() { wg.Wait(); close(done) }()
		select {
		case <-done:
		case <-time.After(30 * time.Minute):
			p.Close()
			<-done
		}
		time.Sleep(3 * time.Second)
		scen.Settle()
		if established && !is13 && c.Import != "" && c.Close == "" {
			sd, ep := p.C, &cEP
			if c.Import == "S" {
				sd, ep = p.S, &sEP
			}
			if _, err := p.ExportImport(sd, env, ep, nil); err == nil {
				_ = sd.Conn.Handshake()
				scen.Settle()
				r.Class("exporter-judged-on-imported-connection")
			}
		}
		if os.Getenv("VERIF_DEBUG") != "" {
			fmt.Println(p.Dump())
			fmt.Println(strings.Join(env.Log.Lines, "\n"))
		}
		ver := "dtls12"
		if is13 {
			ver = "dtls13"
		}
		// ---- (3) unprotected application data is never delivered
		for _, sd := range []*scen.Side{p.C, p.S} {
			for _, g := range sd.ReadLog() {
				if bytes.HasPrefix(g, []byte("PLAINTEXT-INJECTED-")) {
					r.Failf("C07|"+ver+"|epoch0-application-data-delivered", "%s: Read returned application data that arrived in an unprotected record", sd.Name)

					return
				}
			}
		}
		// ---- (1) nothing written ever appears in clear on the wire
		evs := p.Net.Events()
		for name, pls := range written {
			for _, pl := range pls {
				if len(pl) < 16 {
					continue
				}
				for _, ev := range evs {
					if ev.From != "C" && ev.From != "S" {
						continue
					}
					if bytes.Contains(ev.Data, pl) {
						r.Failf("C07|"+ver+"|payload-in-clear", "a %d-byte payload written by %s appears verbatim in a datagram from %s at %v: %s", len(pl), name, ev.From, ev.T, scen.Describe(ev.Data, 0))

						return
					}
				}
			}
		}
		// ---- (2) record discipline, judged by the independent decoder
		var dec *ref.Decoder
		if established {
			if is13 {
				dec = scen.Decoder13(p, gens)
			} else {
				dec = scen.Decoder12(p, env)
			}
		}
		var pubDec *ref.Decoder
		if established && is13 {
			if su, ok := ref.Suites13[c.Suite]; ok {
				pubDec = ref.NewDecoder13(c.Suite)
				zero := make([]byte, ref.HashByName(su.Hash)().Size())
				sec := zero
				pubDec.AddGen13(3, sec)
				for e := uint16(4); e <= 8; e++ {
					sec = ref.NextTrafficSecret13(su, sec)
					pubDec.AddGen13(e, sec)
				}
			}
		}
		cidLen := map[string]int{}
		if c.CIDC != 0 && c.CIDS != 0 {
			for _, n := range []string{"C", "S"} {
				if l := env.CIDs[n]; len(l) > 0 {
					cidLen[n] = len(l[len(l)-1])
				}
			}
		}
		sawServerHello := false
		var finished [][]byte
		interleaved := false
		for _, ev := range evs {
			if ev.From != "C" && ev.From != "S" {
				continue
			}
			to := "S"
			if ev.From == "S" {
				to = "C"
			}
			recs, _ := scen.SplitDatagram(ev.Data, cidLen[to])
			for _, rc := range recs {
				plainRec := rc.Kind != "unified" && rc.Epoch == 0
				if plainRec && rc.Type == scen.CTAppData {
					r.Failf("C07|"+ver+"|application-record-epoch0", "%s emitted an application_data record with epoch 0", ev.From)

					return
				}
				if plainRec && rc.Type == scen.CTHandshake {
					fr, _ := scen.SplitHandshake(rc.Body)
					for _, f := range fr {
						if f.Type == scen.HTFinished {
							r.Failf("C07|"+ver+"|finished-unprotected", "%s emitted a Finished message in an epoch-0 record", ev.From)

							return
						}
						if is13 && sawServerHello && f.Type != scen.HTClientHello && f.Type != scen.HTServerHello {
							r.Failf(fmt.Sprintf("C07|dtls13|handshake-after-serverhello-unprotected|type%d", f.Type), "%s emitted handshake message type %d in a plaintext record after the ServerHello", ev.From, f.Type)

							return
						}
						if f.Type == scen.HTServerHello && ev.From == "S" && !(len(f.Body) >= 34 && f.FragOff == 0 && bytes.Equal(f.Body[2:34], hrrRandom)) {
							sawServerHello = true
						}
					}
				}
			}
			if pubDec != nil {
				// keys anybody can compute: the traffic-update chain started from an all-zero secret
				ds, _ := pubDec.Decode(ev.From, ev.Data, cidLen[to])
				for _, d := range ds {
					if d.Protect && d.OK {
						r.Failf("C07|dtls13|record-keys-from-public-constants", "a protected record from %s (epoch %d) opens under keys derived from an all-zero traffic secret by %d 'traffic upd' steps: no secret input at all", ev.From, d.Epoch, int(d.Epoch)-3)

						return
					}
				}
			}
			if dec != nil {
				ds, _ := dec.Decode(ev.From, ev.Data, cidLen[to])
				for _, d := range ds {
					if d.Protect && !d.OK && is13 {
						r.Failf("C07|dtls13|ciphertext-record-does-not-decrypt", "a unified-header record from %s does not decrypt under any installed generation: 'protected' in name only?", ev.From)

						return
					}
					if d.OK && d.Type == scen.CTHandshake && len(d.Plain) >= 12 && d.Plain[0] == scen.HTFinished && d.Protect {
						fr, _ := scen.SplitHandshake(d.Plain)
						for _, f := range fr {
							if f.Type == scen.HTFinished && len(f.Body) >= 12 {
								finished = append(finished, f.Body)
							}
						}
					}
					if d.OK && d.Protect && (d.Type == scen.CTAlert || d.Type == scen.CTHandshake) && ev.T >= max(p.C.HSAt, p.S.HSAt) {
						interleaved = true
					}
				}
			}
		}
		// Finished verify_data never in clear
		for _, vd := range finished {
			for _, ev := range evs {
				if (ev.From == "C" || ev.From == "S") && bytes.Contains(ev.Data, vd) {
					r.Failf("C07|"+ver+"|verify_data-in-clear", "Finished verify_data %x appears verbatim in a datagram from %s", vd, ev.From)

					return
				}
			}
		}
		// ---- (4) exporter is keyed by a session secret
		if cr, sr, _, ok := scen.HelloRandoms(p); ok {
			midMu.Lock()
			for _, m := range mid {
				r.Class("mid-handshake-export-succeeds")
				if how := exporterPublic(m.val, m.label, cr, sr); how != "" {
					r.Failf("C07|"+ver+"|exporter-public|mid-handshake", "%s: ExportKeyingMaterial(%q) on the State passed to VerifyConnection %s", m.side, m.label, how)
					midMu.Unlock()

					return
				}
			}
			midMu.Unlock()
		}
		if established {
			cr, sr, _, ok := scen.HelloRandoms(p)
			stC, ok1 := p.C.Conn.ConnectionState()
			if ok && ok1 {
				for _, label := range []string{"EXTRACTOR-dtls_srtp", "EXPORTER-verif-conf"} {
					got, err := stC.ExportKeyingMaterial(label, nil, 40)
					if err != nil {
						continue
					}
					if how := exporterPublic(got, label, cr, sr); how != "" {
						r.Failf("C07|"+ver+"|exporter-public", "ExportKeyingMaterial(%q) %s", label, how)

						return
					}
					if !is13 && dec != nil {
						want := ref.Exporter12(ref.HashByName(dec.S12.PRF), dec.Master, label, cr, sr, 40)
						if !bytes.Equal(got, want) {
							r.Failf("C07|dtls12|exporter-not-rfc5705", "ExportKeyingMaterial(%q) differs from RFC 5705 keyed with the master secret", label)

							return
						}
					}
				}
			}
		}
		if established && (early > 0 || interleaved || c.Close != "" || c.Alerts > 0) {
			r.NonTrivial()
		}
		if !established {
			r.Class("handshake-failed")
		}
		r.Class(ver)
		r.Class(scen.SuiteName(c.Suite))
		if early > 0 {
			r.Class("writes-before-establishment")
		}
	})
	if berr != nil {
		if berr.Deadlock {
			r.Failf("C07|bubble-deadlock", "goroutines left blocked: %v", berr.Value)
		} else {
			r.Failf(pbt.PanicSig("C07", []byte(berr.Stack)), "panic: %v\n%s", berr.Value, berr.Stack)
		}
	}
}

var hrrRandom = []byte{0xCF, 0x21, 0xAD, 0x74, 0xE5, 0x9A, 0x61, 0x11, 0xBE, 0x1D, 0x8C, 0x02, 0x1E, 0x65, 0xB8, 0x91, 0xC2, 0xA2, 0x11, 0x16, 0x7A, 0xBB, 0x8C, 0x5E, 0x07, 0x9E, 0x09, 0xE2, 0xC8, 0xA8, 0x33, 0x9C}

var suites = []uint16{
	0xc0ac, 0xc0ae, 0xc02b, 0xc02c, 0xc00a, 0xcca9, 0xc02f, 0xc030, 0xc014, 0xcca8,
	0xc0a4, 0xc0a8, 0xc0a9, 0x00a8, 0x00ae, 0xccab, 0xc037, 0x1301, 0x1302, 0x1303,
}

func gen(t *rapid.T) Case {
	c := Case{Suite: rapid.SampledFrom(suites).Draw(t, "suite"), Seed: rapid.IntRange(0, 1<<30).Draw(t, "seed")}
	if rapid.IntRange(0, 1).Draw(t, "cid") == 1 {
		c.CIDC, c.CIDS = rapid.IntRange(1, 8).Draw(t, "cidc"), rapid.IntRange(1, 8).Draw(t, "cids")
	}
	c.SkipHV = rapid.Bool().Draw(t, "skiphv")
	if rapid.IntRange(0, 2).Draw(t, "faults") == 0 {
		c.FC = scen.GenFaults(t, "fc", 6)
		c.FS = scen.GenFaults(t, "fs", 6)
	} else {
		c.Early = rapid.IntRange(0, 3).Draw(t, "early")
	}
	c.Writers = rapid.IntRange(0, 3).Draw(t, "writers")
	c.Sizes = rapid.SliceOfN(rapid.SampledFrom([]int{16, 17, 31, 32, 64, 200, 1000, 2000}), 1, 4).Draw(t, "sizes")
	c.Alerts = rapid.SampledFrom([]int{0, 0, 1, 2}).Draw(t, "alerts")
	c.Plain = rapid.SampledFrom([]int{0, 1, 2}).Draw(t, "plain")
	if rapid.IntRange(0, 3).Draw(t, "plainhsk") == 0 {
		c.PlainHS = rapid.SampledFrom([]string{"C", "S"}).Draw(t, "plainhs")
		c.PlainAt = rapid.IntRange(0, 4).Draw(t, "plainat")
	}
	c.Close = rapid.SampledFrom([]string{"", "", "C", "S"}).Draw(t, "close")
	if c.Suite>>8 == 0x13 {
		c.Updates = rapid.SampledFrom([]int{0, 0, 1, 2}).Draw(t, "updates")
	} else if c.Close == "" {
		c.Import = rapid.SampledFrom([]string{"", "", "C", "S"}).Draw(t, "import")
	}

	return c
}

func init() {
	pbt.Register(pbt.Prop[Case]{
		Name: "nothing-in-clear", Quick: 2500, Thorough: 60000, Gen: gen, Run: run, Crashy: true,
		Rule: "session (20 suites x CID x hello-verify) with high-entropy payloads of 16..2000 bytes written from goroutines started before the handshake (0..3 per side) and after it, " +
			"handshake retransmissions forced by a fault mask, injected alert conditions, injected unprotected application_data, Close during the writes; oracle: no payload and no Finished " +
			"verify_data (recovered with the independent decoder) occurs verbatim in any emitted datagram; no application_data or Finished in an epoch-0 record; in 1.3 no handshake message other than " +
			"the hellos in a plaintext record after the ServerHello and every unified-header record decrypts; injected epoch-0 application data (after the handshake, or slipped in front of a chosen handshake datagram) is never read; the exporter output differs from " +
			"every public-only recomputation (PRF/HKDF keyed with nothing, zeros, or the hello randoms) and, for 1.2, equals RFC 5705 keyed with the master secret. " +
			"non-trivial = established and (writes before establishment or protected handshake/alert records after it or Close or alerts); distinct = whole case",
	})
}
