package c02

import (
	"fmt"
	"os"
	"strings"
	"time"

	"github.com/pion/dtls/v3/internal/zzverif/lib/pbt"
	"github.com/pion/dtls/v3/internal/zzverif/lib/scen"
	"pgregory.net/rapid"
)

// CompatCase: the empty fault set. A generated pair of compatible option sets (built around an intended
// agreement: suite, curve, EMS policy, credentials incl. several server certificates selected by name and
// client certificates chosen by a callback from the server's CA list, SRTP, ALPN, CIDs, MTU, stores,
// version ranges) on a perfect network must complete on both sides.
type CompatCase struct {
	C    scen.EP   `json:"c"`
	S    scen.EP   `json:"s"`
	Meta scen.Meta `json:"meta"`
	// Resume (1.2): both sides share session stores and a first connection fills them; the judged
	// connection then takes the abbreviated handshake
	Resume bool `json:"resume,omitempty"`
}

func runCompat(c CompatCase, r *pbt.R) {
	berr := pbt.Bubble(func() {
		env := scen.NewEnv()
		env.Log = &scen.LogSink{Keep: os.Getenv("VERIF_DEBUG") != ""}
		if c.Resume {
			p0 := scen.NewPair(env, &c.C, &c.S)
			p0.Handshake(10 * time.Minute)
			ok0 := p0.C.OK() && p0.S.OK()
			p0.Close()
			scen.Settle()
			if !ok0 {
				r.Failf("C02|compatible-configurations|first-connection", "perfect network, compatible option sets, the connection that fills the session stores does not complete: C=%v S=%v\nclient %+v\nserver %+v", p0.C.Err(), p0.S.Err(), c.C, c.S)

				return
			}
			r.Class("resumed")
		}
		p := scen.NewPair(env, &c.C, &c.S)
		defer p.Close()
		p.Handshake(10 * time.Minute)
		if os.Getenv("VERIF_DEBUG") != "" {
			fmt.Println(p.Dump())
			fmt.Println(strings.Join(env.Log.Lines, "\n"))
		}
		if p.C.CtorErr != nil || p.S.CtorErr != nil {
			r.Class(fmt.Sprintf("ctor-error: C=%v S=%v", p.C.CtorErr, p.S.CtorErr))

			return
		}
		fam := fmt.Sprintf("v%d%s", c.Meta.Version, c.Meta.Dual)
		if !(p.C.OK() && p.S.OK()) {
			what := "credentials"
			switch {
			case len(c.S.CertsBefore) > 0:
				what = "several-server-certificates"
			case c.C.CertCallback:
				what = "client-certificate-callback"
			}
			r.Failf(fmt.Sprintf("C02|compatible-configurations|%s|%s|C=%s,S=%s", fam, what, errClass(p.C.Err()), errClass(p.S.Err())),
				"perfect network, compatible option sets, handshake does not complete: C=%v S=%v\nclient %+v\nserver %+v", p.C.Err(), p.S.Err(), c.C, c.S)

			return
		}
		if done := max(p.C.HSAt, p.S.HSAt); done >= time.Second {
			r.Failf(fmt.Sprintf("C02|compatible-configurations|%s|slow|no-fault-needs-a-timer", fam),
				"perfect network: the handshake completed only at %v, i.e. a retransmission timer had to fire although nothing was lost\nclient %+v\nserver %+v", done, c.C, c.S)

			return
		}
		r.Class(fam)
		r.Class("family:" + c.Meta.Family)
		if len(c.S.CertsBefore) > 0 {
			r.Class("several-server-certificates")
		}
		if c.C.CertCallback {
			r.Class("client-certificate-callback")
		}
		r.Eval(fmt.Sprintf("%+v|%+v", c.C, c.S), true)
	})
	if berr != nil {
		if berr.Deadlock {
			r.Failf("C02|bubble-deadlock", "goroutines left blocked: %v", berr.Value)
		} else {
			r.Failf(pbt.PanicSig("C02", []byte(berr.Stack)), "panic: %v\n%s", berr.Value, berr.Stack)
		}
	}
}

func genCompat(t *rapid.T) CompatCase {
	var c CompatCase
	c.C, c.S, c.Meta = scen.GenPair(t, scen.GenOpts{})

	if c.Meta.Version == 12 && rapid.IntRange(0, 3).Draw(t, "resume") == 0 {
		c.Resume = true
		c.C.Store, c.S.Store = "cs", "ss"
	}

	return c
}

func init() {
	pbt.Register(pbt.Prop[CompatCase]{
		Name: "compatible-configurations", Quick: 2500, Thorough: 60000, Gen: genCompat, Run: runCompat, Crashy: true,
		Rule: "the empty fault set: option pairs generated around an intended agreement (version range, suite lists, curves, EMS policy, certificate chains and key types, several server certificates " +
			"selected by a mixed-case server name, client certificate chosen by a GetClientCertificate callback from one or two acceptable CAs, client-auth policy, PSK, SRTP, ALPN, CIDs, MTU, hello-verify, session stores with a preceding connection so that the judged one is abbreviated) " +
			"on a perfect network; oracle: both sides report success, without any retransmission timer having to fire. non-trivial = every completed case; distinct = option pair",
	})
}
