package c02

import (
	"fmt"
	"os"
	"strings"
	"time"

	"github.com/pion/dtls/v3/internal/zzverif/lib/pbt"
	"github.com/pion/dtls/v3/internal/zzverif/lib/scen"
	"github.com/pion/dtls/v3/internal/zzverif/lib/vnet"
)

// EarlyCase: one finite delay - the datagram carrying the last Finished of the handshake is overtaken by
// N datagrams of application data, which the sender of that flight writes the moment it is established
// (it has no way to know that its peer is not). The delayed datagram is delivered afterwards; nothing is lost.
// Both endpoints have to report a successful handshake.
type EarlyCase struct {
	Variant string `json:"variant"` // v12, v12-psk, v12-cid, v12-resumed, v12-mtu70 (final flight in two datagrams, only [Finished] delayed), v13
	N       int    `json:"n"`
}

func runEarly(c EarlyCase, r *pbt.R) {
	berr := pbt.Bubble(func() {
		cEP := scen.EP{RootCA: 1, ServerName: scen.ServerName}
		sEP := scen.EP{Cert: "ecdsa"}
		last := "S"
		switch c.Variant {
		case "v12-resumed":
			cEP.Store, sEP.Store = "cs", "ss"
			last = "C"
		case "v12-psk":
			cEP = scen.EP{PSK: "early-psk-000001", PSKHint: "id", Suites: []uint16{0x00a8}}
			sEP = scen.EP{PSK: "early-psk-000001", PSKHint: "h", Suites: []uint16{0x00a8}}
		case "v12-cid":
			cEP.CID, sEP.CID = 4, 4
		case "v12-mtu70":
			cEP.MTU, sEP.MTU = 70, 70
		case "v13":
			cEP.MinVer, cEP.MaxVer, sEP.MinVer, sEP.MaxVer = 13, 13, 13, 13
			cEP.Curves, sEP.Curves = []uint16{0x1d}, []uint16{0x1d}
			last = "C"
		}
		env := scen.NewEnv()
		env.Log = &scen.LogSink{Keep: os.Getenv("VERIF_DEBUG") != ""}
		if c.Variant == "v12-resumed" {
			p0 := scen.NewPair(env, &cEP, &sEP)
			p0.Handshake(5 * time.Minute)
			ok := p0.C.OK() && p0.S.OK()
			p0.Close()
			scen.Settle()
			if !ok {
				r.Failf("C02|harness|prime", "priming connection failed")

				return
			}
		}
		p := scen.NewPair(env, &cEP, &sEP)
		defer p.Close()
		held := false
		p.Net.FaultFn = func(ev *vnet.Event) *vnet.Fault {
			if held || ev.From != last {
				return nil
			}
			isLast := false
			if c.Variant == "v13" {
				isLast = len(ev.Data) > 0 && ev.Data[0]&0xe0 == 0x20 && ev.Data[0]&0x03 == 2
			} else {
				recs, _ := scen.SplitDatagram(ev.Data, 0)
				for _, rc := range recs {
					if rc.Kind == "legacy" && rc.Type == scen.CTChangeCipherSpec && c.Variant != "v12-mtu70" {
						isLast = true
					}
					if c.Variant == "v12-mtu70" && rc.Kind == "legacy" && rc.Type == scen.CTHandshake && rc.Epoch == 1 {
						isLast = true
					}
				}
			}
			if !isLast {
				return nil
			}
			held = true

			return &vnet.Fault{Kind: vnet.Hold, Until: ev.Idx + c.N}
		}
		p.Net.MaxHold = time.Hour
		snd, rcv := p.S, p.C
		if last == "C" {
			snd, rcv = p.C, p.S
		}
		sdone := p.S.StartHandshake(10 * time.Minute)
		cdone := p.C.StartHandshake(10 * time.Minute)
		if last == "S" {
			<-sdone
		} else {
			<-cdone
		}
		if !snd.OK() || !held {
			r.Class("sender-not-established-before-its-peer")
			<-sdone
			<-cdone

			return
		}
		for i := 0; i < c.N; i++ {
			if _, err := snd.Conn.Write([]byte(fmt.Sprintf("early-%02d", i))); err != nil {
				r.Failf("C02|harness|early-write", "write %d on the established sender: %v", i, err)

				return
			}
		}
		scen.Settle()
		<-sdone
		<-cdone
		if os.Getenv("VERIF_DEBUG") != "" {
			fmt.Println(p.Dump())
			fmt.Println(strings.Join(env.Log.Lines, "\n"))
		}
		if !rcv.OK() {
			ver := map[bool]string{true: "dtls13", false: "dtls12"}[c.Variant == "v13"]
			r.Failf("C02|"+ver+"|stall:"+map[string]string{"C": "client", "S": "server"}[rcv.Name]+"|final-flight-overtaken-by-application-data",
				"variant %s: the datagram with %s's Finished was overtaken by %d application datagrams %s wrote once established, and delivered right after them; %s never completes: %v",
				c.Variant, snd.Name, c.N, snd.Name, rcv.Name, rcv.Err())

			return
		}
		if rcv.HSAt > 3*time.Second {
			r.Failf("C02|slow|final-flight-overtaken-by-application-data", "variant %s: %s completed only at %v although nothing was lost", c.Variant, rcv.Name, rcv.HSAt)

			return
		}
		r.Eval(fmt.Sprintf("%+v", c), true, c.Variant)
	})
	if berr != nil {
		if berr.Deadlock {
			r.Failf("C02|bubble-deadlock", "goroutines left blocked: %v", berr.Value)
		} else {
			r.Failf(pbt.PanicSig("C02", []byte(berr.Stack)), "panic: %v\n%s", berr.Value, berr.Stack)
		}
	}
}

func init() {
	pbt.Register(pbt.Prop[EarlyCase]{
		Name: "final-flight-overtaken-by-data", Exhaustive: true, Run: runEarly, Crashy: true,
		Enum: func(_ string, yield func(EarlyCase) bool) {
			for _, v := range []string{"v12", "v12-psk", "v12-cid", "v12-resumed", "v12-mtu70", "v13"} {
				for _, n := range []int{1, 2, 5} {
					if !yield(EarlyCase{v, n}) {
						return
					}
				}
			}
		},
		Rule: "6 handshake variants x 1/2/5 application datagrams written by the side that sends the last flight as soon as it is established, overtaking the datagram with its Finished (a finite delay, " +
			"nothing lost); oracle: both sides complete, within 3 virtual seconds. non-trivial = every case; distinct = whole case",
	})
}
