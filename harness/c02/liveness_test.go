package c02

import (
	"bytes"
	"fmt"
	"os"
	"strings"
	"testing"
	"time"

	"github.com/pion/dtls/v3/internal/zzverif/lib/pbt"
	"github.com/pion/dtls/v3/internal/zzverif/lib/scen"
	"github.com/pion/dtls/v3/internal/zzverif/lib/vnet"
	"pgregory.net/rapid"
)

func TestMain(m *testing.M) { pbt.Main(m, "C02") }

func TestProps(t *testing.T) { pbt.RunAll(t) }

func TestReplay(t *testing.T) { pbt.Replay(t) }

// Case is a handshake variant under a fault mask.
type Case struct {
	Variant string       `json:"variant"`
	FC      []vnet.Fault `json:"fc,omitempty"`
	FS      []vnet.Fault `json:"fs,omitempty"`
	// Plan, if set, replaces the positional masks by content-targeted faults (used by the
	// minimiser: removing one targeted fault does not shift the others).
	Plan []Target `json:"plan,omitempty"`
	// Retransmission timing of each side (milliseconds; 0 = the default 1 s) and backoff switch:
	// the peers need not share a schedule.
	IvlC int  `json:"ivlc,omitempty"`
	IvlS int  `json:"ivls,omitempty"`
	NoBO bool `json:"nobo,omitempty"`
}

// Target is a content-targeted fault: the Occ-th datagram of class Class sent by From.
type Target struct {
	From  string `json:"from"`
	Class string `json:"class"`
	Occ   int    `json:"occ"`
	Kind  int    `json:"kind"`
	Until int    `json:"until,omitempty"` // for Hold: released after this many further datagrams
}

func installPlan(n *vnet.Net, plan []Target) {
	counts := map[string]int{}
	n.FaultFn = func(ev *vnet.Event) *vnet.Fault {
		cl := contentClass(ev.Data)
		key := ev.From + "|" + cl
		occ := counts[key]
		counts[key] = occ + 1
		for _, tg := range plan {
			if tg.From == ev.From && tg.Class == cl && tg.Occ == occ {
				f := vnet.Fault{Kind: tg.Kind}
				if tg.Kind == vnet.Hold {
					f.Until = ev.Idx + max(tg.Until, 1)
				}

				return &f
			}
		}

		return &vnet.Fault{}
	}
}

// planFromTap converts the faults that really hit a datagram into a targeted plan.
func planFromTap(p *scen.Pair) []Target {
	// faults that hit after an endpoint had already failed (e.g. its own alert) are irrelevant
	cutoff := time.Duration(1 << 62)
	failing := ""
	for _, sd := range []*scen.Side{p.C, p.S} {
		if e := sd.Err(); e != nil && !strings.Contains(e.Error(), "deadline exceeded") && sd.HSAt < cutoff {
			cutoff, failing = sd.HSAt, sd.Name
		}
	}
	counts := map[string]int{}
	var plan []Target
	for _, ev := range p.Net.Events() {
		if strings.HasPrefix(ev.From, "inject") {
			continue
		}
		if ev.T > cutoff || (ev.T == cutoff && ev.From == failing) {
			continue
		}
		cl := contentClass(ev.Data)
		key := ev.From + "|" + cl
		occ := counts[key]
		counts[key] = occ + 1
		if i := strings.Index(ev.Verdict, "+"); i >= 0 {
			kind := map[string]int{"drop": vnet.Drop, "dup": vnet.Dup, "hold": vnet.Hold}[ev.Verdict[i+1:]]
			plan = append(plan, Target{From: ev.From, Class: cl, Occ: occ, Kind: kind, Until: 1})
		}
	}

	return plan
}

var variants = []string{
	"v12-full", "v12-psk", "v12-epsk", "v12-clientauth", "v12-resumed", "v12-smallmtu", "v12-cid", "v12-nohv", "v12-rsa-store",
	"v13-direct", "v13-hrr", "v13-clientauth", "v13-smallmtu", "v13-mlkem",
}

func variantEPs(v string) (c, s scen.EP, resumed bool) {
	c = scen.EP{RootCA: 1, ServerName: scen.ServerName}
	s = scen.EP{Cert: "ecdsa"}
	x25519 := []uint16{0x001d}
	switch v {
	case "v12-full":
	case "v12-psk":
		c = scen.EP{PSK: "k0123456789abcdef", PSKHint: "id", Suites: []uint16{0x00a8}}
		s = scen.EP{PSK: "k0123456789abcdef", PSKHint: "hint", Suites: []uint16{0x00a8}}
	case "v12-epsk":
		c = scen.EP{PSK: "k0123456789abcdef", PSKHint: "id", Suites: []uint16{0xc037}}
		s = scen.EP{PSK: "k0123456789abcdef", PSKHint: "hint", Suites: []uint16{0xc037}}
	case "v12-clientauth":
		c.Cert = "client-ecdsa"
		s.ClientAuth, s.ClientCAs = 4, true
	case "v12-resumed":
		c.Store, s.Store = "cs", "ss"
		resumed = true
	case "v12-smallmtu":
		c.MTU, s.MTU = 150, 150
	case "v12-cid":
		c.CID, s.CID = 4, 6
	case "v12-nohv":
		s.SkipHelloVfy = true
	case "v12-rsa-store":
		c.Store, s.Store = "cs", "ss"
		s.Cert = "rsa"
	case "v13-direct":
		c.MinVer, c.MaxVer, s.MinVer, s.MaxVer = 13, 13, 13, 13
		c.Curves, s.Curves = x25519, x25519
		s.SkipHelloVfy = true
	case "v13-hrr":
		c.MinVer, c.MaxVer, s.MinVer, s.MaxVer = 13, 13, 13, 13
		c.Curves, s.Curves = x25519, x25519
	case "v13-clientauth":
		c.MinVer, c.MaxVer, s.MinVer, s.MaxVer = 13, 13, 13, 13
		c.Curves, s.Curves = x25519, x25519
		c.Cert = "client-ecdsa"
		s.ClientAuth, s.ClientCAs = 4, true
	case "v13-smallmtu":
		c.MinVer, c.MaxVer, s.MinVer, s.MaxVer = 13, 13, 13, 13
		c.Curves, s.Curves = x25519, x25519
		c.MTU, s.MTU = 200, 200
	case "v13-mlkem":
		c.MinVer, c.MaxVer, s.MinVer, s.MaxVer = 13, 13, 13, 13
	case "dual-both":
		c.MinVer, c.MaxVer, s.MinVer, s.MaxVer = 12, 13, 12, 13
		c.Curves, s.Curves = x25519, x25519
	case "dual-client-12":
		c.MinVer, c.MaxVer = 12, 13
		c.Curves, s.Curves = x25519, x25519
	case "dual-client-13":
		c.MinVer, c.MaxVer, s.MinVer, s.MaxVer = 12, 13, 13, 13
		c.Curves, s.Curves = x25519, x25519
	case "dual-server-12":
		s.MinVer, s.MaxVer = 12, 13
		c.Curves, s.Curves = x25519, x25519
	case "dual-server-13":
		c.MinVer, c.MaxVer, s.MinVer, s.MaxVer = 13, 13, 12, 13
		c.Curves, s.Curves = x25519, x25519
	}

	return c, s, resumed
}

const (
	interval   = time.Second
	maxBackoff = 60 * time.Second
	hsTimeout  = 30 * time.Minute
)

// bound is the virtual time within which the retransmission schedule recovers F faults:
// sum_{k=0}^{F+1} min(I*2^k, 60s). Deliberately loose (see DESIGN C02).
func bound(f int, base time.Duration, holds int) time.Duration {
	sum := time.Duration(holds) * 2500 * time.Millisecond // a held datagram is delayed by at most MaxHold
	iv := base
	for k := 0; k <= f+1; k++ {
		sum += iv
		iv *= 2
		if iv > maxBackoff {
			iv = maxBackoff
		}
	}

	return sum
}

var hsNames = map[int]string{
	1: "ClientHello", 2: "ServerHello", 3: "HelloVerifyRequest", 4: "NewSessionTicket", 8: "EncryptedExtensions", 11: "Certificate",
	12: "ServerKeyExchange", 13: "CertificateRequest", 14: "ServerHelloDone", 15: "CertificateVerify", 16: "ClientKeyExchange", 20: "Finished",
}

// contentClass summarises what a datagram carried, as far as a passive observer can tell.
func contentClass(d []byte) string {
	recs, _ := scen.SplitDatagram(d, 0)
	var parts []string
	seen := map[string]bool{}
	add := func(s string) {
		if !seen[s] {
			seen[s] = true
			parts = append(parts, s)
		}
	}
	for _, r := range recs {
		switch {
		case r.Kind == "unified":
			add(fmt.Sprintf("prot13(e%d)", r.Epoch))
		case r.Epoch == 0 && r.Type == scen.CTHandshake:
			fr, _ := scen.SplitHandshake(r.Body)
			for _, f := range fr {
				n := hsNames[f.Type]
				if n == "" {
					n = fmt.Sprintf("hs%d", f.Type)
				}
				if f.Type == 2 && len(f.Body) >= 34 && f.FragOff == 0 && bytes.Equal(f.Body[2:34], hrrRandom) {
					n = "HelloRetryRequest"
				}
				add(n)
			}
		case r.Type == scen.CTChangeCipherSpec:
			add("CCS")
		case r.Type == scen.CTAlert && r.Epoch == 0:
			add("alert")
		case r.Type == scen.CTACK && r.Epoch == 0:
			add("ack")
		default:
			add(fmt.Sprintf("prot(e%d)", r.Epoch))
		}
	}

	return strings.Join(parts, "+")
}

var hrrRandom = []byte{
	0xCF, 0x21, 0xAD, 0x74, 0xE5, 0x9A, 0x61, 0x11, 0xBE, 0x1D, 0x8C, 0x02, 0x1E, 0x65, 0xB8, 0x91,
	0xC2, 0xA2, 0x11, 0x16, 0x7A, 0xBB, 0x8C, 0x5E, 0x07, 0x9E, 0x09, 0xE2, 0xC8, 0xA8, 0x33, 0x9C,
}

// faultSig names the last fault of a plan (the faults that really hit, in emission order).
func faultSig(plan []Target) string {
	if len(plan) == 0 {
		return "last-fault=none"
	}
	tg := plan[len(plan)-1]

	// The kind of disturbance (lost, delayed, duplicated) is incidental to the root cause and, for
	// failures whose targeted plan does not reproduce under a different goroutine schedule, not
	// even stable; the signature names the datagram class that was disturbed last.
	return fmt.Sprintf("last-fault=%s:%s", tg.From, tg.Class)
}

func errClass(err error) string {
	if err == nil {
		return "ok"
	}
	s := err.Error()
	if s == "context deadline exceeded" {
		// returned unwrapped: the endpoint never left the dual-stack version negotiation phase
		return "deadline-in-version-negotiation"
	}
	s = strings.TrimPrefix(s, "handshake failed: ")
	if strings.Contains(s, "deadline exceeded") {
		return "deadline"
	}
	if len(s) > 60 {
		s = s[:60]
	}

	return s
}

type outcome struct {
	status   string // ok, ctor, setup, stall, slow, nodata
	plan     []Target
	who      string
	sig      string
	msg      string
	eff      int
	fellBack bool
}

// attempt runs one case inside the current bubble.
func attempt(c Case) outcome {
	cEP, sEP, resumed := variantEPs(c.Variant)
	cEP.IntervalMs, sEP.IntervalMs = c.IvlC, c.IvlS
	cEP.NoBackoff, sEP.NoBackoff = c.NoBO, c.NoBO
	base := interval
	if c.IvlC > 0 && c.IvlS > 0 {
		base = 0 // both endpoints run on configured intervals: the schedule is theirs, however short
	}
	for _, ms := range []int{c.IvlC, c.IvlS} {
		if d := time.Duration(ms) * time.Millisecond; ms > 0 && d > base {
			base = d
		}
	}
	// Without backoff the schedule is constant: F faults are recovered within (F+2) intervals, so a
	// shorter virtual deadline decides liveness just as well and keeps stalled cases cheap.
	hsTimeout := hsTimeout
	if c.NoBO {
		hsTimeout = 5 * time.Minute
	}
	env := scen.NewEnv()
	env.Log = &scen.LogSink{Keep: os.Getenv("VERIF_DEBUG") != ""}
	if resumed {
		p0 := scen.NewPair(env, &cEP, &sEP)
		p0.Handshake(hsTimeout)
		ok0 := p0.C.OK() && p0.S.OK()
		p0.Close()
		scen.Settle()
		if !ok0 {
			return outcome{status: "setup", msg: fmt.Sprintf("first connection on a perfect network failed: C=%v S=%v", p0.C.Err(), p0.S.Err())}
		}
	}
	p := scen.NewPair(env, &cEP, &sEP)
	defer func() {
		p.Close()
		scen.Settle()
	}()
	defer func() {
		if os.Getenv("VERIF_DEBUG") != "" {
			fmt.Println(p.Dump())
			fmt.Println(strings.Join(env.Log.Lines, "\n"))
		}
	}()
	if p.C.CtorErr != nil || p.S.CtorErr != nil {
		return outcome{status: "ctor", msg: fmt.Sprintf("variant %s not constructible: %v %v", c.Variant, p.C.CtorErr, p.S.CtorErr)}
	}
	// a handshake of these variants needs a few hundred datagrams; 40000 at one virtual instant is a storm
	// (the endpoints answer each other without the clock advancing) and ends the case as a stall
	p.Net.MaxEvents = 40000
	if c.Plan != nil {
		installPlan(p.Net, c.Plan)
	} else {
		p.Net.Faults["C"] = c.FC
		p.Net.Faults["S"] = c.FS
	}
	p.Handshake(hsTimeout)
	eff := p.Net.EffectiveFaults()
	plan := planFromTap(p)
	defer func() { _ = plan }()
	if !(p.C.OK() && p.S.OK()) {
		who := "both"
		if p.C.OK() {
			who = "server"
		} else if p.S.OK() {
			who = "client"
		}

		sig := fmt.Sprintf("C=%s,S=%s|%s", errClass(p.C.Err()), errClass(p.S.Err()), faultSig(plan))
		if strings.Contains(errClass(p.C.Err()), "unimplemented DTLS 1.3 flight") && p.S.OK() {
			// The error itself names the root cause (the client, still in flight 5, is handed a
			// post-handshake message because the server's ACK did not get there first); which
			// disturbance opened that window (ACK lost, delayed, overtaken by a retransmitted
			// NewSessionTicket) is incidental and not stable under rescheduling.
			sig = fmt.Sprintf("C=%s,S=%s|server-ack-not-first", errClass(p.C.Err()), errClass(p.S.Err()))
		}
		if errClass(p.C.Err()) == "deadline-in-version-negotiation" && eff > 0 {
			// one root cause whatever was lost: the negotiation phase has no retransmission timer
			sig = fmt.Sprintf("C=%s,S=%s|any-loss", errClass(p.C.Err()), errClass(p.S.Err()))
		}

		return outcome{status: "stall", who: who, sig: sig, eff: eff, plan: plan,
			msg: fmt.Sprintf("handshake did not complete within %v virtual (%d effective faults): C=%v S=%v\n%s", hsTimeout, eff, p.C.Err(), p.S.Err(), tail(p.Dump(), 40))}
	}
	done := max(p.C.HSAt, p.S.HSAt)
	holds := 0
	for _, tg := range plan {
		if tg.Kind == vnet.Hold || tg.Kind == vnet.Swap {
			holds++
		}
	}
	if eff == 0 && done >= base {
		// nothing was lost, duplicated, delayed or reordered: no retransmission timer is needed, the
		// handshake completes in the round trips themselves (virtual time does not advance for those)
		return outcome{status: "slow", who: "both", sig: "no-fault-needs-a-timer", eff: eff, plan: plan,
			msg: fmt.Sprintf("completed at %v on a network that disturbed nothing: a retransmission timer (interval %v) had to fire\n%s", done, base, tail(p.Dump(), 40))}
	}
	if b := bound(eff, base, holds); done > b {
		return outcome{status: "slow", who: "both", sig: faultSig(plan), eff: eff, plan: plan,
			msg: fmt.Sprintf("completed at %v, bound for %d faults is %v\n%s", done, eff, b, tail(p.Dump(), 40))}
	}
	fell := resumed && !abbreviated(p)
	p.Net.Heal()
	scen.Settle()
	gotS, gotC, werr := p.Exchange([][]byte{[]byte("ping-from-client")}, [][]byte{[]byte("pong-from-server")})
	if werr != nil || len(gotS) != 1 || len(gotC) != 1 || string(gotS[0]) != "ping-from-client" || string(gotC[0]) != "pong-from-server" {
		return outcome{status: "nodata", who: "both", sig: faultSig(plan), eff: eff,
			msg: fmt.Sprintf("payloads after handshake: werr=%v server got %d client got %d", werr, len(gotS), len(gotC))}
	}

	return outcome{status: "ok", eff: eff, fellBack: fell}
}

func family(v string) string {
	switch {
	case strings.HasPrefix(v, "dual"):
		return v
	case v == "v12-resumed":
		return "dtls12-resumed"
	case strings.HasPrefix(v, "v12"):
		return "dtls12"
	default:
		return "dtls13"
	}
}

// minimise converts the failing case into a content-targeted plan and greedily removes
// targeted faults while the same failure (status, who) persists, so that the signature names a
// 1-minimal set of lost/delayed message classes.
func minimise(c Case, o outcome) (Case, outcome) {
	if len(o.plan) == 0 {
		return c, o
	}
	cur := Case{Variant: c.Variant, Plan: o.plan, IvlC: c.IvlC, IvlS: c.IvlS, NoBO: c.NoBO}
	curO := attempt(cur)
	if curO.status != o.status || curO.who != o.who {
		return c, o // the targeted plan does not reproduce (schedule shifted): keep the original
	}
	for i := 0; i < len(cur.Plan) && len(cur.Plan) > 1; {
		cand := Case{Variant: cur.Variant, Plan: append(append([]Target(nil), cur.Plan[:i]...), cur.Plan[i+1:]...), IvlC: c.IvlC, IvlS: c.IvlS, NoBO: c.NoBO}
		no := attempt(cand)
		if no.status == curO.status && no.who == curO.who {
			cur, curO = cand, no
		} else {
			i++
		}
	}

	return cur, curO
}

func run(c Case, r *pbt.R) {
	berr := pbt.Bubble(func() {
		o := attempt(c)
		switch o.status {
		case "ok":
			if o.eff > 0 {
				r.NonTrivial()
			}
			r.Class(c.Variant)
			r.Classf("effective-faults=%d", min(o.eff, 6))
			if o.fellBack {
				r.Class("resumed-fell-back-to-full")
			}
		case "ctor":
			r.Failf("C02|harness|ctor", "%s", o.msg)
		case "setup":
			r.Failf("C02|"+family(c.Variant)+"|setup-connection-failed", "%s", o.msg)
		default:
			mc, mo := minimise(c, o)
			fam := family(c.Variant)
			if strings.HasPrefix(fam, "dual-") && !strings.Contains(mo.sig, "version-negotiation") && !strings.Contains(mo.sig, "last-fault=none") {
				// past version negotiation a dual-stack endpoint runs the plain 1.2 / 1.3 state machine
				if strings.HasSuffix(fam, "13") {
					fam = "dtls13"
				} else if strings.HasSuffix(fam, "12") {
					fam = "dtls12"
				}
			}
			r.Failf(fmt.Sprintf("C02|%s|%s:%s|%s", fam, mo.status, mo.who, mo.sig),
				"%s\nminimal targeted plan: variant=%s %+v", mo.msg, mc.Variant, mc.Plan)
		}
	})
	if berr != nil {
		if berr.Deadlock {
			r.Failf("C02|bubble-deadlock", "goroutines left blocked: %v", berr.Value)
		} else {
			r.Failf(pbt.PanicSig("C02", []byte(berr.Stack)), "panic: %v\n%s", berr.Value, berr.Stack)
		}
	}
}

func tail(s string, n int) string {
	lines := strings.Split(s, "\n")
	if len(lines) > n {
		lines = append(lines[:n/2], append([]string{"..."}, lines[len(lines)-n/2:]...)...)
	}

	return strings.Join(lines, "\n")
}

func abbreviated(p *scen.Pair) bool {
	for _, ev := range p.Net.EventsFrom("S") {
		for _, ht := range scen.PlainHSTypes(ev.Data) {
			if ht == scen.HTCertificate || ht == scen.HTServerKeyExchange || ht == scen.HTServerHelloDone {
				return false
			}
		}
	}

	return true
}

func maskFromBits(bits, n int, kind int) []vnet.Fault {
	var out []vnet.Fault
	for i := 0; i < n; i++ {
		f := vnet.Fault{}
		if bits&(1<<i) != 0 {
			f.Kind = kind
		}
		out = append(out, f)
	}
	for len(out) > 0 && out[len(out)-1].Kind == vnet.Pass {
		out = out[:len(out)-1]
	}

	return out
}

func enumDrop(tier string, yield func(Case) bool) {
	n := 4
	if tier == "thorough" {
		n = 6
	}
	for _, v := range variants {
		for mc := 0; mc < 1<<n; mc++ {
			for ms := 0; ms < 1<<n; ms++ {
				if !yield(Case{Variant: v, FC: maskFromBits(mc, n, vnet.Drop), FS: maskFromBits(ms, n, vnet.Drop)}) {
					return
				}
			}
		}
	}
}

func enumAllKinds(tier string, yield func(Case) bool) {
	n := 2
	if tier == "thorough" {
		n = 3
	}
	kinds := []vnet.Fault{{Kind: vnet.Pass}, {Kind: vnet.Drop}, {Kind: vnet.Dup}, {Kind: vnet.Swap}, {Kind: vnet.Hold, Until: 0}}
	total := 1
	for i := 0; i < 2*n; i++ {
		total *= len(kinds)
	}
	for _, v := range variants {
		for code := 0; code < total; code++ {
			x := code
			var fc, fs []vnet.Fault
			for i := 0; i < n; i++ {
				f := kinds[x%len(kinds)]
				x /= len(kinds)
				if f.Kind == vnet.Hold {
					f.Until = i + 2
				}
				fc = append(fc, f)
			}
			for i := 0; i < n; i++ {
				f := kinds[x%len(kinds)]
				x /= len(kinds)
				if f.Kind == vnet.Hold {
					f.Until = i + 2
				}
				fs = append(fs, f)
			}
			if !yield(Case{Variant: v, FC: fc, FS: fs}) {
				return
			}
		}
	}
}

func genSampled(t *rapid.T) Case {
	vs := append(append([]string(nil), variants...), "dual-client-12", "dual-server-12", "dual-server-13", "dual-client-13", "dual-both")
	c := Case{Variant: rapid.SampledFrom(vs).Draw(t, "variant")}
	gen := func(label string) []vnet.Fault {
		k := rapid.IntRange(0, 12).Draw(t, label+"n")
		out := make([]vnet.Fault, k)
		for i := range out {
			switch rapid.IntRange(0, 7).Draw(t, label+"kind") {
			case 0, 1, 2:
				out[i].Kind = vnet.Drop
			case 3:
				out[i].Kind = vnet.Dup
			case 4:
				out[i].Kind = vnet.Swap
			case 5:
				out[i].Kind = vnet.Hold
				out[i].Until = i + rapid.IntRange(1, 5).Draw(t, label+"until")
			}
		}

		return out
	}
	c.FC, c.FS = gen("fc"), gen("fs")
	if rapid.IntRange(0, 2).Draw(t, "timing") == 0 {
		ivs := []int{0, 50, 150, 400, 1000, 3000}
		c.IvlC, c.IvlS = rapid.SampledFrom(ivs).Draw(t, "ivlc"), rapid.SampledFrom(ivs).Draw(t, "ivls")
		c.NoBO = rapid.Bool().Draw(t, "nobo")
	}

	return c
}

// enumTiming: every single lost datagram (first 8 of each direction) under asymmetric
// retransmission schedules of the two peers, with and without backoff.
func enumTiming(tier string, yield func(Case) bool) {
	pairs := [][2]int{{50, 150}, {150, 50}, {100, 1000}, {1000, 100}, {333, 1000}}
	n := 6
	if tier == "thorough" {
		n = 10
	}
	for _, v := range variants {
		for _, pr := range pairs {
			for _, nobo := range []bool{false, true} {
				for side := 0; side < 2; side++ {
					for i := 0; i < n; i++ {
						m := make([]vnet.Fault, i+1)
						m[i].Kind = vnet.Drop
						c := Case{Variant: v, IvlC: pr[0], IvlS: pr[1], NoBO: nobo}
						if side == 0 {
							c.FC = m
						} else {
							c.FS = m
						}
						if !yield(c) {
							return
						}
					}
				}
			}
		}
	}
}

func init() {
	rule := "handshake variant (" + strings.Join(variants, ", ") + ") x fault mask over the first N datagrams of each direction; " +
		"oracle: both sides succeed, one payload each way is delivered, and virtual completion time <= sum_{k=0}^{F+1} min(1s*2^k,60s) for F effective faults. " +
		"non-trivial = >=1 fault hit a datagram that was really sent; distinct = (variant, mask)"
	pbt.Register(pbt.Prop[Case]{Name: "drop-masks", Enum: enumDrop, Exhaustive: true, Run: run, Crashy: true,
		Rule: "EXHAUSTIVE drop-only masks, N=4 per direction (thorough N=6): " + rule})
	pbt.Register(pbt.Prop[Case]{Name: "all-kind-masks", Enum: enumAllKinds, Exhaustive: true, Run: run, Crashy: true,
		Rule: "EXHAUSTIVE masks over {pass,drop,dup,swap,hold+2}, N=2 per direction (thorough N=3): " + rule})
	pbt.Register(pbt.Prop[Case]{Name: "timing-asymmetry", Enum: enumTiming, Exhaustive: true, Run: run, Crashy: true,
		Rule: "EXHAUSTIVE single lost datagram (first 6, thorough 10, of each direction) x 5 asymmetric (client, server) flight intervals x backoff on/off: " + rule})
	pbt.Register(pbt.Prop[Case]{Name: "sampled-masks", Quick: 2000, Thorough: 40000, Gen: genSampled, Run: run, Crashy: true,
		Rule: "SAMPLED masks, N<=12 per direction, all five kinds, plus dual-stack variants: " + rule})
}
