package c12

import (
	"sort"
	"testing"

	"github.com/pion/dtls/v3/internal/zzverif/lib/pbt"
)

// FuzzReassembly (thorough tier): bytes are decoded into a reassembly scenario - up to four short
// messages and an arbitrary sequence of (possibly overlapping, duplicated, empty, out-of-order)
// fragments packed one to three per record - and judged by the same byte-level reference
// reassembler as the rapid properties. Unlike the rapid generator, fragments need not form a
// partition, so overlaps and gaps are reached.
func FuzzReassembly(f *testing.F) {
	f.Add([]byte{1, 4, 0, 0, 4, 1})
	f.Add([]byte{2, 3, 2, 0, 0, 2, 1, 0, 2, 1, 1, 1, 0, 2, 1, 1})
	f.Add([]byte{1, 6, 0, 3, 3, 2, 0, 0, 3, 1, 0, 1, 4, 1})
	f.Fuzz(func(t *testing.T, data []byte) {
		c, ok := caseFromBytes(data)
		if !ok {
			return
		}
		r := &pbt.R{}
		runReasm(c, r)
		if r.Failed() {
			t.Fatalf("VERIF-SIG %s\n%s\ncase %+v", r.Sig, r.Msg, c)
		}
	})
}

// caseFromBytes decodes arbitrary bytes into a reassembly scenario whose fragments need not
// partition their messages (overlaps, gaps, repetitions); SafetyOnly is set unless the distinct
// fragments of every message happen to tile it exactly.
func caseFromBytes(data []byte) (ReasmCase, bool) {
	c := ReasmCase{}
	if len(data) < 3 || len(data) > 400 {
		return c, false
	}
	k := int(data[0])%4 + 1
	if len(data) < 1+k {
		return c, false
	}
	for i := 0; i < k; i++ {
		c.Lens = append(c.Lens, int(data[1+i])%24)
		c.Types = append(c.Types, []int{1, 2, 11, 16}[i%4])
	}
	rest := data[1+k:]
	var rec []Frag
	for len(rest) >= 4 {
		m := int(rest[0]) % k
		n := c.Lens[m]
		off, l := 0, 0
		if n > 0 {
			off = int(rest[1]) % (n + 1)
			l = int(rest[2]) % (n - off + 1)
		}
		rec = append(rec, Frag{m, off, l})
		if rest[3]%3 != 0 || len(rec) == 3 {
			c.Records = append(c.Records, rec)
			rec = nil
		}
		rest = rest[4:]
	}
	if len(rec) > 0 {
		c.Records = append(c.Records, rec)
	}
	if len(c.Records) == 0 {
		return c, false
	}
	for m, n := range c.Lens {
		seen := map[Frag]bool{}
		var frs []Frag
		for _, rc := range c.Records {
			for _, fr := range rc {
				if fr.Msg == m && !seen[fr] && (fr.Len > 0 || n == 0) {
					seen[fr] = true
					frs = append(frs, fr)
				}
			}
		}
		sort.Slice(frs, func(i, j int) bool { return frs[i].Off < frs[j].Off })
		end := 0
		for _, fr := range frs {
			if fr.Off != end {
				c.SafetyOnly = true
			}
			end = fr.Off + fr.Len
		}
		if end != n || len(frs) == 0 {
			c.SafetyOnly = true
		}
	}

	return c, true
}
