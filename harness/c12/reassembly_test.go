package c12

import (
	"bytes"
	"fmt"
	"sort"
	"testing"

	"github.com/pion/dtls/v3/internal/fragmentbuffer"
	"github.com/pion/dtls/v3/internal/zzverif/lib/pbt"
	"pgregory.net/rapid"
)

func TestMain(m *testing.M) { pbt.Main(m, "C12") }

func TestProps(t *testing.T) { pbt.RunAll(t) }

func TestReplay(t *testing.T) { pbt.Replay(t) }

// ---- case -------------------------------------------------------------------------------

// Frag is one handshake fragment [Off, Off+Len) of message Msg (index into Msgs; -1-k = stale
// message with sequence Start-1-k).
type Frag struct {
	Msg int `json:"m"`
	Off int `json:"o"`
	Len int `json:"l"`
}

// ReasmCase is a reassembly scenario: messages, and the arrival order of records, each
// carrying one or more fragments.
type ReasmCase struct {
	Start   int      `json:"start"` // first message_seq (buffer is advanced to it)
	Lens    []int    `json:"lens"`  // message body lengths, consecutive sequence numbers
	Types   []int    `json:"types"`
	Records [][]Frag `json:"records"`
	Repush  bool     `json:"repush"` // after everything was delivered, push all records again
	// SafetyOnly: the fragments are not a partition of every message (overlaps or gaps, fuzz target
	// only), so "every message surfaces" is not asserted - only that nothing wrong, incomplete or
	// extra surfaces.
	SafetyOnly bool `json:"safetyonly,omitempty"`
}

func body(msg, n int) []byte {
	b := make([]byte, n)
	x := uint32(msg*2654435761 + 12345) //nolint:gosec
	for i := range b {
		x = x*1664525 + 1013904223
		b[i] = byte(x >> 24)
	}

	return b
}

func put24(b []byte, v int) { b[0], b[1], b[2] = byte(v>>16), byte(v>>8), byte(v) }

func encodeRecord(c *ReasmCase, frs []Frag, recSeq int) []byte {
	var payload []byte
	for _, f := range frs {
		seq, typ, total := 0, 1, 0
		var data []byte
		if f.Msg >= 0 {
			seq, typ, total = c.Start+f.Msg, c.Types[f.Msg], c.Lens[f.Msg]
			data = body(f.Msg, total)[f.Off : f.Off+f.Len]
		} else {
			seq, typ, total = c.Start+f.Msg, 2, f.Off+f.Len
			data = make([]byte, f.Len)
		}
		h := make([]byte, 12)
		h[0] = byte(typ)
		put24(h[1:], total)
		h[4], h[5] = byte(seq>>8), byte(seq)
		put24(h[6:], f.Off)
		put24(h[9:], f.Len)
		payload = append(payload, h...)
		payload = append(payload, data...)
	}
	rec := []byte{22, 0xfe, 0xfd, 0, 0, 0, 0, byte(recSeq >> 24), byte(recSeq >> 16), byte(recSeq >> 8), byte(recSeq), byte(len(payload) >> 8), byte(len(payload))}

	return append(rec, payload...)
}

// ---- generator --------------------------------------------------------------------------

func genLen(t *rapid.T, label string) int {
	switch rapid.IntRange(0, 9).Draw(t, label+"k") {
	case 0, 1:
		return 0
	case 2, 3:
		return 1
	case 4, 5, 6:
		return rapid.IntRange(2, 40).Draw(t, label)
	default:
		return rapid.IntRange(41, 3000).Draw(t, label)
	}
}

func genPartition(t *rapid.T, msg, n int, zeroOK bool) []Frag {
	ncuts := rapid.IntRange(0, 6).Draw(t, "ncuts")
	cuts := []int{0}
	for i := 0; i < ncuts; i++ {
		if n == 0 {
			break
		}
		cuts = append(cuts, rapid.IntRange(0, n).Draw(t, "cut"))
	}
	cuts = append(cuts, n)
	sort.Ints(cuts)
	var frs []Frag
	for i := 0; i+1 < len(cuts); i++ {
		l := cuts[i+1] - cuts[i]
		if l == 0 && !(zeroOK || n == 0) {
			continue
		}
		frs = append(frs, Frag{msg, cuts[i], l})
	}
	if n == 0 && len(frs) > 1 {
		frs = frs[:1]
	}
	if len(frs) == 0 {
		frs = []Frag{{msg, 0, n}}
	}
	if n > 0 && zeroOK {
		// optional zero-length fragments at both ends
		if rapid.IntRange(0, 3).Draw(t, "z0") == 0 {
			frs = append(frs, Frag{msg, 0, 0})
		}
		if rapid.IntRange(0, 3).Draw(t, "zn") == 0 {
			frs = append(frs, Frag{msg, n, 0})
		}
	}

	return frs
}

func genReasm(t *rapid.T) ReasmCase {
	c := ReasmCase{}
	c.Start = rapid.SampledFrom([]int{0, 0, 0, 1, 2, 7, 300, 65000}).Draw(t, "start")
	k := rapid.IntRange(1, 4).Draw(t, "k")
	zeroOK := rapid.IntRange(0, 2).Draw(t, "zeroOK") == 0
	var all []Frag
	for m := 0; m < k; m++ {
		n := genLen(t, "len")
		c.Lens = append(c.Lens, n)
		c.Types = append(c.Types, rapid.SampledFrom([]int{1, 2, 11, 12, 14, 16, 20}).Draw(t, "typ"))
		frs := genPartition(t, m, n, zeroOK)
		for _, f := range frs {
			all = append(all, f)
			if rapid.IntRange(0, 4).Draw(t, "dup") == 0 {
				all = append(all, f)
			}
		}
	}
	// stale fragments of already delivered sequences
	if c.Start > 0 && rapid.Bool().Draw(t, "stale") {
		ns := rapid.IntRange(1, 3).Draw(t, "nstale")
		for i := 0; i < ns; i++ {
			back := rapid.IntRange(1, min(c.Start, 3)).Draw(t, "back")
			all = append(all, Frag{-back, rapid.IntRange(0, 5).Draw(t, "so"), rapid.IntRange(0, 9).Draw(t, "sl")})
		}
	}
	if rapid.IntRange(0, 3).Draw(t, "inorder") != 0 {
		all = rapid.Permutation(all).Draw(t, "order")
	}
	for len(all) > 0 {
		n := 1
		if rapid.IntRange(0, 3).Draw(t, "pack") == 0 {
			n = rapid.IntRange(1, 3).Draw(t, "packn")
		}
		n = min(n, len(all))
		c.Records = append(c.Records, all[:n])
		all = all[n:]
	}
	c.Repush = rapid.IntRange(0, 3).Draw(t, "repush") == 0

	return c
}

// ---- oracle: byte-level reference reassembler -------------------------------------------

type refMsg struct {
	covered []bool
	seenAny bool
}

func (m *refMsg) complete() bool {
	if len(m.covered) == 0 {
		return m.seenAny
	}
	for _, c := range m.covered {
		if !c {
			return false
		}
	}

	return true
}

func expected(c *ReasmCase, m int) []byte {
	h := make([]byte, 12)
	h[0] = byte(c.Types[m])
	put24(h[1:], c.Lens[m])
	seq := c.Start + m
	h[4], h[5] = byte(seq>>8), byte(seq)
	put24(h[6:], 0)
	put24(h[9:], c.Lens[m])

	return append(h, body(m, c.Lens[m])...)
}

func runReasm(c ReasmCase, r *pbt.R) {
	fb := fragmentbuffer.New()
	if c.Start > 0 {
		fb.AdvanceTo(uint16(c.Start)) //nolint:gosec
	}
	ref := make([]*refMsg, len(c.Lens))
	for i, n := range c.Lens {
		ref[i] = &refMsg{covered: make([]bool, n)}
	}
	next := 0 // next message index expected to surface
	nfrag, zero, dup, ooo, interleaved := 0, false, false, false, false
	seen := map[Frag]bool{}
	lastOff := map[int]int{}
	lastMsg := -100
	msgsSeen := map[int]bool{}
	for ri, rec := range c.Records {
		raw := encodeRecord(&c, rec, ri)
		onlyStale := true
		for _, f := range rec {
			nfrag++
			if f.Msg < 0 {
				continue
			}
			onlyStale = false
			if f.Len == 0 && c.Lens[f.Msg] > 0 {
				zero = true
			}
			if seen[f] {
				dup = true
			}
			seen[f] = true
			if lo, ok := lastOff[f.Msg]; ok && f.Off < lo {
				ooo = true
			}
			lastOff[f.Msg] = f.Off
			if lastMsg != f.Msg && msgsSeen[f.Msg] {
				interleaved = true
			}
			if f.Msg < lastMsg {
				ooo = true
			}
			lastMsg = f.Msg
			msgsSeen[f.Msg] = true
			ref[f.Msg].seenAny = true
			for i := f.Off; i < f.Off+f.Len; i++ {
				ref[f.Msg].covered[i] = true
			}
		}
		isHS, isRetx, err := fb.Push(raw)
		if err != nil {
			r.Failf("C12|push-error", "record %d: Push error %v", ri, err)

			return
		}
		if !isHS {
			r.Failf("C12|push-not-handshake", "record %d: handshake record not recognised", ri)

			return
		}
		hasStale := false
		for _, f := range rec {
			if f.Msg < 0 || f.Msg < next {
				hasStale = true
			}
		}
		if hasStale && !isRetx {
			r.Failf("C12|retransmit-not-recognised", "record %d carries a fragment of a delivered message but isRetransmit=false", ri)

			return
		}
		if onlyStale && false {
			_ = isRetx
		}
		for {
			out, _ := fb.Pop()
			if out == nil {
				break
			}
			if next >= len(c.Lens) {
				r.Failf("C12|extra-message", "record %d: surfaced a message that was never sent: %x", ri, out[:min(len(out), 24)])

				return
			}
			if !ref[next].complete() {
				r.Failf("C12|surfaced-incomplete", "record %d: message %d surfaced while bytes are missing", ri, next)

				return
			}
			if !bytes.Equal(out, expected(&c, next)) {
				r.Failf("C12|wrong-bytes", "record %d: message %d surfaced with wrong bytes (len %d want %d)", ri, next, len(out), 12+c.Lens[next])

				return
			}
			next++
		}
	}
	if next != len(c.Lens) && !c.SafetyOnly {
		sig := "C12|never-surfaced"
		for _, rec := range c.Records {
			for _, f := range rec {
				if f.Msg == next && f.Len == 0 && c.Lens[next] > 0 {
					sig = "C12|never-surfaced|zero-length-fragment"
				}
			}
		}
		r.Failf(sig, "all fragments delivered but message %d (len %d) of %d never surfaced", next, c.Lens[min(next, len(c.Lens)-1)], len(c.Lens))
		if r.Failed() {
			return
		}
	}
	if c.Repush && next == len(c.Lens) {
		for ri, rec := range c.Records {
			raw := encodeRecord(&c, rec, 1000+ri)
			_, isRetx, err := fb.Push(raw)
			if err != nil {
				r.Failf("C12|repush-error", "re-push of record %d: %v", ri, err)

				return
			}
			if !isRetx {
				r.Failf("C12|retransmit-not-recognised", "re-push of delivered record %d not reported as retransmission", ri)

				return
			}
			if out, _ := fb.Pop(); out != nil {
				r.Failf("C12|resurfaced", "re-push of delivered record %d surfaced a message again", ri)

				return
			}
		}
		r.Class("repush")
	}
	if nfrag >= 2 && (ooo || dup || zero || interleaved) {
		r.NonTrivial()
	}
	if zero {
		r.Class("zero-length-fragment")
	}
	if dup {
		r.Class("duplicate")
	}
	if ooo {
		r.Class("out-of-order")
	}
	if interleaved {
		r.Class("interleaved")
	}
	if c.Start > 0 {
		r.Class("start>0")
	}
	r.Classf("msgs=%d", len(c.Lens))
}

// ---- exhaustive small space -------------------------------------------------------------

func compositions(n int, yield func([]int)) {
	// all ways to write n as an ordered sum of positive parts (n>=1), plus the single empty
	// part for n == 0
	if n == 0 {
		yield([]int{0})

		return
	}
	var rec func(rem int, cur []int)
	rec = func(rem int, cur []int) {
		if rem == 0 {
			yield(append([]int(nil), cur...))

			return
		}
		for p := 1; p <= rem; p++ {
			rec(rem-p, append(cur, p))
		}
	}
	rec(n, nil)
}

func permutations(n int, yield func([]int) bool) {
	p := make([]int, n)
	for i := range p {
		p[i] = i
	}
	var rec func(k int) bool
	rec = func(k int) bool {
		if k == n {
			return yield(p)
		}
		for i := k; i < n; i++ {
			p[k], p[i] = p[i], p[k]
			if !rec(k + 1) {
				return false
			}
			p[k], p[i] = p[i], p[k]
		}

		return true
	}
	rec(0)
}

func enumSmall(tier string, yield func(ReasmCase) bool) {
	maxLen := 3
	if tier == "thorough" {
		maxLen = 4
	}
	// two interleaved messages, every partition into <=4 fragments, every arrival
	// permutation, one optional duplicate
	for l0 := 0; l0 <= maxLen; l0++ {
		for l1 := 0; l1 <= maxLen; l1++ {
			var parts0, parts1 [][]int
			compositions(l0, func(p []int) { parts0 = append(parts0, p) })
			compositions(l1, func(p []int) { parts1 = append(parts1, p) })
			for _, p0 := range parts0 {
				for _, p1 := range parts1 {
					var frs []Frag
					off := 0
					for _, l := range p0 {
						frs = append(frs, Frag{0, off, l})
						off += l
					}
					off = 0
					for _, l := range p1 {
						frs = append(frs, Frag{1, off, l})
						off += l
					}
					if len(frs) > 6 {
						continue
					}
					for d := -1; d < len(frs); d++ {
						all := append([]Frag(nil), frs...)
						if d >= 0 {
							all = append(all, frs[d])
						}
						if len(all) > 6 {
							continue
						}
						ok := true
						permutations(len(all), func(p []int) bool {
							c := ReasmCase{Lens: []int{l0, l1}, Types: []int{1, 11}}
							for _, i := range p {
								c.Records = append(c.Records, []Frag{all[i]})
							}
							ok = yield(c)

							return ok
						})
						if !ok {
							return
						}
					}
				}
			}
		}
	}
}

// genLong: a long-lived buffer - hundreds of consecutive multi-fragment messages (more than the
// buffer's 1000-fragment budget in total, never more than a few pending at once), some fragments
// duplicated or swapped with a neighbour.
func genLong(t *rapid.T) ReasmCase {
	c := ReasmCase{Start: rapid.SampledFrom([]int{0, 0, 5, 60000}).Draw(t, "start")}
	k := rapid.IntRange(150, 420).Draw(t, "k")
	for m := 0; m < k; m++ {
		nf := rapid.IntRange(2, 6).Draw(t, "nf")
		n := nf * rapid.IntRange(1, 40).Draw(t, "flen")
		c.Lens = append(c.Lens, n)
		c.Types = append(c.Types, rapid.SampledFrom([]int{4, 11, 16, 24}).Draw(t, "typ"))
		fl := n / nf
		var frs []Frag
		for i := 0; i < nf; i++ {
			frs = append(frs, Frag{m, i * fl, fl})
		}
		switch rapid.IntRange(0, 5).Draw(t, "shape") {
		case 0:
			frs = append(frs, frs[rapid.IntRange(0, nf-1).Draw(t, "dupi")])
		case 1:
			i := rapid.IntRange(0, nf-2).Draw(t, "swapi")
			frs[i], frs[i+1] = frs[i+1], frs[i]
		}
		for _, f := range frs {
			c.Records = append(c.Records, []Frag{f})
		}
	}

	return c
}

// genOverlap: fragments that do NOT partition their messages - overlapping ranges, gaps, a peer
// that re-fragments differently on retransmission. Only the safety half of the oracle applies
// unless the fragments happen to tile every message.
func genOverlap(t *rapid.T) ReasmCase {
	for {
		raw := rapid.SliceOfN(rapid.Byte(), 6, 80).Draw(t, "bytes")
		if c, ok := caseFromBytes(raw); ok {
			return c
		}
	}
}

func init() {
	pbt.Register(pbt.Prop[ReasmCase]{
		Name: "reassembly-overlapping", Quick: 60000, Thorough: 1500000, Gen: genOverlap, Run: runReasm,
		Rule: "receiver: up to 4 messages of length < 24 with arbitrary (overlapping, gapped, repeated) fragment ranges, 1..3 per record; oracle = reference reassembler, safety half " +
			"(nothing surfaces while a byte is missing, nothing wrong or extra surfaces); liveness only when the fragments tile every message. distinct = whole case",
	})
	pbt.Register(pbt.Prop[ReasmCase]{
		Name: "reassembly-long-session", Quick: 160, Thorough: 6000, Gen: genLong, Run: runReasm,
		Rule: "receiver, long session: 150..420 consecutive messages of 2..6 fragments each (more fragments in total than the buffer's 1000-fragment budget, " +
			"few pending at any time), occasional duplicate / swapped fragment; same reference-reassembler oracle (every message must surface). distinct = whole case",
	})
	pbt.Register(pbt.Prop[ReasmCase]{
		Name: "reassembly", Quick: 200000, Thorough: 4000000,
		Gen: genReasm, Run: runReasm,
		Rule: "receiver: k<=4 messages (len 0..3000, 0/1 over-weighted) each cut into a generated partition " +
			"(zero-length fragments allowed), fragments optionally duplicated, permuted/interleaved, packed 1..3 per record, " +
			"stale fragments mixed in; oracle = byte-level reference reassembler (exactly once, in order, never while a byte is missing, " +
			"all surfaced at the end, retransmissions recognised). non-trivial = >=2 fragments and (out-of-order or duplicate or zero-length or interleaved); " +
			"distinct = (lengths, partition, arrival order)",
	})
	pbt.Register(pbt.Prop[ReasmCase]{
		Name: "reassembly-exhaustive", Enum: enumSmall, Exhaustive: true, Run: runReasm,
		Rule: "exhaustive: two messages of length 0..3 (thorough 0..4), every partition into non-empty fragments (<=6 in total), " +
			"every arrival permutation, with one optional duplicated fragment",
	})
}

var _ = fmt.Sprintf
