package c12

import (
	"fmt"
	"time"

	"github.com/pion/dtls/v3/internal/zzverif/lib/pbt"
	"github.com/pion/dtls/v3/internal/zzverif/lib/scen"
	"github.com/pion/dtls/v3/internal/zzverif/lib/vnet"
	"pgregory.net/rapid"
)

// ReorderCase: a live DTLS 1.2 handshake in which the network delivers the plaintext handshake
// records of every datagram as datagrams of their own, in a permuted order (nothing is lost,
// duplicated or delayed in time). Every message is complete the moment its last record arrives,
// so it must be surfaced then: the handshake has to complete without anybody's retransmission
// timer, i.e. at virtual time zero.
type ReorderCase struct {
	Variant string `json:"variant"` // full, clientauth, psk, resumed
	MTU     int    `json:"mtu,omitempty"`
	Perm    []int  `json:"perm"` // permutation source: record i of a datagram goes to position Perm[i % len] rank
	From    string `json:"from"` // whose datagrams are permuted: C, S, both
}

func runReorder(c ReorderCase, r *pbt.R) {
	berr := pbt.Bubble(func() {
		cl := scen.EP{RootCA: 1, ServerName: scen.ServerName, MTU: c.MTU, MinVer: 12, MaxVer: 12}
		sv := scen.EP{Cert: "ecdsa", MTU: c.MTU, MinVer: 12, MaxVer: 12}
		switch c.Variant {
		case "clientauth":
			cl.Cert, sv.ClientAuth, sv.ClientCAs = "client-ecdsa", 4, true
		case "psk":
			cl = scen.EP{PSK: "reorder-psk-0001", PSKHint: "id", Suites: []uint16{0x00a8}, MTU: c.MTU}
			sv = scen.EP{PSK: "reorder-psk-0001", PSKHint: "h", Suites: []uint16{0x00a8}, MTU: c.MTU}
		case "resumed":
			cl.Store, sv.Store = "cs", "ss"
		}
		env := scen.NewEnv()
		if c.Variant == "resumed" {
			p0 := scen.NewPair(env, &cl, &sv)
			p0.Handshake(5 * time.Minute)
			ok := p0.C.OK() && p0.S.OK()
			p0.Close()
			scen.Settle()
			if !ok {
				r.Failf("C12|harness|prime", "priming failed")

				return
			}
		}
		p := scen.NewPair(env, &cl, &sv)
		defer p.Close()
		permuted := 0
		p.Net.Mangle = func(ev *vnet.Event) [][]byte {
			if c.From != "both" && ev.From != c.From {
				return nil
			}
			recs, ok := scen.SplitDatagram(ev.Data, 0)
			if !ok || len(recs) < 2 {
				return nil
			}
			// the plaintext handshake records in permuted order first, everything else after them in
			// the original order (a ChangeCipherSpec must not overtake the messages it follows)
			var hs, rest [][]byte
			for _, rc := range recs {
				if rc.Kind == "legacy" && rc.Epoch == 0 && rc.Type == scen.CTHandshake {
					hs = append(hs, append([]byte(nil), rc.Raw...))
				} else {
					rest = append(rest, append([]byte(nil), rc.Raw...))
				}
			}
			if len(hs) < 2 {
				return nil
			}
			type ranked struct {
				rank, i int
			}
			rk := make([]ranked, len(hs))
			for i := range hs {
				rk[i] = ranked{c.Perm[i%len(c.Perm)]*64 + i, i}
			}
			for i := 1; i < len(rk); i++ {
				for j := i; j > 0 && rk[j].rank < rk[j-1].rank; j-- {
					rk[j], rk[j-1] = rk[j-1], rk[j]
				}
			}
			out := make([][]byte, 0, len(recs))
			moved := false
			for pos, x := range rk {
				if x.i != pos {
					moved = true
				}
				out = append(out, hs[x.i])
			}
			if moved {
				permuted++
			}

			return append(out, rest...)
		}
		p.Handshake(10 * time.Minute)
		if !(p.C.OK() && p.S.OK()) {
			r.Failf("C12|reordered-records|handshake-fails|"+c.Variant, "records of each datagram delivered in permuted order, nothing lost: C=%v S=%v (%+v)", p.C.Err(), p.S.Err(), c)

			return
		}
		if done := max(p.C.HSAt, p.S.HSAt); done > 0 && permuted > 0 {
			r.Failf("C12|complete-message-not-surfaced|"+c.Variant, "every record arrived at virtual time 0 (order permuted %d times, nothing lost), yet the handshake only completed at %v: a message whose last byte had arrived was not surfaced until a retransmission came (%+v)", permuted, done, c)

			return
		}
		r.Eval(fmt.Sprintf("%+v", c), permuted > 0, c.Variant)
	})
	if berr != nil && !berr.Deadlock {
		r.Failf(pbt.PanicSig("C12", []byte(berr.Stack)), "panic: %v\n%s", berr.Value, berr.Stack)
	}
}

func enumReorder(_ string, yield func(ReorderCase) bool) {
	perms := [][]int{{3, 2, 1, 0}, {1, 0, 3, 2}, {2, 0, 1, 3}, {0, 2, 1, 3}, {1, 2, 3, 0}, {3, 0, 1, 2}, {0, 1, 3, 2}, {2, 3, 0, 1}, {0, 3, 2, 1}, {1, 3, 0, 2}}
	for _, v := range []string{"full", "clientauth", "psk", "resumed"} {
		for _, from := range []string{"S", "C", "both"} {
			for _, pm := range perms {
				if !yield(ReorderCase{Variant: v, Perm: pm, From: from}) {
					return
				}
			}
		}
	}
}

func genReorder(t *rapid.T) ReorderCase {
	return ReorderCase{
		Variant: rapid.SampledFrom([]string{"full", "clientauth", "psk", "resumed"}).Draw(t, "variant"),
		From:    rapid.SampledFrom([]string{"S", "C", "both"}).Draw(t, "from"),
		Perm:    rapid.SliceOfN(rapid.IntRange(0, 7), 2, 6).Draw(t, "perm"),
	}
}

func init() {
	pbt.Register(pbt.Prop[ReorderCase]{
		Name: "reordered-flight-grid", Enum: enumReorder, Exhaustive: true, Run: runReorder, Crashy: true,
		Rule: "receiver inside a live connection: 4 handshake variants x permuted side x 10 permutations of the handshake records of every datagram (each record its own datagram, nothing lost or delayed); " +
			"oracle: both succeed and complete at virtual time 0 (a complete message is surfaced at once, no retransmission needed). non-trivial = some datagram's records really changed order",
	})
	pbt.Register(pbt.Prop[ReorderCase]{
		Name: "reordered-flight", Quick: 600, Thorough: 20000, Gen: genReorder, Run: runReorder, Crashy: true,
		Rule: "same with generated rank vectors",
	})
}
