package c12

import (
	"fmt"
	"time"

	"github.com/pion/dtls/v3/internal/zzverif/lib/pbt"
	"github.com/pion/dtls/v3/internal/zzverif/lib/ref"
	"github.com/pion/dtls/v3/internal/zzverif/lib/scen"
	"pgregory.net/rapid"
)

// SendCase: a live handshake with a configured MTU on each side; every handshake fragment either
// side emits (read off the tap; DTLS 1.3 through the passive decoder) must carry at most MTU body
// bytes, and the fragments of one message must tile it.
type SendCase struct {
	Ver   int    `json:"ver"`
	MTUC  int    `json:"mtuc"`
	MTUS  int    `json:"mtus"`
	CAuth bool   `json:"cauth,omitempty"`
	Chain string `json:"chain,omitempty"` // server certificate fixture
	ALPN  int    `json:"alpn,omitempty"`  // number of ALPN protocols offered (varies the hello sizes)
}

func runSend(c SendCase, r *pbt.R) {
	var gens []scen.Gen13
	stop := scen.CaptureGens13(&gens)
	defer stop()
	berr := pbt.Bubble(func() {
		cl := scen.EP{RootCA: 1, ServerName: scen.ServerName, MTU: c.MTUC}
		sv := scen.EP{Cert: "ecdsa", MTU: c.MTUS}
		if c.Chain != "" {
			sv.Cert = c.Chain
		}
		if c.CAuth {
			cl.Cert, sv.ClientAuth, sv.ClientCAs = "client-ecdsa", 4, true
		}
		for i := 0; i < c.ALPN; i++ {
			cl.ALPN = append(cl.ALPN, fmt.Sprintf("proto-%d-%s", i, "xxxxxxxxxxxx"[:i%12]))
		}
		if c.ALPN > 0 {
			sv.ALPN = []string{cl.ALPN[0]}
		}
		if c.Ver == 13 {
			cl.MinVer, cl.MaxVer, sv.MinVer, sv.MaxVer = 13, 13, 13, 13
			cl.Curves, sv.Curves = []uint16{0x1d}, []uint16{0x1d}
		} else {
			cl.MinVer, cl.MaxVer, sv.MinVer, sv.MaxVer = 12, 12, 12, 12
		}
		env := scen.NewEnv()
		p := scen.NewPair(env, &cl, &sv)
		defer p.Close()
		p.Handshake(10 * time.Minute)
		if !(p.C.OK() && p.S.OK()) {
			r.Class("handshake-failed")
			if c.Ver == 13 {
				return
			}
			// DTLS 1.2 fragments are readable off the tap whatever became of the handshake (at an MTU of a few
			// bytes a flight needs more fragments than the receiver's reassembly buffer holds: 1000)
			r.Classf("handshake-failed-at-mtu<=%d", (min(c.MTUC, c.MTUS)/8+1)*8)
		}
		var dec *ref.Decoder
		if c.Ver == 13 {
			dec = scen.Decoder13(p, gens)
		}
		mtu := map[string]int{"C": c.MTUC, "S": c.MTUS}
		type mk struct {
			from string
			seq  int
		}
		total := map[mk]int{}
		cover := map[mk]map[int]bool{}
		frags, multi := 0, false
		judge := func(from string, body []byte) bool {
			fr, ok := scen.SplitHandshake(body)
			if !ok {
				return true
			}
			for _, f := range fr {
				frags++
				if f.FragLen > mtu[from] {
					r.Failf("C12|fragment-larger-than-mtu", "%s (MTU %d) emitted a fragment of %d body bytes (message type %d, length %d, offset %d)", from, mtu[from], f.FragLen, f.Type, f.Length, f.FragOff)

					return false
				}
				if f.FragOff+f.FragLen > f.Length {
					r.Failf("C12|fragment-beyond-message", "%s emitted fragment [%d,%d) of a %d-byte message", from, f.FragOff, f.FragOff+f.FragLen, f.Length)

					return false
				}
				k := mk{from, f.MsgSeq}
				total[k] = f.Length
				if cover[k] == nil {
					cover[k] = map[int]bool{}
				}
				for i := f.FragOff; i < f.FragOff+f.FragLen; i++ {
					cover[k][i] = true
				}
				if f.FragLen != f.Length {
					multi = true
				}
			}

			return true
		}
		for _, ev := range p.Net.Events() {
			if ev.From != "C" && ev.From != "S" {
				continue
			}
			if dec != nil {
				ds, _ := dec.Decode(ev.From, ev.Data, 0)
				for _, d := range ds {
					if d.OK && d.Type == scen.CTHandshake && !judge(ev.From, d.Plain) {
						return
					}
				}

				continue
			}
			recs, _ := scen.SplitDatagram(ev.Data, 0)
			for _, rc := range recs {
				if rc.Kind == "legacy" && rc.Epoch == 0 && rc.Type == scen.CTHandshake && !judge(ev.From, rc.Body) {
					return
				}
			}
		}
		for k, n := range total {
			if len(cover[k]) != n {
				r.Failf("C12|message-not-fully-transmitted", "%s message_seq %d: %d of %d body bytes were ever transmitted", k.from, k.seq, len(cover[k]), n)

				return
			}
		}
		r.Eval(fmt.Sprintf("%+v", c), multi, fmt.Sprintf("v%d", c.Ver))
		_ = frags
	})
	if berr != nil && !berr.Deadlock {
		r.Failf(pbt.PanicSig("C12", []byte(berr.Stack)), "panic: %v\n%s", berr.Value, berr.Stack)
	}
}

// every MTU in a range that brackets the sizes of all handshake messages (a message of length L is
// at risk exactly when the MTU is just below L)
func enumSend(tier string, yield func(SendCase) bool) {
	step13 := 7
	if tier == "thorough" {
		step13 = 1
	}
	for m := 1; m <= 900; m++ {
		if !yield(SendCase{Ver: 12, MTUC: m, MTUS: m, CAuth: true}) {
			return
		}
	}
	for m := 120; m <= 900; m += step13 {
		if !yield(SendCase{Ver: 13, MTUC: m, MTUS: m, CAuth: true}) {
			return
		}
	}
}

func genSend(t *rapid.T) SendCase {
	c := SendCase{Ver: 12, MTUC: rapid.IntRange(24, 1300).Draw(t, "mtuc"), MTUS: rapid.IntRange(24, 1300).Draw(t, "mtus"),
		CAuth: rapid.Bool().Draw(t, "cauth"), Chain: rapid.SampledFrom([]string{"", "ecdsa-leafonly", "ecdsa-inter", "rsa", "ed25519"}).Draw(t, "chain"),
		ALPN: rapid.IntRange(0, 6).Draw(t, "alpn")}
	if rapid.IntRange(0, 3).Draw(t, "v13") == 0 {
		c.Ver = 13
		c.MTUC, c.MTUS = max(c.MTUC, 100), max(c.MTUS, 100)
		if c.Chain == "rsa" {
			c.Chain = ""
		}
	}

	return c
}

func init() {
	pbt.Register(pbt.Prop[SendCase]{
		Name: "sender-fragment-size-grid", Enum: enumSend, Exhaustive: true, Run: runSend, Crashy: true,
		Rule: "sender: client-authenticated handshake at every MTU 1..900 (DTLS 1.3: 120..900, step 7, thorough step 1): every emitted handshake fragment carries <= MTU body bytes, stays inside its message, and each message is transmitted completely. non-trivial = some message was fragmented",
	})
	pbt.Register(pbt.Prop[SendCase]{
		Name: "sender-fragment-size", Quick: 600, Thorough: 20000, Gen: genSend, Run: runSend, Crashy: true,
		Rule: "sender: independent client/server MTUs 24..1300, certificate chain shape and key type, client authentication, ALPN list size (varying message lengths); same oracle",
	})
}
