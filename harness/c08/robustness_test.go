package c08

import (
	"bytes"
	"fmt"
	"os"
	"runtime"
	"strings"
	"testing"
	"time"

	"github.com/pion/dtls/v3/internal/zzverif/lib/pbt"
	"github.com/pion/dtls/v3/internal/zzverif/lib/ref"
	"github.com/pion/dtls/v3/internal/zzverif/lib/scen"
	"pgregory.net/rapid"
)

func TestMain(m *testing.M) { pbt.Main(m, "C08") }

func TestProps(t *testing.T) { pbt.RunAll(t) }

func TestReplay(t *testing.T) { pbt.Replay(t) }

// ---- variants ------------------------------------------------------------------------------

var variants = []string{"v12", "v12-psk", "v12-epsk", "v12-cbc", "v12-cid", "v12-cid8", "v12-cid20-ccm", "v12-resumed", "v13", "v13-nohv", "dual-12", "dual-srv-12", "dual-srv-13", "v12-srvstore"}

var variantCID = map[string]int{"v12-cid": 4, "v12-cid8": 8, "v12-cid20-ccm": 20}

func epsFor(v string) (cl, sv scen.EP, resumed bool) {
	cl = scen.EP{RootCA: 1, ServerName: scen.ServerName}
	sv = scen.EP{Cert: "ecdsa"}
	switch v {
	case "v12-psk":
		cl = scen.EP{PSK: "robust-psk-00001", PSKHint: "id", Suites: []uint16{0x00a8}}
		sv = scen.EP{PSK: "robust-psk-00001", PSKHint: "h", Suites: []uint16{0x00a8}}
	case "v12-epsk":
		cl = scen.EP{PSK: "robust-psk-00001", PSKHint: "id", Suites: []uint16{0xc037}}
		sv = scen.EP{PSK: "robust-psk-00001", PSKHint: "h", Suites: []uint16{0xc037}}
	case "v12-cbc":
		cl.Suites, sv.Suites = []uint16{0xc00a}, []uint16{0xc00a}
	case "v12-cid":
		cl.CID, sv.CID = 4, 4
	case "v12-cid8":
		cl.CID, sv.CID = 8, 8
	case "v12-cid20-ccm":
		cl.CID, sv.CID = 20, 20
		cl.Suites, sv.Suites = []uint16{0xc0ac}, []uint16{0xc0ac}
	case "v12-resumed":
		cl.Store, sv.Store = "cs", "ss"
		resumed = true
	case "v13":
		cl.MinVer, cl.MaxVer, sv.MinVer, sv.MaxVer = 13, 13, 13, 13
		cl.Curves, sv.Curves = []uint16{0x1d}, []uint16{0x1d}
	case "v13-nohv":
		cl.MinVer, cl.MaxVer, sv.MinVer, sv.MaxVer = 13, 13, 13, 13
		cl.Curves, sv.Curves = []uint16{0x1d}, []uint16{0x1d}
		sv.SkipHelloVfy = true
	case "dual-12":
		cl.MinVer, cl.MaxVer = 12, 13
		cl.Curves, sv.Curves = []uint16{0x1d}, []uint16{0x1d}
	case "v12-srvstore": // a session store on the server only: it issues session ids the client has no store for
		sv.Store = "ss-only"
	case "dual-srv-12": // the server reads the first hello outside any state machine (version negotiation)
		sv.MinVer, sv.MaxVer = 12, 13
		cl.Curves, sv.Curves = []uint16{0x1d}, []uint16{0x1d}
	case "dual-srv-13":
		sv.MinVer, sv.MaxVer = 12, 13
		cl.MinVer, cl.MaxVer = 13, 13
		cl.Curves, sv.Curves = []uint16{0x1d}, []uint16{0x1d}
	}

	return cl, sv, resumed
}

// ---- generator 1: unauthenticated sender at every handshake state ---------------------------

// Hostile is one injected datagram, described so that it can be rebuilt on replay.
type Hostile struct {
	Kind string `json:"kind"` // record, hsfrag, mutate, random, cidrec
	// cidrec: a well-formed tls12_cid record (type 25) with CIDLen random ID bytes and BodyLen body bytes
	CIDLen int `json:"cidlen,omitempty"`
	// record / hsfrag
	Type   int `json:"type,omitempty"`
	Epoch  int `json:"epoch,omitempty"`
	DeclDl int `json:"decl,omitempty"` // declared record length minus real length
	// hsfrag
	MsgType int `json:"mt,omitempty"`
	MsgLen  int `json:"ml,omitempty"`
	MsgSeq  int `json:"ms,omitempty"` // relative to the expected sequence: -1 past, 0 expected, +k future
	FragOff int `json:"fo,omitempty"`
	FragLen int `json:"fl,omitempty"`
	BodyLen int `json:"bl,omitempty"`
	// mutate: index of a genuine datagram seen so far and the mutation
	Src int    `json:"src,omitempty"`
	Mut string `json:"mut,omitempty"`
	Arg int    `json:"arg,omitempty"`
	// random
	Len  int `json:"len,omitempty"`
	Seed int `json:"seed,omitempty"`
}

// InjCase: a genuine handshake with a hostile burst injected at a trigger point.
type InjCase struct {
	Variant string    `json:"variant"`
	Target  string    `json:"target"` // endpoint receiving the burst: C | S
	TrigBy  string    `json:"trigby"` // trigger: when this side has emitted K datagrams
	K       int       `json:"k"`
	Burst   []Hostile `json:"burst"`
}

func prng(seed int) func() byte {
	x := uint32(seed)*2654435761 + 99991 //nolint:gosec

	return func() byte {
		x = x*1664525 + 1013904223

		return byte(x >> 24)
	}
}

func legacyRecord(typ, epoch int, seq uint64, body []byte, declDelta int) []byte {
	n := len(body) + declDelta
	if n < 0 {
		n = 0
	}
	rec := []byte{byte(typ), 0xfe, 0xfd, byte(epoch >> 8), byte(epoch), byte(seq >> 40), byte(seq >> 32), byte(seq >> 24), byte(seq >> 16), byte(seq >> 8), byte(seq), byte(n >> 8), byte(n)}

	return append(rec, body...)
}

func (h *Hostile) build(genuine [][]byte, expectSeq int, recSeq uint64) []byte {
	switch h.Kind {
	case "record":
		rnd := prng(h.Seed)
		body := make([]byte, h.BodyLen)
		for i := range body {
			body[i] = rnd()
		}
		if h.Type >= 0x20 && h.Type <= 0x3f { // unified header
			return append([]byte{byte(h.Type)}, body...)
		}

		return legacyRecord(h.Type, h.Epoch, recSeq, body, h.DeclDl)
	case "cidrec":
		rnd := prng(h.Seed)
		rec := []byte{25, 0xfe, 0xfd, byte(h.Epoch >> 8), byte(h.Epoch), byte(recSeq >> 40), byte(recSeq >> 32), byte(recSeq >> 24), byte(recSeq >> 16), byte(recSeq >> 8), byte(recSeq)}
		for i := 0; i < h.CIDLen; i++ {
			rec = append(rec, rnd())
		}
		n := h.BodyLen + h.DeclDl
		if n < 0 {
			n = 0
		}
		rec = append(rec, byte(n>>8), byte(n))
		for i := 0; i < h.BodyLen; i++ {
			rec = append(rec, rnd())
		}

		return rec
	case "hsfrag":
		rnd := prng(h.Seed)
		body := make([]byte, h.BodyLen)
		for i := range body {
			body[i] = rnd()
		}
		seq := expectSeq + h.MsgSeq
		if seq < 0 {
			seq = 0
		}
		hs := []byte{byte(h.MsgType), byte(h.MsgLen >> 16), byte(h.MsgLen >> 8), byte(h.MsgLen), byte(seq >> 8), byte(seq),
			byte(h.FragOff >> 16), byte(h.FragOff >> 8), byte(h.FragOff), byte(h.FragLen >> 16), byte(h.FragLen >> 8), byte(h.FragLen)}

		return legacyRecord(22, h.Epoch, recSeq, append(hs, body...), h.DeclDl)
	case "mutate":
		if len(genuine) == 0 {
			return []byte{0}
		}
		d := append([]byte(nil), genuine[h.Src%len(genuine)]...)
		if len(d) == 0 {
			return []byte{0}
		}
		switch h.Mut {
		case "bit":
			i := h.Arg % (len(d) * 8)
			d[i/8] ^= 1 << (i % 8)
		case "trunc":
			d = d[:h.Arg%len(d)]
		case "tail":
			d = append(d, bytes.Repeat([]byte{byte(h.Arg)}, 1+h.Arg%40)...)
		case "zero-lengths":
			for i := 11; i+1 < len(d) && i < 13; i++ {
				d[i] = 0
			}
		case "dup":
			d = append(d, d...)
		}

		return d
	default:
		rnd := prng(h.Seed)
		d := make([]byte, h.Len)
		for i := range d {
			d[i] = rnd()
		}

		return d
	}
}

// harmless reports whether a hostile datagram is, by construction, unparseable as a DTLS record
// or a protected record that cannot authenticate: then the endpoint must keep serving.
func harmless(d []byte, cidLen int) bool {
	// before the connection IDs are negotiated the endpoint parses tls12_cid headers without an ID
	return harmless1(d, cidLen) && (cidLen == 0 || harmless1(d, 0))
}

func harmless1(d []byte, cidLen int) bool {
	if len(d) == 0 {
		return true
	}
	recs, ok := scen.SplitDatagram(d, cidLen)
	if !ok {
		// may still contain leading parseable epoch-0 records
		for _, rc := range recs {
			if rc.Kind != "unified" && rc.Epoch == 0 {
				return false
			}
		}

		return true
	}
	for _, rc := range recs {
		if rc.Kind == "unified" {
			continue // protected: random bytes cannot authenticate
		}
		if rc.Epoch == 0 {
			return false
		}
		if rc.Type == scen.CTChangeCipherSpec {
			return false
		}
	}

	return true
}

func runInj(c InjCase, r *pbt.R) {
	berr := pbt.Bubble(func() {
		cEP, sEP, resumed := epsFor(c.Variant)
		env := scen.NewEnv()
		env.Log = &scen.LogSink{Keep: os.Getenv("VERIF_DEBUG") != ""}
		if resumed {
			p0 := scen.NewPair(env, &cEP, &sEP)
			p0.Handshake(5 * time.Minute)
			ok := p0.C.OK() && p0.S.OK()
			p0.Close()
			scen.Settle()
			if !ok {
				r.Failf("C08|harness|prime", "priming failed")

				return
			}
		}
		p := scen.NewPair(env, &cEP, &sEP)
		defer p.Close()
		p.Net.MaxEvents = 6000
		sd := p.S.StartHandshake(10 * time.Minute)
		cd := p.C.StartHandshake(10 * time.Minute)
		both := make(chan struct{})
		go func() { <-sd; <-cd; close(both) }()
		select {
		case <-p.Net.WaitSent(c.TrigBy, c.K):
		case <-both:
		}
		from := "C"
		if c.Target == "C" {
			from = "S"
		}
		var genuine [][]byte
		for _, ev := range p.Net.EventsFrom(from) {
			genuine = append(genuine, ev.Data)
		}
		cidLen := 0
		if cEP.CID > 0 && sEP.CID > 0 {
			cidLen = map[string]int{"C": cEP.CID, "S": sEP.CID}[c.Target]
		}
		allHarmless := true
		deepest := "header-rejected"
		for i, h := range c.Burst {
			d := h.build(genuine, len(genuine)/2, uint64(5000+i)) //nolint:gosec
			if !harmless(d, cidLen) {
				allHarmless = false
			}
			if recs, ok := scen.SplitDatagram(d, cidLen); ok && len(recs) > 0 {
				deepest = "record-parsed"
				for _, rc := range recs {
					if rc.Kind != "unified" && rc.Type == scen.CTHandshake && rc.Epoch == 0 {
						deepest = "reassembly"
					}
				}
			}
			p.Net.Inject(from, c.Target, d)
		}
		<-both
		okC, okS := p.C.OK(), p.S.OK()
		stormed := p.Net.HasStormed()
		if os.Getenv("VERIF_DEBUG") != "" {
			fmt.Println(p.Dump())
			fmt.Println(strings.Join(env.Log.Lines, "\n"))
			fmt.Println(p.C.Err(), p.S.Err())
		}
		if stormed {
			r.Failf("C08|datagram-storm|"+c.Variant, "more than %d datagrams were exchanged after the hostile burst without virtual time advancing (variant %s)", p.Net.MaxEvents, c.Variant)
			if r.Failed() {
				return
			}
		}
		if allHarmless && !stormed && !strings.HasPrefix(c.Variant, "dual") {
			if !(okC && okS) {
				r.Failf("C08|stops-serving-after-harmless-datagrams|"+c.Variant, "every injected datagram was unparseable or unauthenticatable, yet the handshake did not complete: C=%v S=%v (trigger %s#%d, burst %+v)", p.C.Err(), p.S.Err(), c.TrigBy, c.K, c.Burst)

				return
			}
			gotS, gotC, werr := p.Exchange([][]byte{[]byte("still-serving-c")}, [][]byte{[]byte("still-serving-s")})
			if werr != nil || len(gotS) != 1 || len(gotC) != 1 {
				r.Failf("C08|no-data-after-harmless-datagrams|"+c.Variant, "handshake completed but data does not flow: %v %d %d", werr, len(gotS), len(gotC))

				return
			}
			r.Class("kept-serving")
		}
		r.Eval(fmt.Sprintf("%s|%s|%s|%d|%+v", c.Variant, c.Target, c.TrigBy, c.K, c.Burst), deepest != "header-rejected", c.Variant, "deepest="+deepest)
	})
	reportBubble(berr, r)
}

func reportBubble(berr *pbt.BubbleError, r *pbt.R) {
	if berr != nil {
		if berr.Deadlock {
			r.Failf("C08|goroutine-left-blocked", "goroutines left durably blocked after the connections were closed: %v", berr.Value)
		} else {
			r.Failf(pbt.PanicSig("C08", []byte(berr.Stack)), "panic: %v\n%s", berr.Value, berr.Stack)
		}
	}
}

var boundary = []int{0, 1, 2, 3, 4, 11, 12, 13, 255, 256, 1 << 16, 1<<24 - 1}

func genHostile(t *rapid.T) Hostile {
	switch rapid.IntRange(0, 10).Draw(t, "hk") {
	case 10:
		return Hostile{
			Kind: "cidrec", Epoch: rapid.SampledFrom([]int{1, 1, 1, 0, 2}).Draw(t, "epoch"), CIDLen: rapid.SampledFrom([]int{0, 1, 4, 8, 20, 21}).Draw(t, "cidlen"),
			BodyLen: rapid.IntRange(0, 20).Draw(t, "bl"), DeclDl: rapid.SampledFrom([]int{0, 0, 0, 1, -1}).Draw(t, "decl"), Seed: rapid.IntRange(0, 1<<20).Draw(t, "seed"),
		}
	case 0, 1:
		return Hostile{
			Kind: "record", Type: rapid.SampledFrom([]int{20, 21, 22, 23, 24, 25, 26, 27, 0, 255, 0x2f, 0x3f, 0x20, 0x37}).Draw(t, "type"),
			Epoch: rapid.SampledFrom([]int{0, 0, 1, 2, 3, 0xffff}).Draw(t, "epoch"), DeclDl: rapid.SampledFrom([]int{0, 0, 1, -1, 100, -100}).Draw(t, "decl"),
			BodyLen: rapid.SampledFrom([]int{0, 1, 2, 3, 12, 13, 30, 300}).Draw(t, "bl"), Seed: rapid.IntRange(0, 1<<20).Draw(t, "seed"),
		}
	case 2, 3, 4, 5:
		ml := rapid.SampledFrom(boundary).Draw(t, "ml")

		return Hostile{
			Kind: "hsfrag", Epoch: rapid.SampledFrom([]int{0, 0, 0, 1}).Draw(t, "epoch"),
			MsgType: rapid.SampledFrom([]int{0, 1, 2, 3, 4, 8, 11, 12, 13, 14, 15, 16, 20, 24, 254, 99}).Draw(t, "mt"), MsgLen: ml,
			MsgSeq:  rapid.SampledFrom([]int{-1, 0, 0, 1, 2, 50, 60000}).Draw(t, "ms"),
			FragOff: rapid.SampledFrom([]int{0, 0, 1, ml, ml + 1, 1<<24 - 1}).Draw(t, "fo") & 0xffffff,
			FragLen: rapid.SampledFrom([]int{0, 0, 1, 2, 3, 4, ml, ml + 1}).Draw(t, "fl") & 0xffffff,
			BodyLen: rapid.SampledFrom([]int{0, 0, 1, 2, 3, 4, 40}).Draw(t, "bl"), DeclDl: rapid.SampledFrom([]int{0, 0, 0, 1, -1}).Draw(t, "decl"),
			Seed: rapid.IntRange(0, 1<<20).Draw(t, "seed"),
		}
	case 6, 7, 8:
		return Hostile{Kind: "mutate", Src: rapid.IntRange(0, 20).Draw(t, "src"), Mut: rapid.SampledFrom([]string{"bit", "bit", "trunc", "tail", "zero-lengths", "dup"}).Draw(t, "mut"), Arg: rapid.IntRange(0, 1<<16).Draw(t, "arg")}
	default:
		return Hostile{Kind: "random", Len: rapid.SampledFrom([]int{0, 1, 2, 12, 13, 14, 25, 100, 1500}).Draw(t, "len"), Seed: rapid.IntRange(0, 1<<20).Draw(t, "seed")}
	}
}

func genInj(t *rapid.T) InjCase {
	c := InjCase{
		Variant: rapid.SampledFrom(variants).Draw(t, "variant"), Target: rapid.SampledFrom([]string{"C", "S"}).Draw(t, "target"),
		TrigBy: rapid.SampledFrom([]string{"C", "S"}).Draw(t, "trigby"), K: rapid.IntRange(0, 7).Draw(t, "k"),
	}
	n := rapid.IntRange(1, 6).Draw(t, "n")
	for i := 0; i < n; i++ {
		c.Burst = append(c.Burst, genHostile(t))
	}

	return c
}

// grid: trigger x message type x short lengths, the "one magic length in one deep state" cells
func enumInj(tier string, yield func(InjCase) bool) {
	vs := []string{"v12", "v12-epsk", "v13"}
	if tier == "thorough" {
		vs = variants
	}
	for _, v := range vs {
		for _, target := range []string{"C", "S"} {
			for k := 0; k <= 5; k++ {
				for _, mt := range []int{1, 2, 3, 11, 12, 13, 14, 15, 16, 20, 24, 4, 8} {
					var burst []Hostile
					for bl := 0; bl <= 4; bl++ {
						// zero-length message with a non-zero offset, exact body, fragment length beyond the body
						burst = append(burst,
							Hostile{Kind: "hsfrag", MsgType: mt, MsgLen: bl, FragOff: 0, FragLen: bl, BodyLen: bl, Seed: bl},
							Hostile{Kind: "hsfrag", MsgType: mt, MsgLen: 0, FragOff: bl + 1, FragLen: 0, BodyLen: 0, Seed: bl, MsgSeq: 1},
						)
					}
					from := "C"
					if target == "C" {
						from = "S"
					}
					if !yield(InjCase{Variant: v, Target: target, TrigBy: from, K: k, Burst: burst}) {
						return
					}
				}
			}
		}
	}
}

// grid 2: endpoints with connection IDs of 4, 8 and 20 bytes receive well-formed tls12_cid records
// with every short body length (around the explicit-nonce / tag / MAC boundaries) in epoch 1
func enumInjCID(_ string, yield func(InjCase) bool) {
	for _, v := range []string{"v12-cid", "v12-cid8", "v12-cid20-ccm"} {
		for _, target := range []string{"C", "S"} {
			for _, k := range []int{2, 4, 6, 9} {
				var burst []Hostile
				for bl := 0; bl <= 26; bl++ {
					burst = append(burst, Hostile{Kind: "cidrec", Epoch: 1, CIDLen: variantCID[v], BodyLen: bl, Seed: bl})
				}
				from := "C"
				if target == "C" {
					from = "S"
				}
				if !yield(InjCase{Variant: v, Target: target, TrigBy: from, K: k, Burst: burst}) {
					return
				}
			}
		}
	}
}

// ---- generator 2: authenticated peer, malformed content ---------------------------------------

// AuthCase: after establishment the harness, holding the keys, sends correctly protected records
// whose plaintext is hostile.
type AuthCase struct {
	Suite   uint16    `json:"suite"`
	CID     int       `json:"cid,omitempty"`
	ToSrv   bool      `json:"tosrv"`
	Records []AuthRec `json:"records"`
}

// AuthRec is one protected record with attacker-chosen plaintext.
type AuthRec struct {
	Type int     `json:"type"` // real content type
	Kind string  `json:"kind"` // bytes (Plain by length/seed), hsfrag (fields), cbc-raw
	Len  int     `json:"len,omitempty"`
	Seed int     `json:"seed,omitempty"`
	H    Hostile `json:"h,omitempty"`
	// cbc-raw: total plaintext blocks and the value of every byte of the last block
	Blocks int `json:"blocks,omitempty"`
	Fill   int `json:"fill,omitempty"`
}

func runAuth(c AuthCase, r *pbt.R) {
	is13 := c.Suite>>8 == 0x13
	var gens []scen.Gen13
	stop := scen.CaptureGens13(&gens)
	defer stop()
	berr := pbt.Bubble(func() {
		cEP := scen.EP{RootCA: 1, ServerName: scen.ServerName, Suites: []uint16{c.Suite}}
		sEP := scen.EP{Cert: "ecdsa", Suites: []uint16{c.Suite}}
		switch {
		case is13:
			cEP.MinVer, cEP.MaxVer, sEP.MinVer, sEP.MaxVer = 13, 13, 13, 13
			cEP.Curves, sEP.Curves = []uint16{0x1d}, []uint16{0x1d}
		case c.Suite == 0xc014 || c.Suite == 0xc02f:
			sEP.Cert = "rsa"
		case c.Suite == 0x00ae || c.Suite == 0xc037 || c.Suite == 0x00a8:
			cEP = scen.EP{PSK: "robust-psk-00001", PSKHint: "id", Suites: []uint16{c.Suite}}
			sEP = scen.EP{PSK: "robust-psk-00001", PSKHint: "h", Suites: []uint16{c.Suite}}
		}
		if c.CID > 0 {
			cEP.CID, sEP.CID = c.CID, c.CID
		}
		env := scen.NewEnv()
		env.Log = &scen.LogSink{Keep: os.Getenv("VERIF_DEBUG") != ""}
		p := scen.NewPair(env, &cEP, &sEP)
		defer p.Close()
		p.Net.MaxEvents = 6000
		p.Handshake(5 * time.Minute)
		if !(p.C.OK() && p.S.OK()) {
			r.Failf("C08|harness|handshake", "setup failed: %v %v", p.C.Err(), p.S.Err())

			return
		}
		p.C.StartReader()
		p.S.StartReader()
		time.Sleep(2 * time.Second)
		scen.Settle()
		from, to := "S", "C"
		if c.ToSrv {
			from, to = "C", "S"
		}
		var dec *ref.Decoder
		if is13 {
			dec = scen.Decoder13(p, gens)
		} else {
			dec = scen.Decoder12(p, env)
		}
		if dec == nil {
			r.Failf("C08|harness|decoder", "no keys")

			return
		}
		var cid []byte
		if c.CID > 0 {
			if l := env.CIDs[to]; len(l) > 0 {
				cid = l[len(l)-1]
			}
		}
		// keys of the impersonated (genuine, authenticated) sender
		var k12 ref.Keys12
		var k13 *ref.Keys13
		epoch13 := uint16(3)
		if is13 {
			su := ref.Suites13[c.Suite]
			// find the generation that decrypts a record sent by `from` in epoch 3
			for _, ev := range p.Net.EventsFrom(from) {
				recs, _ := scen.SplitDatagram(ev.Data, len(cid))
				for _, rc := range recs {
					if rc.Kind == "unified" && rc.Epoch == 3 && k13 == nil {
						for _, g := range gens {
							if g.Epoch == 3 {
								kk := ref.TrafficKeys13(su, g.Secret)
								if _, _, err := ref.Open13(kk, rc.Raw, len(cid), 0); err == nil {
									k13 = &kk
								}
							}
						}
					}
				}
			}
			if k13 == nil {
				// the sender has not used epoch 3 yet (client before its first write): make it write once
				sdr := p.C
				if from == "S" {
					sdr = p.S
				}
				_, _ = sdr.Conn.Write([]byte("prime"))
				scen.Settle()
				for _, ev := range p.Net.EventsFrom(from) {
					recs, _ := scen.SplitDatagram(ev.Data, len(cid))
					for _, rc := range recs {
						if rc.Kind == "unified" && rc.Epoch == 3 && k13 == nil {
							for _, g := range gens {
								if g.Epoch == 3 {
									kk := ref.TrafficKeys13(su, g.Secret)
									if _, _, err := ref.Open13(kk, rc.Raw, len(cid), 0); err == nil {
										k13 = &kk
									}
								}
							}
						}
					}
				}
			}
			if k13 == nil {
				r.Failf("C08|harness|keys13", "no epoch-3 keys for %s", from)

				return
			}
		} else {
			k12 = dec.SW
			if from == "C" {
				k12 = dec.CW
			}
		}
		// sequence numbers for the injected records: ahead of the genuine sender's but inside the
		// replay window, so that the sender's next genuine records are neither replays nor too old
		var maxSeq uint64
		for _, ev := range p.Net.EventsFrom(from) {
			ds, _ := dec.Decode(from, ev.Data, len(cid))
			for _, d := range ds {
				if d.Protect && d.OK && d.Seq > maxSeq && ((is13 && d.Epoch == 3) || (!is13 && d.Epoch == 1)) {
					maxSeq = d.Seq
				}
			}
		}
		for i, ar := range c.Records {
			var plain []byte
			switch ar.Kind {
			case "hsfrag":
				raw := ar.H.build(nil, 6, 0)
				plain = raw[13:]
			default:
				rnd := prng(ar.Seed)
				plain = make([]byte, ar.Len)
				for j := range plain {
					plain[j] = rnd()
				}
			}
			seq := maxSeq + 30 + uint64(i) //nolint:gosec
			var dg []byte
			var err error
			switch {
			case is13:
				inner := append(append([]byte(nil), plain...), byte(ar.Type))
				if ar.Kind == "zeros" {
					inner = make([]byte, ar.Len+1)
				}
				dg, err = ref.Seal13(*k13, epoch13, seq, cid, true, true, inner)
			case ar.Kind == "cbc-raw" && k12.Suite.Kind == "cbc":
				blocks := bytes.Repeat([]byte{byte(ar.Fill)}, 16*max(ar.Blocks, 1))
				dg, err = ref.SealCBCRaw(k12, ref.Hdr12{Type: byte(ar.Type), Version: [2]byte{0xfe, 0xfd}, Epoch: 1, Seq: seq}, blocks, bytes.Repeat([]byte{7}, 16))
			default:
				h := ref.Hdr12{Type: byte(ar.Type), Version: [2]byte{0xfe, 0xfd}, Epoch: 1, Seq: seq}
				pl := plain
				if len(cid) > 0 {
					pl = append(append([]byte(nil), plain...), byte(ar.Type))
					if ar.Kind == "zeros" {
						pl = make([]byte, ar.Len+1)
					}
					h.Type, h.CID = 25, cid
				}
				dg, err = ref.Seal12(k12, h, pl, bytes.Repeat([]byte{9}, 16))
			}
			if err != nil {
				continue
			}
			p.Net.Inject(from, to, dg)
			scen.Settle()
		}
		time.Sleep(time.Second)
		scen.Settle()
		if os.Getenv("VERIF_DEBUG") != "" {
			fmt.Println(p.Dump())
			fmt.Println(strings.Join(env.Log.Lines, "\n"))
		}
		if p.Net.HasStormed() {
			r.Failf("C08|datagram-storm|authenticated-content", "datagram storm after authenticated malformed content")

			return
		}
		// the endpoint is alive: Close returns and every goroutine ends (checked by the bubble); if the
		// connection is still open it must still carry data
		tgt := p.C
		other := p.S
		if c.ToSrv {
			tgt, other = p.S, p.C
		}
		if _, ended := tgt.ReadState(); !ended {
			base := len(tgt.ReadLog())
			if _, err := other.Conn.Write([]byte("after-malformed")); err == nil {
				scen.Settle()
				if _, ended := tgt.ReadState(); !ended && len(tgt.ReadLog()) == base {
					r.Failf("C08|wedged-after-authenticated-content|"+scen.SuiteName(c.Suite), "the connection stays open after the malformed protected records but no longer delivers genuine data (%+v)", c.Records)

					return
				}
			}
			r.Class("still-open")
		} else {
			r.Class("closed-cleanly")
		}
		r.NonTrivial()
		r.Class(scen.SuiteName(c.Suite))
	})
	reportBubble(berr, r)
}

var authSuites = []uint16{0xc02b, 0xc0ac, 0xcca9, 0xc00a, 0xc014, 0x00ae, 0xc037, 0x00a8, 0x1301, 0x1303}

func genAuth(t *rapid.T) AuthCase {
	c := AuthCase{Suite: rapid.SampledFrom(authSuites).Draw(t, "suite"), ToSrv: rapid.Bool().Draw(t, "tosrv")}
	if rapid.IntRange(0, 2).Draw(t, "cid") == 0 {
		c.CID = rapid.IntRange(1, 8).Draw(t, "cidv")
	}
	n := rapid.IntRange(1, 5).Draw(t, "n")
	for i := 0; i < n; i++ {
		ar := AuthRec{Type: rapid.SampledFrom([]int{20, 21, 22, 22, 22, 23, 24, 25, 26, 27, 0, 99}).Draw(t, "type"), Seed: rapid.IntRange(0, 1<<20).Draw(t, "seed")}
		switch rapid.IntRange(0, 5).Draw(t, "kind") {
		case 0, 1:
			ar.Kind = "bytes"
			ar.Len = rapid.SampledFrom([]int{0, 1, 2, 3, 8, 9, 10, 12, 13, 40}).Draw(t, "len")
		case 2, 3:
			ar.Kind, ar.Type = "hsfrag", 22
			ar.H = genHostile(t)
			ar.H.Kind = "hsfrag"
			if ar.H.MsgType == 0 && ar.H.MsgLen == 0 {
				ar.H.MsgType = rapid.SampledFrom([]int{1, 2, 4, 8, 11, 13, 15, 16, 20, 24}).Draw(t, "mt2")
			}
		case 4:
			ar.Kind = "zeros"
			ar.Len = rapid.IntRange(0, 40).Draw(t, "zlen")
		default:
			ar.Kind = "cbc-raw"
			ar.Blocks = rapid.IntRange(1, 5).Draw(t, "blocks")
			ar.Fill = rapid.IntRange(0, 255).Draw(t, "fill")
			ar.Type = 23
		}
		c.Records = append(c.Records, ar)
	}

	return c
}

// enumerated: CBC final blocks - every padding-length byte 0..255 against every record length up to 5 blocks
func enumCBC(_ string, yield func(AuthCase) bool) {
	for _, su := range []uint16{0xc00a, 0x00ae} {
		for _, cid := range []int{0, 4} {
			for blocks := 1; blocks <= 5; blocks++ {
				for fill0 := 0; fill0 < 256; fill0 += 16 {
					c := AuthCase{Suite: su, CID: cid, ToSrv: true}
					for f := fill0; f < fill0+16; f++ {
						c.Records = append(c.Records, AuthRec{Type: 23, Kind: "cbc-raw", Blocks: blocks, Fill: f})
					}
					if !yield(c) {
						return
					}
				}
			}
		}
	}
}

// ---- generator 3: floods and memory -----------------------------------------------------------

// FloodCase: many hostile datagrams of one kind interleaved with the genuine peer.
type FloodCase struct {
	Variant string `json:"variant"`
	Kind    string `json:"kind"` // future-epoch, far-future-fragments, garbage, big-fragments
	N       int    `json:"n"`
	During  bool   `json:"during"` // during the handshake (before the peer's first flight) or after establishment
}

func runFlood(c FloodCase, r *pbt.R) {
	berr := pbt.Bubble(func() {
		cEP, sEP, _ := epsFor(c.Variant)
		env := scen.NewEnv()
		env.Log = &scen.LogSink{Keep: os.Getenv("VERIF_DEBUG") != ""}
		p := scen.NewPair(env, &cEP, &sEP)
		defer p.Close()
		defer func() {
			if os.Getenv("VERIF_DEBUG") != "" {
				fmt.Println(p.Dump())
				fmt.Println(strings.Join(env.Log.Lines, "\n"))
			}
		}()
		p.Net.MaxEvents = 200000
		var before runtime.MemStats
		runtime.GC()
		runtime.ReadMemStats(&before)
		// the first epoch whose keys the target does not have yet
		next := 2
		if c.During {
			next = 1
		}
		nextMsgSeq := 0
		flood := func() {
			if !c.During {
				// message sequence numbers the client used so far (plaintext epoch 0 handshake records on the tap)
				for _, ev := range p.Net.EventsFrom("C") {
					recs, _ := scen.SplitDatagram(ev.Data, 0)
					for _, rc := range recs {
						if rc.Kind == "legacy" && rc.Type == scen.CTHandshake && rc.Epoch == 0 {
							fr, _ := scen.SplitHandshake(rc.Body)
							for _, f := range fr {
								if f.MsgSeq+1 > nextMsgSeq {
									nextMsgSeq = f.MsgSeq + 1
								}
							}
						}
					}
				}
				nextMsgSeq++ // the Finished (protected) took one more
			}
			for i := 0; i < c.N; i++ {
				var d []byte
				switch c.Kind {
				case "future-epoch":
					d = legacyRecord(23, 1+i%3, uint64(i), bytes.Repeat([]byte{0xee}, 900), 0) //nolint:gosec
				case "future-epoch-hs":
					// claims to be a handshake record of an epoch whose keys are not there yet
					d = legacyRecord(22, next, uint64(i), bytes.Repeat([]byte{0xe1}, 48), 0) //nolint:gosec
				case "future-epoch-ccs":
					d = legacyRecord(20, next, uint64(i), bytes.Repeat([]byte{0x01}, 48), 0) //nolint:gosec
				case "ccs-current-epoch":
					// a well-formed change_cipher_spec claiming the current read epoch (1 once established)
					d = legacyRecord(20, 1, uint64(1)<<40+uint64(i), []byte{0x01}, 0) //nolint:gosec
				case "future-epoch-small":
					d = legacyRecord(23, next, uint64(i), bytes.Repeat([]byte{0xe3}, 48), 0) //nolint:gosec
				case "fragment-regrow":
					// wave 1 parks one byte in each of 900 (message_seq, offset) slots, wave 2 sends the
					// same slots again with 8000 bytes each: the buffer's byte budget must still hold
					slot := i % 900
					seqNo := 300 + slot/30
					hs := []byte{11, 0, 0xff, 0xff, byte(seqNo >> 8), byte(seqNo), 0, byte((slot % 30) >> 8), byte(slot % 30), 0, 0, 1}
					body := []byte{0xab}
					if i >= 900 {
						hs[9], hs[10], hs[11] = 0, 0x1f, 0x40
						body = bytes.Repeat([]byte{0xab}, 8000)
					}
					d = legacyRecord(22, 0, uint64(i), append(hs, body...), 0) //nolint:gosec
				case "empty-plaintext-ack":
					// an unprotected ACK record with an empty list: no key needed, asks for nothing. (Low record
					// sequence numbers: an epoch 0 record with a HIGH number moves the epoch 0 replay window past the
					// genuine hellos - unauthenticated, parseable input, outside the letter of the property, see
					// DESIGN 5.3 - here the forged record merely takes the number of one genuine transmission.)
					d = legacyRecord(26, 0, ackSeq(c.During, i), []byte{0, 0}, 0)
				case "plaintext-ack-of-nothing":
					// ... and one that acknowledges record numbers nobody sent
					d = legacyRecord(26, 0, ackSeq(c.During, i), append([]byte{0, 16}, bytes.Repeat([]byte{0, 0, 0, 0, 0, 0, 0, 0}, 2)...), 0)
				case "tiny-future-fragments":
					// one byte each, message sequences far ahead: the fragment COUNT limit, reached with 25-byte datagrams
					seqNo := 1000 + i
					hs := []byte{11, 0, 0x10, 0, byte(seqNo >> 8), byte(seqNo), 0, 0, 0, 0, 0, 1}
					d = legacyRecord(22, 0, uint64(i), append(hs, 0xcd), 0) //nolint:gosec
				case "complete-messages":
					// whole, well-formed handshake messages (type 4..) with consecutive message sequences from the one
					// the endpoint awaits next (0 during the handshake; after it the peer's count is taken from the tap)
					seqNo := nextMsgSeq + i
					hs := []byte{byte(4 + i%3), 0, 0x1f, 0x40, byte(seqNo >> 8), byte(seqNo), 0, 0, 0, 0, 0x1f, 0x40}
					d = legacyRecord(22, 0, uint64(i), append(hs, bytes.Repeat([]byte{0xbe}, 8000)...), 0) //nolint:gosec
				case "far-future-fragments":
					hs := []byte{11, 0, 0x40, 0, byte((100 + i) >> 8), byte(100 + i), 0, 0, byte(i % 200), 0, 3, 0x84}
					d = legacyRecord(22, 0, uint64(i), append(hs, bytes.Repeat([]byte{0xcc}, 900)...), 0) //nolint:gosec
				case "big-fragments":
					hs := []byte{11, 0xff, 0xff, 0xff, 0, byte(5 + i%3), byte(i >> 8), byte(i), 0, 0, 3, 0x84}
					d = legacyRecord(22, 0, uint64(i), append(hs, bytes.Repeat([]byte{0xdd}, 900)...), 0) //nolint:gosec
				default:
					rnd := prng(i)
					d = make([]byte, 200)
					for j := range d {
						d[j] = rnd()
					}
				}
				p.Net.Inject("C", "S", d)
				if i%64 == 0 {
					scen.Settle()
				}
			}
			scen.Settle()
		}
		if c.During {
			sd := p.S.StartHandshake(10 * time.Minute)
			scen.Settle()
			flood()
			cd := p.C.StartHandshake(10 * time.Minute)
			<-sd
			<-cd
		} else {
			p.Handshake(10 * time.Minute)
			flood()
		}
		var after runtime.MemStats
		p.Net.DropTap() // the harness's own copy of the flood must not count
		runtime.GC()
		runtime.GC()
		runtime.ReadMemStats(&after)
		growth := int64(after.HeapAlloc) - int64(before.HeapAlloc) //nolint:gosec
		// documented limits: 2 MB reassembly + 100 queued records x 8 KiB receive buffer, plus slack for
		// the two connections' own state
		bound := int64(2_000_000 + 100*8192 + 5<<19)
		r.Classf("heap-growth<=%dMB", growth/(1<<20)+1)
		if growth > bound {
			r.Failf("C08|memory-beyond-limits|"+c.Kind, "heap grew by %d bytes across a flood of %d %s datagrams (bound %d)", growth, c.N, c.Kind, bound)

			return
		}
		harmlessFlood := c.Kind == "garbage" || strings.HasPrefix(c.Kind, "future-epoch") || c.Kind == "ccs-current-epoch" || strings.Contains(c.Kind, "plaintext-ack")
		// An established connection has no use for plaintext handshake fragments: whatever the flood parked in
		// the reassembly buffer, protected application data must still get through (a connection that drops
		// every record from then on is wedged). During the handshake the same fragments compete with the
		// genuine peer for the same buffer, which no endpoint can tell apart: only memory is judged there.
		if !c.During {
			harmlessFlood = true
		}
		if harmlessFlood && !strings.HasPrefix(c.Variant, "dual") {
			if !(p.C.OK() && p.S.OK()) {
				r.Failf("C08|stops-serving-after-flood|"+c.Kind, "handshake did not complete after a flood of %d %s datagrams: %v %v", c.N, c.Kind, p.C.Err(), p.S.Err())

				return
			}
			gotS, _, werr := p.Exchange([][]byte{[]byte("after-flood")}, nil)
			if werr != nil || len(gotS) != 1 {
				r.Failf("C08|no-data-after-flood|"+c.Kind, "data does not flow after the flood: %v %d", werr, len(gotS))

				return
			}
		}
		r.NonTrivial()
		r.Class(c.Kind)
	})
	reportBubble(berr, r)
}

func ackSeq(during bool, i int) uint64 {
	if during {
		return uint64(i) //nolint:gosec
	}

	return uint64(3000 + i) //nolint:gosec
}

func enumFlood(tier string, yield func(FloodCase) bool) {
	n := 2000
	if tier == "thorough" {
		n = 10000
	}
	for _, v := range []string{"v12", "v13"} {
		for _, k := range []string{"future-epoch", "future-epoch-small", "future-epoch-hs", "future-epoch-ccs", "far-future-fragments", "tiny-future-fragments", "complete-messages", "fragment-regrow", "big-fragments", "garbage"} {
			for _, during := range []bool{true, false} {
				if !yield(FloodCase{Variant: v, Kind: k, N: n, During: during}) {
					return
				}
			}
		}
		// a single unauthenticated datagram
		for _, k := range []string{"ccs-current-epoch", "future-epoch-ccs", "future-epoch-hs", "empty-plaintext-ack", "plaintext-ack-of-nothing"} {
			for _, during := range []bool{true, false} {
				if !yield(FloodCase{Variant: v, Kind: k, N: 1, During: during}) {
					return
				}
			}
		}
	}
}

func init() {
	pbt.Register(pbt.Prop[InjCase]{
		Name: "unauthenticated-injection", Quick: 2500, Thorough: 60000, Gen: genInj, Run: runInj, Crashy: true,
		Rule: "genuine handshake (9 variants) with a burst of 1..6 hostile datagrams injected towards client or server at a generated trigger point (datagram index of either side): grammar-built records " +
			"(every content type incl. unified headers x epochs x inconsistent lengths), handshake fragments for every message type with length/offset/fragment_length from boundary values and expected/past/future " +
			"message_seq, structure-aware mutations of the genuine datagrams seen so far, random bytes; oracle: no panic, no goroutine left blocked, no datagram storm, and when every injected datagram was " +
			"unparseable or unauthenticatable the handshake completes and data flows. non-trivial = injected datagram passed record-header parsing; distinct = whole case",
	})
	pbt.Register(pbt.Prop[InjCase]{
		Name: "injection-grid", Enum: enumInj, Exhaustive: true, Run: runInj, Crashy: true,
		Rule: "GRID (variant x target x trigger k=0..5 x 13 message types x body lengths 0..4, incl. zero-length messages with non-zero offsets): same oracle",
	})
	pbt.Register(pbt.Prop[InjCase]{
		Name: "injection-grid-cid", Enum: enumInjCID, Exhaustive: true, Run: runInj, Crashy: true,
		Rule: "GRID (connection-ID variants with 4, 8, 20-byte IDs x target x 4 trigger points x tls12_cid records of every body length 0..26 in epoch 1): same oracle",
	})
	pbt.Register(pbt.Prop[AuthCase]{
		Name: "authenticated-malformed", Quick: 2500, Thorough: 60000, Gen: genAuth, Run: runAuth, Crashy: true,
		Rule: "established session (10 suites x CID); the harness holds the keys (key log / hook) and sends correctly protected records whose plaintext is hostile: truncated/oversized alerts, handshake " +
			"fragments with boundary fields, ACK/RRC/KeyUpdate garbage, unknown inner types, all-zero inner plaintext, arbitrary CBC blocks; oracle: no panic, no storm, no blocked goroutine, and a connection " +
			"that stays open still delivers genuine data. distinct = whole case",
	})
	pbt.Register(pbt.Prop[AuthCase]{
		Name: "cbc-padding-grid", Enum: enumCBC, Exhaustive: true, Run: runAuth, Crashy: true,
		Rule: "GRID (2 CBC suites x CID on/off x 1..5 blocks x every byte value 0..255 filling the decrypted record): attacker-chosen final blocks under the genuine key",
	})
	pbt.Register(pbt.Prop[FloodCase]{
		Name: "floods", Enum: enumFlood, Exhaustive: true, Run: runFlood, Crashy: true,
		Rule: "floods of 2000 (thorough 10000) future-epoch records / fragments of far-future message sequences / fragments of 16 MB messages / garbage, before the client starts or after establishment; " +
			"oracle: heap growth after two GCs below the documented buffering limits (2 MB reassembly + 100 queued records) plus the harness's own tap, and the endpoint keeps serving after garbage / unauthenticatable floods",
	})
}
