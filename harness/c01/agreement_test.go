package c01

import (
	"bytes"
	"encoding/gob"
	"errors"
	"fmt"
	"os"
	"sort"
	"strings"
	"testing"
	"time"

	dtls "github.com/pion/dtls/v3"
	"github.com/pion/dtls/v3/internal/zzverif/lib/pbt"
	"github.com/pion/dtls/v3/internal/zzverif/lib/scen"
	"github.com/pion/dtls/v3/internal/zzverif/lib/vnet"
	"pgregory.net/rapid"
)

func TestMain(m *testing.M) { pbt.Main(m, "C01") }

func TestProps(t *testing.T) { pbt.RunAll(t) }

func TestReplay(t *testing.T) { pbt.Replay(t) }

// Case is one agreement scenario.
type Case struct {
	C       scen.EP      `json:"c"`
	S       scen.EP      `json:"s"`
	Meta    scen.Meta    `json:"meta"`
	FaultsC []vnet.Fault `json:"fc,omitempty"`
	FaultsS []vnet.Fault `json:"fs,omitempty"`
	Resume  bool         `json:"resume,omitempty"`
	C2S     []int        `json:"c2s"`
	S2C     []int        `json:"s2c"`
	Labels  []string     `json:"labels"`
	ExpLen  int          `json:"explen"`
}

func gen(t *rapid.T) Case {
	var c Case
	c.C, c.S, c.Meta = scen.GenPair(t, scen.GenOpts{})
	c.FaultsC = scen.GenFaults(t, "fc", 8)
	c.FaultsS = scen.GenFaults(t, "fs", 8)
	if os.Getenv("VERIF_NOFAULTS") != "" {
		c.FaultsC, c.FaultsS = nil, nil
	}
	if c.Meta.Version == 12 && rapid.IntRange(0, 3).Draw(t, "resume") == 0 {
		c.Resume = true
		c.C.Store, c.S.Store = "cs", "ss"
	}
	c.C2S = rapid.SliceOfN(rapid.IntRange(0, 1100), 1, 3).Draw(t, "c2s")
	c.S2C = rapid.SliceOfN(rapid.IntRange(0, 1100), 1, 3).Draw(t, "s2c")
	c.Labels = []string{"EXTRACTOR-dtls_srtp", rapid.StringMatching("[A-Za-z ]{1,20}").Draw(t, "label"), "EXPORTER-verif"}
	c.ExpLen = rapid.IntRange(1, 100).Draw(t, "explen")

	return c
}

func payload(tag byte, i, n int) []byte {
	b := make([]byte, n)
	x := uint32(tag)*7919 + uint32(i)*104729 + 17 //nolint:gosec
	for j := range b {
		x = x*1664525 + 1013904223
		b[j] = byte(x >> 24)
	}
	if n > 0 {
		b[0] = tag
	}
	if n > 1 {
		b[1] = byte(i)
	}

	return b
}

type mirrorState struct {
	Version               struct{ Major, Minor uint8 }
	LocalEpoch            uint16
	RemoteEpoch           uint16
	LocalRandom           [32]byte
	RemoteRandom          [32]byte
	CipherSuiteID         uint16
	MasterSecret          []byte
	SequenceNumber        uint64
	SRTPProtectionProfile uint16
	PeerSRTPMKI           []byte
	PeerCertificates      [][]byte
	IdentityHint          []byte
	SessionID             []byte
	LocalConnectionID     []byte
	RemoteConnectionID    []byte
	RRCNegotiated         bool
	IsClient              bool
	NegotiatedProtocol    string
}

func exported(st *dtls.State) (*mirrorState, error) {
	raw, err := st.MarshalBinary()
	if err != nil {
		return nil, err
	}
	var m mirrorState
	if err := gob.NewDecoder(bytes.NewReader(raw)).Decode(&m); err != nil {
		return nil, fmt.Errorf("mirror decode: %w", err)
	}

	return &m, nil
}

func eqChain(a, b [][]byte) bool {
	if len(a) != len(b) {
		return false
	}
	for i := range a {
		if !bytes.Equal(a[i], b[i]) {
			return false
		}
	}

	return true
}

const hsTimeout = 20 * time.Minute

func run(c Case, r *pbt.R) {
	var detail string
	berr := pbt.Bubble(func() {
		env := scen.NewEnv()
		env.Log = &scen.LogSink{Keep: os.Getenv("VERIF_DEBUG") != ""}
		if c.Resume {
			// first connection fills the stores
			p0 := scen.NewPair(env, &c.C, &c.S)
			p0.Handshake(hsTimeout)
			ok0 := p0.C.OK() && p0.S.OK()
			if !ok0 && os.Getenv("VERIF_DEBUG") != "" {
				fmt.Println(p0.Dump())
				fmt.Println(strings.Join(env.Log.Lines, "\n"))
			}
			p0.Close()
			scen.Settle()
			if !ok0 {
				r.Class(fmt.Sprintf("resume-setup-failed: C=%v S=%v", p0.C.Err(), p0.S.Err()))
				if os.Getenv("VERIF_PROBE") == "resume" {
					r.Failf("probe|resume-setup", "C=%v S=%v", p0.C.Err(), p0.S.Err())
				}

				return
			}
		}
		p := scen.NewPair(env, &c.C, &c.S)
		defer p.Close()
		defer func() {
			if os.Getenv("VERIF_DEBUG") != "" {
				fmt.Println(p.Dump())
				fmt.Println(strings.Join(env.Log.Lines, "\n"))
				fmt.Println("RESULT", detail)
			}
		}()
		p.Net.Faults["C"] = c.FaultsC
		p.Net.Faults["S"] = c.FaultsS
		p.Handshake(hsTimeout)
		if p.C.CtorErr != nil || p.S.CtorErr != nil {
			r.Class(fmt.Sprintf("ctor-error: C=%v S=%v", p.C.CtorErr, p.S.CtorErr))

			return
		}
		if !(p.C.OK() && p.S.OK()) {
			r.Class("not-both-ok")
			if p.C.OK() != p.S.OK() {
				r.Class("one-sided-ok")
			}
			detail = fmt.Sprintf("C=%v S=%v", p.C.Err(), p.S.Err())
			r.Class(fmt.Sprintf("fail v%d%s: %.90s", c.Meta.Version, c.Meta.Dual, detail))
			if pr := os.Getenv("VERIF_PROBE"); pr != "" && strings.Contains(detail, pr) {
				r.Failf("probe|fail", "%s", detail)
			}

			return
		}
		r.Class("both-ok")
		judge(&c, p, env, r)

	})
	if berr != nil {
		if berr.Deadlock {
			r.Failf("C01|bubble-deadlock", "goroutines left blocked: %v", berr.Value)
		} else {
			r.Failf(pbt.PanicSig("C01", []byte(berr.Stack)), "panic: %v\n%s", berr.Value, berr.Stack)
		}
	}
	_ = detail
}

func judge(c *Case, p *scen.Pair, env *scen.Env, r *pbt.R) {
	cs, ok1 := p.C.Conn.ConnectionState()
	ss, ok2 := p.S.Conn.ConnectionState()
	if !ok1 || !ok2 {
		r.Failf("C01|no-connection-state", "ConnectionState unavailable after success: %v %v", ok1, ok2)

		return
	}
	// version: 1.3 <=> state serialisation refused
	cm, cerr := exported(&cs)
	sm, serr := exported(&ss)
	c13 := errors.Is(cerr, dtls.ErrStateSerializationUnsupported)
	s13 := errors.Is(serr, dtls.ErrStateSerializationUnsupported)
	if (cerr != nil && !c13) || (serr != nil && !s13) {
		r.Failf("C01|state-export-error", "state export failed: %v / %v", cerr, serr)

		return
	}
	if c13 != s13 {
		r.Failf("C01|version-mismatch", "client 1.3=%v server 1.3=%v", c13, s13)

		return
	}
	ver := 12
	if c13 {
		ver = 13
	}
	if cs.CipherSuiteID != ss.CipherSuiteID {
		r.Failf("C01|suite-mismatch", "client %04x server %04x", uint16(cs.CipherSuiteID), uint16(ss.CipherSuiteID))

		return
	}
	// exporter
	for _, l := range c.Labels {
		a, e1 := cs.ExportKeyingMaterial(l, nil, c.ExpLen)
		b, e2 := ss.ExportKeyingMaterial(l, nil, c.ExpLen)
		if (e1 == nil) != (e2 == nil) {
			r.Failf("C01|exporter-error-mismatch", "label %q: %v / %v", l, e1, e2)

			return
		}
		if e1 == nil && (!bytes.Equal(a, b) || len(a) != c.ExpLen) {
			r.Failf("C01|exporter-mismatch", "label %q: client %x server %x", l, a, b)

			return
		}
	}
	if cs.NegotiatedProtocol != ss.NegotiatedProtocol {
		r.Failf("C01|alpn-mismatch", "client %q server %q", cs.NegotiatedProtocol, ss.NegotiatedProtocol)

		return
	}
	cp, cok := p.C.Conn.SelectedSRTPProtectionProfile()
	sp, sok := p.S.Conn.SelectedSRTPProtectionProfile()
	if cok != sok || cp != sp {
		r.Failf("C01|srtp-mismatch", "client %v,%v server %v,%v", cp, cok, sp, sok)

		return
	}
	if cok {
		smki, _ := p.S.Conn.RemoteSRTPMasterKeyIdentifier()
		cmki, _ := p.C.Conn.RemoteSRTPMasterKeyIdentifier()
		if !bytes.Equal(smki, c.C.MKI) {
			r.Failf("C01|srtp-mki", "server sees client MKI %x, client configured %x", smki, c.C.MKI)

			return
		}
		var want []byte
		if len(c.C.MKI) > 0 && bytes.Equal(c.C.MKI, c.S.MKI) {
			want = c.C.MKI
		}
		if !bytes.Equal(cmki, want) {
			r.Failf("C01|srtp-mki", "client sees server MKI %x, want %x", cmki, want)

			return
		}
	}
	// peer certificates
	resumed := c.Resume && isAbbreviated(p)
	if c.S.Cert != "" && !resumed {
		if want := scen.ExpectedServerChain(&c.S, c.C.ServerName); !eqChain(cs.PeerCertificates, want) {
			r.Failf("C01|peer-cert-client-view", "client sees %d certs, server presented %d (server certificates %v+%q, requested name %q)", len(cs.PeerCertificates), len(want), c.S.CertsBefore, c.S.Cert, c.C.ServerName)

			return
		}
		if len(c.S.CertsBefore) > 0 {
			r.Class("server-with-several-certificates")
		}
	}
	if c.C.CertCallback && len(env.AcceptableCAs) > 0 {
		// the client's view of the server's CertificateRequest: the names of exactly the CAs the server accepts
		var want []string
		if c.S.ClientCAs {
			want = append(want, string(scen.GetCreds().CA1.Cert.RawSubject))
			if c.S.ClientCAsMulti {
				want = append(want, string(scen.GetCreds().CA3.Cert.RawSubject))
			}
		}
		sort.Strings(want)
		for _, seen := range env.AcceptableCAs {
			var got []string
			for _, ca := range seen {
				got = append(got, string(ca))
			}
			sort.Strings(got)
			if strings.Join(got, "|") != strings.Join(want, "|") {
				r.Failf("C01|certificate-request-view", "client callback saw %d acceptable CA names %q, the server accepts %d: %q", len(got), got, len(want), want)

				return
			}
		}
		r.Class("client-certificate-callback")
	}
	if !resumed && c.Meta.Family != "psk" && c.Meta.Family != "epsk" {
		var want [][]byte
		if c.S.ClientAuth != 0 && c.C.Cert != "" {
			want = scen.GetCreds().ChainDER(c.C.Cert)
			if c.C.CertCallback && !c.S.ClientCAs {
				// the callback offers a certificate of another CA first; a server that names no CAs accepts any
				want = scen.GetCreds().ChainDER("client-untrusted")
			}
		}
		if !eqChain(ss.PeerCertificates, want) {
			r.Failf("C01|peer-cert-server-view", "server sees %d certs, client presented %d (cauth=%d cert=%q)", len(ss.PeerCertificates), len(want), c.S.ClientAuth, c.C.Cert)

			return
		}
	}
	// connection ids: exported state mirror (1.2)
	cidNeg := c.C.CID != 0 && c.S.CID != 0
	var cCID, sCID []byte // the IDs each side generated (what the *peer* must put on records)
	if cidNeg {
		if l := env.CIDs["C"]; len(l) > 0 {
			cCID = l[len(l)-1]
		}
		if l := env.CIDs["S"]; len(l) > 0 {
			sCID = l[len(l)-1]
		}
	}
	if ver == 12 {
		if !bytes.Equal(cm.LocalConnectionID, sm.RemoteConnectionID) || !bytes.Equal(cm.RemoteConnectionID, sm.LocalConnectionID) {
			r.Failf("C01|cid-not-mirrored", "client L=%x R=%x server L=%x R=%x", cm.LocalConnectionID, cm.RemoteConnectionID, sm.LocalConnectionID, sm.RemoteConnectionID)

			return
		}
		if !bytes.Equal(cm.LocalConnectionID, cCID) || !bytes.Equal(sm.LocalConnectionID, sCID) {
			r.Failf("C01|cid-not-generated-value", "client L=%x want %x; server L=%x want %x", cm.LocalConnectionID, cCID, sm.LocalConnectionID, sCID)

			return
		}
		if cm.Version.Minor != 0xfd || sm.Version.Minor != 0xfd {
			r.Failf("C01|version-mismatch", "exported version %v %v", cm.Version, sm.Version)

			return
		}
		if !bytes.Equal(cm.MasterSecret, sm.MasterSecret) || len(cm.MasterSecret) != 48 {
			r.Failf("C01|master-secret-mismatch", "master secrets differ or have wrong length %d/%d", len(cm.MasterSecret), len(sm.MasterSecret))

			return
		}
		if cm.LocalRandom != sm.RemoteRandom || cm.RemoteRandom != sm.LocalRandom {
			r.Failf("C01|randoms-not-mirrored", "hello randoms differ between the two views")

			return
		}
	}
	// application data both ways + CIDs on the wire (the network is reliable after the handshake)
	p.Net.Heal()
	scen.Settle()
	mark := len(p.Net.Events())
	var c2s, s2c [][]byte
	for i, n := range c.C2S {
		c2s = append(c2s, payload('c', i, n))
	}
	for i, n := range c.S2C {
		s2c = append(s2c, payload('s', i, n))
	}
	gotS, gotC, werr := p.Exchange(c2s, s2c)
	if werr != nil {
		r.Failf("C01|write-error", "write after successful handshake: %v", werr)

		return
	}
	if p.Net.HasStormed() {
		// the harness's datagram cap cut the network: nothing can be said about data flow
		r.Class("harness-datagram-cap-hit")

		return
	}
	if !sameSeq(gotS, c2s) {
		r.Failf("C01|data-c2s", "server read %d payloads, client wrote %d (or bytes differ)", len(gotS), len(c2s))

		return
	}
	if !sameSeq(gotC, s2c) {
		r.Failf("C01|data-s2c", "client read %d payloads, server wrote %d (or bytes differ)", len(gotC), len(s2c))

		return
	}
	evs := p.Net.Events()[mark:]
	for _, ev := range evs {
		var want []byte
		if ev.From == "C" {
			want = sCID
		} else {
			want = cCID
		}
		recs, ok := scen.SplitDatagram(ev.Data, len(want))
		if !ok {
			r.Failf("C01|wire-unparseable", "datagram from %s does not split into records with cid length %d: %x", ev.From, len(want), ev.Data[:min(len(ev.Data), 32)])

			return
		}
		for _, rec := range recs {
			isApp := false
			switch rec.Kind {
			case "unified":
				if ver != 13 {
					r.Failf("C01|wire-version", "unified-header record on a 1.2 session from %s", ev.From)

					return
				}
				isApp = true
				if (len(want) > 0) != rec.CBit || !bytes.Equal(rec.CID, want) {
					r.Failf("C01|wire-cid", "1.3 record from %s carries cid %x (C=%v), peer advertised %x", ev.From, rec.CID, rec.CBit, want)

					return
				}
			case "cid":
				if ver != 12 {
					r.Failf("C01|wire-version", "tls12_cid record on a 1.3 session")

					return
				}
				isApp = true
				if len(want) == 0 || !bytes.Equal(rec.CID, want) {
					r.Failf("C01|wire-cid", "record from %s carries cid %x, peer advertised %x", ev.From, rec.CID, want)

					return
				}
			default:
				if rec.Epoch >= 1 && rec.Type != scen.CTChangeCipherSpec {
					isApp = true
					if ver != 12 {
						r.Failf("C01|wire-version", "legacy protected record on a 1.3 session from %s", ev.From)

						return
					}
					if len(want) > 0 {
						r.Failf("C01|wire-cid", "protected record from %s without the peer's cid %x", ev.From, want)

						return
					}
				}
			}
			_ = isApp
		}
	}
	// non-triviality
	nt := false
	if p.Net.EffectiveFaults() > 0 {
		r.Class("faulted")
		nt = true
	}
	if cidNeg {
		r.Class("cid")
		nt = true
	}
	if resumed {
		r.Class("resumed")
		nt = true
	}
	if ver == 13 {
		r.Class("dtls13")
		nt = true
	} else {
		r.Class("dtls12")
	}
	if len(ss.PeerCertificates) > 0 {
		r.Class("client-cert")
		nt = true
	}
	if (c.C.MTU > 0 && c.C.MTU < 600) || (c.S.MTU > 0 && c.S.MTU < 600) {
		r.Class("small-mtu")
		nt = true
	}
	if cok {
		r.Class("srtp")
	}
	if cs.NegotiatedProtocol != "" {
		r.Class("alpn")
	}
	r.Class("family=" + c.Meta.Family)
	if c.Meta.Dual != "" {
		r.Class("dual-stack")
	}
	r.Class("suite=" + scen.SuiteName(uint16(cs.CipherSuiteID)))
	if nt {
		r.NonTrivial()
	}
}

func sameSeq(got, want [][]byte) bool {
	if len(got) != len(want) {
		return false
	}
	for i := range got {
		if !bytes.Equal(got[i], want[i]) {
			return false
		}
	}

	return true
}

// isAbbreviated: no Certificate / ServerKeyExchange from the server on the tap.
func isAbbreviated(p *scen.Pair) bool {
	for _, ev := range p.Net.EventsFrom("S") {
		for _, ht := range scen.PlainHSTypes(ev.Data) {
			if ht == scen.HTCertificate || ht == scen.HTServerKeyExchange || ht == scen.HTServerHelloDone {
				return false
			}
		}
	}

	return true
}

func init() {
	pbt.Register(pbt.Prop[Case]{
		Name: "agreement", Quick: 4000, Thorough: 120000, Gen: gen, Run: run, Crashy: true,
		Rule: "config pair drawn by construction around an intended agreement (version mode x family x suite lists x curves x EMS x client-auth x CID x SRTP x ALPN x MTU x hello-verify x resumption) " +
			"x fault mask over the first 8 datagrams of each direction x payloads; oracle on every case where both sides succeed: version, suite, exporter (3 labels), " +
			"ALPN, SRTP+MKI, peer chains, mirrored CIDs (exported state and on the wire), master secret and randoms mirrored (1.2), data both ways. " +
			"non-trivial = both succeeded and (>=1 effective fault or CID or resumed or 1.3 or client cert or MTU<600); distinct = whole case",
	})
}
