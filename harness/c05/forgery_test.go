package c05

import (
	"bytes"
	"encoding/binary"
	"fmt"
	"testing"
	"time"

	"github.com/pion/dtls/v3/internal/zzverif/lib/pbt"
	"github.com/pion/dtls/v3/internal/zzverif/lib/ref"
	"github.com/pion/dtls/v3/internal/zzverif/lib/scen"
	"pgregory.net/rapid"
)

func TestMain(m *testing.M) { pbt.Main(m, "C05") }

func TestProps(t *testing.T) { pbt.RunAll(t) }

func TestReplay(t *testing.T) { pbt.Replay(t) }

// Forgery describes one mutation of a held genuine record.
type Forgery struct {
	Rec  int    `json:"rec"`
	Kind string `json:"kind"` // bit, sweep, trunc, trunc-all, extend, field, splice, recombine
	A    int    `json:"a,omitempty"`
	B    int    `json:"b,omitempty"`
}

// Case is one session with held records and forgeries against them.
type Case struct {
	Suite   uint16    `json:"suite"`
	CIDC    int       `json:"cidc,omitempty"`
	CIDS    int       `json:"cids,omitempty"`
	Pad     int       `json:"pad,omitempty"`
	FromSrv bool      `json:"fromsrv,omitempty"`
	Sizes   []int     `json:"sizes"`
	Forg    []Forgery `json:"forg"`
	// Resumed (DTLS 1.2): both sides keep session stores (which keep the slices they are given); a first
	// connection is established and closed on both sides, the session under attack is the resumed one
	Resumed bool `json:"resumed,omitempty"`
	// FixedRandom: both sides are configured with a deterministic hello random generator
	FixedRandom bool `json:"fixedrandom,omitempty"`
}

var allSuites = []uint16{
	0xc0ac, 0xc0ae, 0xc02b, 0xc02c, 0xc00a, 0xcca9, 0xc02f, 0xc030, 0xc014, 0xcca8,
	0xc0a4, 0xc0a8, 0xc0a9, 0x00a8, 0x00ae, 0xccab, 0xc037, 0x1301, 0x1302, 0x1303,
}

func epsFor(c *Case) (cl, sv scen.EP) {
	cl = scen.EP{RootCA: 1, ServerName: scen.ServerName, Suites: []uint16{c.Suite}}
	sv = scen.EP{Cert: "ecdsa", Suites: []uint16{c.Suite}}
	switch {
	case c.Suite>>8 == 0x13:
		cl.MinVer, cl.MaxVer, sv.MinVer, sv.MaxVer = 13, 13, 13, 13
		cl.Curves, sv.Curves = []uint16{0x1d}, []uint16{0x1d}
	case c.Suite == 0xc02f || c.Suite == 0xc030 || c.Suite == 0xc014 || c.Suite == 0xcca8:
		sv.Cert = "rsa"
	case c.Suite == 0xc0a4 || c.Suite == 0xc0a8 || c.Suite == 0xc0a9 || c.Suite == 0x00a8 || c.Suite == 0x00ae || c.Suite == 0xccab || c.Suite == 0xc037:
		cl = scen.EP{PSK: "forgery-psk-key-1", PSKHint: "id", Suites: []uint16{c.Suite}}
		sv = scen.EP{PSK: "forgery-psk-key-1", PSKHint: "hint", Suites: []uint16{c.Suite}}
	}
	cl.CID, sv.CID = c.CIDC, c.CIDS
	cl.Padding, sv.Padding = c.Pad, c.Pad
	cl.FixedRandom, sv.FixedRandom = c.FixedRandom, c.FixedRandom

	return cl, sv
}

func payload(i, n int) []byte {
	b := make([]byte, n)
	x := uint32(i)*2246822519 + 374761393 //nolint:gosec
	for j := range b {
		x = x*1664525 + 1013904223
		b[j] = byte(x >> 24)
	}

	return b
}

type held struct {
	raw     []byte
	payload []byte
}

type session struct {
	p      *scen.Pair
	snd    *scen.Side
	rcv    *scen.Side
	recs   []held
	cidLen int // length of the connection ID the receiver expects on inbound records
	env    *scen.Env
}

// setup establishes a session. With shared != nil the session stores of an earlier setup are reused, so that a
// resumed session is a second resumption of the SAME stored session (same master secret).
func setup(c *Case, r *pbt.R, shared *scen.Env) *session {
	cEP, sEP := epsFor(c)
	env := scen.NewEnv()
	if c.Resumed && c.Suite>>8 != 0x13 {
		cEP.Store, sEP.Store = "cs", "ss"
	}
	if c.Resumed && c.Suite>>8 != 0x13 && shared != nil {
		env.Stores = shared.Stores
		r.Class("second-resumption-of-the-same-session")
	} else if c.Resumed && c.Suite>>8 != 0x13 {
		p0 := scen.NewPair(env, &cEP, &sEP)
		p0.Handshake(10 * time.Minute)
		ok0 := p0.C.OK() && p0.S.OK()
		p0.Close()
		scen.Settle()
		if !ok0 {
			r.Failf("C05|harness|handshake", "first connection failed (suite %04x)", c.Suite)

			return nil
		}
		r.Class("resumed-after-close")
	}
	p := scen.NewPair(env, &cEP, &sEP)
	p.Handshake(10 * time.Minute)
	if !(p.C.OK() && p.S.OK()) {
		p.Close()
		r.Failf("C05|harness|handshake", "setup handshake failed (suite %04x): %v %v", c.Suite, p.C.Err(), p.S.Err())

		return nil
	}
	s := &session{p: p, snd: p.C, rcv: p.S, env: env}
	if c.FromSrv {
		s.snd, s.rcv = p.S, p.C
	}
	if c.CIDC != 0 && c.CIDS != 0 {
		if l := env.CIDs[s.rcv.Name]; len(l) > 0 {
			s.cidLen = len(l[len(l)-1])
		}
	}
	s.rcv.StartReader()
	scen.Settle()
	p.Net.Blocked[s.snd.Name] = true
	mark := len(p.Net.Events())
	for i, n := range c.Sizes {
		if n >= 7900 {
			r.Class("payload-near-receive-buffer")
		}
		pl := payload(i, n)
		if _, err := s.snd.Conn.Write(pl); err != nil {
			p.Close()
			r.Failf("C05|harness|write", "write of %d bytes: %v", n, err)

			return nil
		}
		s.recs = append(s.recs, held{payload: pl})
	}
	scen.Settle()
	p.Net.Blocked[s.snd.Name] = false
	i := 0
	for _, ev := range p.Net.Events()[mark:] {
		if ev.From == s.snd.Name && i < len(s.recs) {
			s.recs[i].raw = ev.Data
			i++
		}
	}
	if i != len(s.recs) {
		p.Close()
		r.Failf("C05|harness|capture", "captured %d records for %d writes", i, len(s.recs))

		return nil
	}

	return s
}

// header layout of a genuine record
type layout struct {
	unified bool
	hdrLen  int
	cidOff  int
	cidLen  int
	seqOff  int
	seqLen  int
	lenOff  int // -1 if absent
}

func layoutOf(raw []byte, cidLen int) (layout, bool) {
	recs, ok := scen.SplitDatagram(raw, cidLen)
	if !ok || len(recs) != 1 {
		return layout{}, false
	}
	rc := recs[0]
	l := layout{hdrLen: rc.HdrLen, lenOff: -1}
	if rc.Kind == "unified" {
		l.unified = true
		off := 1
		if rc.CBit {
			l.cidOff, l.cidLen = off, cidLen
			off += cidLen
		}
		l.seqOff = off
		l.seqLen = 1
		if rc.SBit {
			l.seqLen = 2
		}
		off += l.seqLen
		if rc.LBit {
			l.lenOff = off
		}

		return l, true
	}
	l.seqOff, l.seqLen = 5, 6
	if rc.Kind == "cid" {
		l.cidOff, l.cidLen = 11, cidLen
	}
	l.lenOff = rc.HdrLen - 2

	return l, true
}

// claimsUnprotected reports whether a forged datagram's first record header claims epoch 0 or
// change_cipher_spec (outside the property: "claims protection").
func claimsUnprotected(d []byte) bool {
	if len(d) == 0 {
		return true
	}
	if d[0]&0xe0 == 0x20 {
		return false // unified header records are always protected
	}
	if len(d) < 5 {
		return false
	}
	if d[0] == scen.CTChangeCipherSpec {
		return true
	}

	return binary.BigEndian.Uint16(d[3:]) == 0
}

type forged struct {
	data []byte
	key  string
	kind string
}

func (s *session) expand(f Forgery, other *session) []forged {
	if f.Rec < 0 || f.Rec >= len(s.recs) {
		return nil
	}
	raw := s.recs[f.Rec].raw
	lay, ok := layoutOf(raw, s.cidLen)
	if !ok {
		return nil
	}
	cp := func() []byte { return append([]byte(nil), raw...) }
	var out []forged
	add := func(d []byte, kind, key string) { out = append(out, forged{d, key, kind}) }
	switch f.Kind {
	case "bit":
		i := f.A % (len(raw) * 8)
		d := cp()
		d[i/8] ^= 1 << (i % 8)
		region := "body"
		if i/8 < lay.hdrLen {
			region = "header"
		}
		add(d, "bitflip-"+region, fmt.Sprintf("bit%d", i))
	case "sweep": // every bit of the header, of the first/last 16 body bytes
		lim := func(i int) bool { return i < lay.hdrLen+16 || i >= len(raw)-16 }
		for i := 0; i < len(raw); i++ {
			if !lim(i) {
				continue
			}
			for b := 0; b < 8; b++ {
				d := cp()
				d[i] ^= 1 << b
				region := "body"
				if i < lay.hdrLen {
					region = "header"
				}
				add(d, "bitflip-"+region, fmt.Sprintf("bit%d", i*8+b))
			}
		}
	case "legacy-frame":
		// Records made from nothing, in the 13-byte legacy framing, claiming a protected epoch and a
		// content type other than change_cipher_spec, with a well-formed PLAINTEXT body: whatever the
		// version of the session, no key was used, so they must vanish.
		bodies := [][]byte{
			{21, 1, 0},  // alert: warning close_notify
			{21, 2, 40}, // alert: fatal handshake_failure
			{21, 2, 20}, // alert: fatal bad_record_mac
			{26, 0, 0},  // ACK with an empty record list
			{23, 'f', 'o', 'r', 'g', 'e', 'd'},
			{22, 20, 0, 0, 12, 0, 9, 0, 0, 0, 0, 0, 12, 1, 2, 3, 4, 5, 6, 7, 8, 9, 10, 11, 12}, // Finished
			{22, 24, 0, 0, 1, 0, 9, 0, 0, 0, 0, 0, 1, 0},                                       // KeyUpdate
		}
		for bi, b := range bodies {
			for _, ep := range []int{1, 2, 3} {
				seq := uint64(1)<<20 + uint64(f.A%1000) + uint64(bi*16+ep) //nolint:gosec
				d := []byte{b[0], 0xfe, 0xfd, byte(ep >> 8), byte(ep), byte(seq >> 40), byte(seq >> 32), byte(seq >> 24), byte(seq >> 16), byte(seq >> 8), byte(seq), byte((len(b) - 1) >> 8), byte(len(b) - 1)}
				d = append(d, b[1:]...)
				add(d, "legacy-frame-plaintext", fmt.Sprintf("legacy-t%d-e%d", b[0], ep))
			}
		}
	case "public-keys":
		// what an outsider can compute: record keys derived from an ALL-ZERO master secret and the two hello
		// randoms, which cross the network in clear (DTLS 1.2, legacy framing)
		cr, sr, suite, ok := scen.HelloRandoms(s.p)
		if !ok || lay.unified || s.cidLen > 0 {
			break
		}
		dec := ref.NewDecoder12(suite, make([]byte, 48), cr, sr)
		if dec == nil {
			break
		}
		k := dec.SW
		if s.snd.Name == "C" {
			k = dec.CW
		}
		for i, seq := range []uint64{binary.BigEndian.Uint64(append([]byte{0, 0}, raw[5:11]...)), 1<<30 + uint64(f.A%1000)} { //nolint:gosec
			h := ref.Hdr12{Type: 23, Version: [2]byte{0xfe, 0xfd}, Epoch: 1, Seq: seq}
			if d, err := ref.Seal12(k, h, []byte("forged-from-public-values"), bytes.Repeat([]byte{7}, 16)); err == nil {
				add(d, "public-keys", fmt.Sprintf("zero-master-%d", i))
			}
		}
	case "trunc":
		n := f.A % len(raw)
		add(cp()[:n], "truncate", fmt.Sprintf("trunc%d", n))
	case "trunc-all":
		for n := 1; n < len(raw); n++ {
			add(cp()[:n], "truncate", fmt.Sprintf("trunc%d", n))
		}
	case "extend":
		n := 1 + f.A%32
		d := append(cp(), bytes.Repeat([]byte{byte(f.B)}, n)...)
		if lay.lenOff < 0 {
			// no explicit length: the appended bytes become part of the record
			add(d, "extend", fmt.Sprintf("ext%d", n))
		}
		// With an explicit length the appended bytes are a second record (or trailing junk) behind the
		// UNTOUCHED genuine record, which may legitimately be delivered: not a forgery of that record.
		// The length field is repaired instead, so the extended record is self-consistent.
		if lay.lenOff >= 0 {
			d2 := append([]byte(nil), d...)
			binary.BigEndian.PutUint16(d2[lay.lenOff:], uint16(len(d2)-lay.hdrLen)) //nolint:gosec
			add(d2, "extend+len", fmt.Sprintf("extl%d", n))
		}
	case "field":
		s.fieldMutations(raw, lay, f, add)
	case "splice":
		if other != nil && f.Rec < len(other.recs) {
			add(append([]byte(nil), other.recs[f.Rec].raw...), "splice-other-session", "splice")
			// header of ours with the other session's body, and vice versa
			o := other.recs[f.Rec].raw
			if len(o) == len(raw) {
				d := cp()
				copy(d[lay.hdrLen:], o[lay.hdrLen:])
				add(d, "splice-body", "splice-body")
				d2 := append([]byte(nil), o...)
				copy(d2[lay.hdrLen:], raw[lay.hdrLen:])
				add(d2, "splice-header", "splice-header")
			}
		}
	case "recombine":
		j := f.A % len(s.recs)
		if j != f.Rec {
			o := s.recs[j].raw
			olay, ok := layoutOf(o, s.cidLen)
			if ok {
				d := append(append([]byte(nil), raw[:lay.hdrLen]...), o[olay.hdrLen:]...)
				if lay.lenOff >= 0 {
					binary.BigEndian.PutUint16(d[lay.lenOff:], uint16(len(d)-lay.hdrLen)) //nolint:gosec
				}
				add(d, "recombine", fmt.Sprintf("recomb%d", j))
			}
		}
	}

	return out
}

func (s *session) fieldMutations(raw []byte, lay layout, f Forgery, add func([]byte, string, string)) {
	cp := func() []byte { return append([]byte(nil), raw...) }
	if lay.unified {
		switch f.A % 6 {
		case 0: // C/S/L/E bits and the fixed bits
			for b := 0; b < 8; b++ {
				d := cp()
				d[0] ^= 1 << b
				add(d, "field-unified-bits", fmt.Sprintf("ubit%d", b))
			}
		case 1: // sequence number neighbours
			for _, delta := range []int{1, -1, 2, 256} {
				d := cp()
				if lay.seqLen == 2 {
					v := binary.BigEndian.Uint16(d[lay.seqOff:])
					binary.BigEndian.PutUint16(d[lay.seqOff:], v+uint16(delta)) //nolint:gosec
				} else {
					d[lay.seqOff] += byte(delta)
				}
				add(d, "field-seq", fmt.Sprintf("seq%+d", delta))
			}
		case 2: // length ±1
			if lay.lenOff >= 0 {
				for _, delta := range []int{1, -1} {
					d := cp()
					v := binary.BigEndian.Uint16(d[lay.lenOff:])
					binary.BigEndian.PutUint16(d[lay.lenOff:], v+uint16(delta)) //nolint:gosec
					add(d, "field-length", fmt.Sprintf("len%+d", delta))
				}
			}
		case 3: // cid bytes
			for i := 0; i < lay.cidLen; i++ {
				d := cp()
				d[lay.cidOff+i] ^= 0x01
				add(d, "field-cid", fmt.Sprintf("cid%d", i))
			}
		case 4: // epoch bits
			for e := 0; e < 4; e++ {
				d := cp()
				d[0] = d[0]&^3 | byte(e)
				if !bytes.Equal(d, raw) {
					add(d, "field-epoch", fmt.Sprintf("ep%d", e))
				}
			}
		case 5: // drop the length field (L=0) keeping the body
			if lay.lenOff >= 0 {
				d := append(append([]byte(nil), raw[:lay.lenOff]...), raw[lay.lenOff+2:]...)
				d[0] &^= 0x04
				add(d, "field-nolength", "nolen")
			}
		}

		return
	}
	switch f.A % 6 {
	case 0: // content type
		for _, t := range []byte{21, 22, 23, 25, 26, 24, 0, 255} {
			d := cp()
			if d[0] != t {
				d[0] = t
				add(d, "field-type", fmt.Sprintf("type%d", t))
			}
		}
	case 1: // version
		for _, v := range [][2]byte{{0xfe, 0xff}, {0xfe, 0xfc}, {0x03, 0x03}, {0xfe, 0xfe}} {
			d := cp()
			d[1], d[2] = v[0], v[1]
			add(d, "field-version", fmt.Sprintf("ver%x%x", v[0], v[1]))
		}
	case 2: // epoch neighbours
		for _, delta := range []int{1, -1, 2, 0x100} {
			d := cp()
			v := binary.BigEndian.Uint16(d[3:])
			binary.BigEndian.PutUint16(d[3:], v+uint16(delta)) //nolint:gosec
			add(d, "field-epoch", fmt.Sprintf("ep%+d", delta))
		}
	case 3: // sequence neighbours and another held record's number
		for _, delta := range []int{1, -1, 2, 1 << 16} {
			d := cp()
			v := binary.BigEndian.Uint64(append([]byte{0, 0}, d[5:11]...))
			v += uint64(delta) //nolint:gosec
			var b [8]byte
			binary.BigEndian.PutUint64(b[:], v)
			copy(d[5:11], b[2:])
			add(d, "field-seq", fmt.Sprintf("seq%+d", delta))
		}
		j := f.B % len(s.recs)
		if !bytes.Equal(s.recs[j].raw[5:11], raw[5:11]) {
			d := cp()
			copy(d[5:11], s.recs[j].raw[5:11])
			add(d, "field-seq-other", fmt.Sprintf("seqof%d", j))
		}
	case 4: // length ±1 (datagram unchanged, and datagram adjusted)
		for _, delta := range []int{1, -1} {
			d := cp()
			v := binary.BigEndian.Uint16(d[lay.lenOff:])
			binary.BigEndian.PutUint16(d[lay.lenOff:], v+uint16(delta)) //nolint:gosec
			add(d, "field-length", fmt.Sprintf("len%+d", delta))
			if delta == 1 {
				add(append(d, 0), "field-length+body", "len+1b")
			} else {
				add(d[:len(d)-1], "field-length+body", "len-1b")
			}
		}
	case 5: // cid bytes; cid stripped (plain application_data header with the same body)
		for i := 0; i < lay.cidLen; i++ {
			d := cp()
			d[lay.cidOff+i] ^= 0x80
			add(d, "field-cid", fmt.Sprintf("cid%d", i))
		}
		if lay.cidLen > 0 {
			d := append(append([]byte(nil), raw[:11]...), raw[11+lay.cidLen:]...)
			d[0] = 23
			add(d, "field-cid-stripped", "nocid")
		}
	}
}

func run(c Case, r *pbt.R) {
	berr := pbt.Bubble(func() {
		s := setup(&c, r, nil)
		if s == nil {
			return
		}
		defer s.p.Close()
		var other *session
		for _, f := range c.Forg {
			if f.Kind == "splice" {
				other = setup(&c, r, s.env)
				if other == nil {
					return
				}
				defer other.p.Close()

				break
			}
		}
		genuine := map[string]bool{}
		for _, h := range s.recs {
			genuine[string(h.raw)] = true
		}
		suite := scen.SuiteName(c.Suite)
		layoutCls := "nocid"
		if s.cidLen > 0 {
			layoutCls = "cid"
		}
		if c.Pad > 0 {
			layoutCls += "+pad"
		}
		for j := range s.recs {
			for _, f := range c.Forg {
				if f.Rec != j {
					continue
				}
				for _, fg := range s.expand(f, other) {
					if genuine[string(fg.data)] || len(fg.data) == 0 {
						continue
					}
					if claimsUnprotected(fg.data) {
						r.Excluded(1)

						continue
					}
					baseReads := len(s.rcv.ReadLog())
					baseEmit := s.p.Net.Sent(s.rcv.Name)
					baseSoft := len(s.rcv.SoftErrors())
					s.p.Net.Inject(s.snd.Name, s.rcv.Name, fg.data)
					scen.Settle()
					if n := len(s.rcv.ReadLog()); n != baseReads {
						got := s.rcv.ReadLog()[n-1]
						r.Failf("C05|forgery-delivered|"+fg.kind, "%s %s: forged record (%s of record %d, %d bytes) made Read return %d bytes", suite, layoutCls, fg.key, j, len(fg.data), len(got))

						return
					}
					if n := s.p.Net.Sent(s.rcv.Name); n != baseEmit {
						ev := s.p.Net.EventsFrom(s.rcv.Name)
						r.Failf("C05|forgery-answered|"+fg.kind, "%s %s: forged record (%s of record %d) made the receiver emit %s", suite, layoutCls, fg.key, j, scen.Describe(ev[len(ev)-1].Data, 0))

						return
					}
					if se := s.rcv.SoftErrors(); len(se) != baseSoft {
						r.Failf("C05|forgery-surfaced-error|"+fg.kind, "%s %s: forged record (%s of record %d, first byte %#02x) made Read return the error %q", suite, layoutCls, fg.key, j, fg.data[0], se[len(se)-1])

						return
					}
					if _, ended := s.rcv.ReadState(); ended {
						r.Failf("C05|forgery-closed|"+fg.kind, "%s %s: forged record (%s of record %d) ended the connection", suite, layoutCls, fg.key, j)

						return
					}
					_, wellFormed := scen.SplitDatagram(fg.data, s.cidLen)
					r.Eval(fmt.Sprintf("%04x|%s|%v|%d|%s|%s", c.Suite, layoutCls, c.FromSrv, len(s.recs[j].payload), fg.kind, fg.key), wellFormed, suite, layoutCls, fg.kind)
				}
			}
			// now the genuine record: exactly once, byte-identical
			baseReads := len(s.rcv.ReadLog())
			s.p.Net.Inject(s.snd.Name, s.rcv.Name, s.recs[j].raw)
			scen.Settle()
			log := s.rcv.ReadLog()
			if len(log) != baseReads+1 || !bytes.Equal(log[len(log)-1], s.recs[j].payload) {
				r.Failf("C05|genuine-not-delivered", "%s %s: after the forgeries the genuine record %d (%d bytes payload) produced %d reads", suite, layoutCls, j, len(s.recs[j].payload), len(log)-baseReads)

				return
			}
		}
		if len(s.rcv.ReadLog()) != len(s.recs) {
			r.Failf("C05|read-count", "reads %d != writes %d", len(s.rcv.ReadLog()), len(s.recs))
		}
	})
	if berr != nil {
		if berr.Deadlock {
			r.Failf("C05|bubble-deadlock", "goroutines left blocked: %v", berr.Value)
		} else {
			r.Failf(pbt.PanicSig("C05", []byte(berr.Stack)), "panic: %v\n%s", berr.Value, berr.Stack)
		}
	}
}

func genSizes(t *rapid.T) []int {
	k := rapid.IntRange(1, 4).Draw(t, "k")
	out := make([]int, k)
	for i := range out {
		switch rapid.IntRange(0, 6).Draw(t, "szk") {
		case 6:
			// just under the receive buffer (8192 bytes for the whole datagram): the largest record overhead of any
			// layout here is 13 header + 8 connection ID + 16 IV + 32 MAC + 16 CBC padding + 1 inner type + 30 padding
			out[i] = rapid.IntRange(7900, 8192-116).Draw(t, "huge")
		case 0:
			out[i] = rapid.SampledFrom([]int{0, 1, 15, 16, 17, 31, 32, 33}).Draw(t, "edge")
		case 1:
			out[i] = rapid.IntRange(1000, 1150).Draw(t, "big")
		default:
			out[i] = rapid.IntRange(0, 300).Draw(t, "sz")
		}
	}

	return out
}

func genCase(t *rapid.T) Case {
	c := Case{Suite: rapid.SampledFrom(allSuites).Draw(t, "suite"), FromSrv: rapid.Bool().Draw(t, "fromsrv")}
	switch rapid.IntRange(0, 3).Draw(t, "cidmode") {
	case 1:
		c.CIDC, c.CIDS = rapid.IntRange(1, 8).Draw(t, "cidc"), rapid.IntRange(1, 8).Draw(t, "cids")
	case 2:
		c.CIDC, c.CIDS = rapid.IntRange(1, 8).Draw(t, "cidc"), -1
	case 3:
		c.CIDC, c.CIDS = -1, rapid.IntRange(1, 8).Draw(t, "cids")
	}
	if c.CIDC != 0 && rapid.Bool().Draw(t, "padon") {
		c.Pad = rapid.IntRange(1, 30).Draw(t, "pad")
	}
	c.Sizes = genSizes(t)
	c.Resumed = rapid.IntRange(0, 3).Draw(t, "resumed") == 0
	c.FixedRandom = rapid.IntRange(0, 3).Draw(t, "fixedrandom") == 0
	nf := rapid.IntRange(2, 10).Draw(t, "nf")
	for i := 0; i < nf; i++ {
		f := Forgery{Rec: rapid.IntRange(0, len(c.Sizes)-1).Draw(t, "rec")}
		f.Kind = rapid.SampledFrom([]string{"bit", "bit", "sweep", "trunc", "extend", "field", "field", "field", "splice", "recombine", "trunc-all", "legacy-frame", "public-keys"}).Draw(t, "kind")
		f.A = rapid.IntRange(0, 1<<20).Draw(t, "a")
		f.B = rapid.IntRange(0, 255).Draw(t, "b")
		c.Forg = append(c.Forg, f)
	}

	return c
}

// grid: every suite x {no cid, cid both ways} x every field mutation family + header sweep
func enumGrid(_ string, yield func(Case) bool) {
	for _, su := range allSuites {
		for _, cid := range []int{0, 4} {
			for _, fromSrv := range []bool{false, true} {
				c := Case{Suite: su, CIDC: cid, CIDS: cid, FromSrv: fromSrv, Sizes: []int{20, 0, 33}}
				if cid != 0 {
					c.Pad = 3
				}
				for rec := 0; rec < 3; rec++ {
					for a := 0; a < 6; a++ {
						c.Forg = append(c.Forg, Forgery{Rec: rec, Kind: "field", A: a, B: rec + 1})
					}
					c.Forg = append(c.Forg, Forgery{Rec: rec, Kind: "sweep"}, Forgery{Rec: rec, Kind: "trunc-all"},
						Forgery{Rec: rec, Kind: "splice"}, Forgery{Rec: rec, Kind: "recombine", A: rec + 1}, Forgery{Rec: rec, Kind: "extend", A: 0, B: 0}, Forgery{Rec: rec, Kind: "legacy-frame", A: rec})
				}
				if !yield(c) {
					return
				}
				if cid == 0 && su>>8 != 0x13 {
					// the resumed session after both ends closed the first one, attacked with keys from public values
					c2 := Case{Suite: su, FromSrv: fromSrv, Sizes: []int{20, 33}, Resumed: true, FixedRandom: true}
					for rec := 0; rec < 2; rec++ {
						c2.Forg = append(c2.Forg, Forgery{Rec: rec, Kind: "public-keys", A: rec}, Forgery{Rec: rec, Kind: "field", A: rec, B: 1}, Forgery{Rec: rec, Kind: "splice"})
					}
					if !yield(c2) {
						return
					}
				}
			}
		}
	}
}

func init() {
	rule := "established session per suite x CID layout x padding x direction; the sender's records are held; each forgery (single-bit flip, header field " +
		"neighbour values, truncation, extension, splice from a parallel session with identical configuration, header/body recombination) is injected: " +
		"oracle = Read log unchanged, receiver emits nothing, connection stays open, then the genuine record is delivered exactly once byte-identical. " +
		"Forgeries claiming epoch 0 / change_cipher_spec are excluded and counted. non-trivial = forged datagram still splits into well-formed records; " +
		"distinct = (suite, layout, direction, payload size, mutation)"
	pbt.Register(pbt.Prop[Case]{Name: "forgeries", Quick: 600, Thorough: 16000, Gen: genCase, Run: run, Crashy: true, Rule: "SAMPLED: " + rule})
	pbt.Register(pbt.Prop[Case]{Name: "forgery-grid", Enum: enumGrid, Exhaustive: true, Run: run, Crashy: true,
		Rule: "GRID (all 20 suites x {no CID, CID+padding} x direction x all field families + every header/edge bit + every truncation + splice + recombination): " + rule})
}
