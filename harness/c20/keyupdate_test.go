package c20

import (
	"bytes"
	"context"
	"encoding/binary"
	"fmt"
	"os"
	"strings"
	"sync"
	"testing"
	"time"

	dtls "github.com/pion/dtls/v3"
	"github.com/pion/dtls/v3/internal/state"
	"github.com/pion/dtls/v3/internal/zzverif/lib/pbt"
	"github.com/pion/dtls/v3/internal/zzverif/lib/ref"
	"github.com/pion/dtls/v3/internal/zzverif/lib/scen"
	"github.com/pion/dtls/v3/internal/zzverif/lib/vnet"
	"pgregory.net/rapid"
)

func TestMain(m *testing.M) { pbt.Main(m, "C20") }

func TestProps(t *testing.T) { pbt.RunAll(t) }

func TestReplay(t *testing.T) { pbt.Replay(t) }

// Op is one operation of one side's schedule.
type Op struct {
	Kind    string `json:"kind"` // update, write, idle
	Request bool   `json:"req,omitempty"`
	N       int    `json:"n,omitempty"`   // write: number of payloads; idle: milliseconds
	Par     bool   `json:"par,omitempty"` // run concurrently with the next op of this side
}

// Case: schedules for both sides plus a fault script on the post-handshake datagrams.
type Case struct {
	Suite  uint16       `json:"suite"`
	CID    int          `json:"cid,omitempty"`
	OpsC   []Op         `json:"opsc"`
	OpsS   []Op         `json:"opss"`
	FC     []vnet.Fault `json:"fc,omitempty"`
	FS     []vnet.Fault `json:"fs,omitempty"`
	Starve string       `json:"starve,omitempty"` // "", "C", "S": everything sent TO that side is dropped (total ACK starvation)
	// Forge: while the operations run, an off-path sender keeps injecting unprotected (epoch 0) ACK records into both
	// sides which list every plausible record number of a pending KeyUpdate (epochs 3..8, sequence numbers 0..47)
	Forge bool `json:"forge,omitempty"`
	// LoseNST: the first LoseNST transmissions of the server's NewSessionTicket are lost and the
	// operation lists start at once, while that post-handshake flight is still unacknowledged
	LoseNST int `json:"losenst,omitempty"`
}

type updRec struct {
	side        string
	start, end  time.Duration
	err         error
	tapAtReturn int
}

func run(c Case, r *pbt.R) {
	var gens []scen.Gen13
	stop := scen.CaptureGens13(&gens)
	defer stop()
	berr := pbt.Bubble(func() {
		cEP := scen.EP{RootCA: 1, ServerName: scen.ServerName, Suites: []uint16{c.Suite}, MinVer: 13, MaxVer: 13, Curves: []uint16{0x1d}}
		sEP := scen.EP{Cert: "ecdsa", Suites: []uint16{c.Suite}, MinVer: 13, MaxVer: 13, Curves: []uint16{0x1d}}
		if c.CID > 0 {
			cEP.CID, sEP.CID = c.CID, c.CID
		}
		env := scen.NewEnv()
		env.Log = &scen.LogSink{Keep: os.Getenv("VERIF_DEBUG") != ""}
		p := scen.NewPair(env, &cEP, &sEP)
		defer p.Close()
		nstLost := 0
		if c.LoseNST > 0 {
			p.Net.FaultFn = func(ev *vnet.Event) *vnet.Fault {
				// the ticket is the server's only epoch-3 datagram of that size (its ACKs are ~35 bytes)
				if ev.From == "S" && len(ev.Data) >= 60 && ev.Data[0]&0xe0 == 0x20 && ev.Data[0]&0x03 == 3 && nstLost < c.LoseNST {
					nstLost++

					return &vnet.Fault{Kind: vnet.Drop}
				}

				return nil
			}
		}
		p.Handshake(10 * time.Minute)
		if !(p.C.OK() && p.S.OK()) {
			r.Failf("C20|harness|handshake", "setup failed: %v %v", p.C.Err(), p.S.Err())

			return
		}
		p.C.StartReader()
		p.S.StartReader()
		if c.LoseNST == 0 {
			time.Sleep(3 * time.Second) // let the NewSessionTicket / ACK exchange finish
		} else {
			r.Class("ticket-unacknowledged-at-start")
		}
		scen.Settle()
		baseIdx := map[string]int{"C": p.Net.Sent("C"), "S": p.Net.Sent("S")}
		hsEvents := len(p.Net.Events())
		masks := map[string][]vnet.Fault{"C": c.FC, "S": c.FS}
		p.Net.FaultFn = func(ev *vnet.Event) *vnet.Fault {
			to := "S"
			if ev.From == "S" {
				to = "C"
			}
			if c.LoseNST > 0 && ev.From == "S" && len(ev.Data) >= 60 && len(ev.Data) <= 120 && ev.Data[0]&0xe0 == 0x20 && ev.Data[0]&0x03 == 3 && nstLost < c.LoseNST {
				nstLost++

				return &vnet.Fault{Kind: vnet.Drop}
			}
			if c.Starve == to {
				return &vnet.Fault{Kind: vnet.Drop}
			}
			i := ev.Idx - baseIdx[ev.From]
			if m := masks[ev.From]; i >= 0 && i < len(m) {
				f := m[i]
				if f.Kind == vnet.Hold {
					f.Until = ev.Idx + max(f.Until, 1)
				}

				return &f
			}

			return nil
		}
		var mu sync.Mutex
		var updates []*updRec
		written := map[string][][]byte{}
		payloadN := 0
		sides := map[string]*scen.Side{"C": p.C, "S": p.S}
		var wg sync.WaitGroup
		runOps := func(name string, ops []Op) {
			defer wg.Done()
			sd := sides[name]
			var par sync.WaitGroup
			for _, op := range ops {
				op := op
				do := func() {
					switch op.Kind {
					case "update":
						u := &updRec{side: name, start: p.Net.Now()}
						ctx, cancel := context.WithTimeout(context.Background(), time.Minute)
						err := sd.Conn.UpdateKeys(ctx, dtls.KeyUpdateOptions{RequestPeerUpdate: op.Request})
						cancel()
						mu.Lock()
						u.err, u.end, u.tapAtReturn = err, p.Net.Now(), len(p.Net.Events())
						updates = append(updates, u)
						mu.Unlock()
					case "write":
						for i := 0; i < op.N; i++ {
							mu.Lock()
							payloadN++
							pl := make([]byte, 16)
							copy(pl, "C20-payload-")
							binary.BigEndian.PutUint32(pl[12:], uint32(payloadN)) //nolint:gosec
							if name == "S" {
								pl[0] = 'S'
							}
							mu.Unlock()
							if c.Starve != "" {
								// with the peer's ACKs starved a Write queued behind an unacknowledged KeyUpdate has no
								// reason to return by itself: bound it with a write deadline (which must be honoured)
								_ = sd.Conn.SetWriteDeadline(time.Now().Add(30 * time.Second))
							}
							if _, err := sd.Conn.Write(pl); err == nil {
								mu.Lock()
								written[name] = append(written[name], pl)
								mu.Unlock()
							}
							if i%512 == 511 {
								scen.Settle() // long bursts: let the receiver drain its queue (8192 datagrams)
							}
						}
					case "idle":
						time.Sleep(time.Duration(op.N) * time.Millisecond)
					}
				}
				if op.Par {
					par.Add(1)
					go func() { defer par.Done(); do() }()
				} else {
					do()
				}
			}
			par.Wait()
		}
		wg.Add(2)
		go runOps("C", c.OpsC)
		go runOps("S", c.OpsS)
		done := make(chan struct{})
		go func() { wg.Wait(); close(done) }()
		if c.Forge {
			r.Class("forged-plaintext-acks")
			go func() {
				for i := 0; ; i++ {
					select {
					case <-done:
						return
					case <-time.After(40 * time.Millisecond):
					}
					ack := forgedPlainACK(uint64(5000 + i)) //nolint:gosec
					p.Net.Inject("C", "S", ack)
					p.Net.Inject("S", "C", ack)
				}
			}()
		}
		select {
		case <-done:
		case <-time.After(90 * time.Minute):
			r.Failf("C20|operations-do-not-return", "UpdateKeys/Write still pending after 90 virtual minutes: %+v", c)

			return
		}
		// the network becomes reliable; give retransmissions time to settle
		p.Net.FaultFn = nil
		p.Net.FlushHeld()
		time.Sleep(5 * time.Second)
		scen.Settle()
		if os.Getenv("VERIF_DEBUG") != "" {
			fmt.Println(p.Dump())
			fmt.Println(strings.Join(env.Log.Lines, "\n"))
		}
		dec := scen.Decoder13(p, gens)
		if dec == nil {
			r.Failf("C20|harness|decoder", "no decoder")

			return
		}
		if n := p.Net.Overflowed(); n > 0 {
			// which datagrams a full receive queue dropped depends on goroutine scheduling: not judged
			r.Classf("harness-receive-queue-overflow")

			return
		}
		// ---- decode the post-handshake tap
		type decEv struct {
			idx       int
			from      string
			t         time.Duration
			delivered bool
			recs      []ref.Decoded
		}
		cidLen := c.CID
		var tap []decEv
		undecoded := 0
		for i, ev := range p.Net.Events() {
			if ev.From != "C" && ev.From != "S" {
				continue
			}
			ds, _ := dec.Decode(ev.From, ev.Data, cidLen)
			for _, d := range ds {
				if d.Kind == "unified" && !d.OK {
					undecoded++
				}
			}
			delivered := !strings.Contains(ev.Verdict, "+drop") && !strings.Contains(ev.Verdict, "blocked")
			tap = append(tap, decEv{i, ev.From, ev.T, delivered, ds})
		}
		if undecoded > 0 {
			r.Failf("C20|undecodable-record", "%d protected records on the tap do not decrypt under any generation the endpoints installed (successor law / keys broken?)", undecoded)

			return
		}
		// (3) epochs per sender never decrease, never jump
		lastEpoch := map[string]uint16{}
		kuRecords := map[string]map[[2]uint64]bool{"C": {}, "S": {}} // record numbers of KeyUpdate records per sender
		firstAt := map[string]map[uint16]int{"C": {}, "S": {}}       // tap index of the first record under an epoch
		for _, e := range tap {
			for _, d := range e.recs {
				if d.Kind != "unified" {
					continue
				}
				if le, ok := lastEpoch[e.from]; ok && d.Epoch < le && e.idx >= hsEvents {
					r.Failf("C20|sending-epoch-decreases", "%s emitted a record under epoch %d after one under epoch %d (t=%v)", e.from, d.Epoch, le, e.t)

					return
				}
				if le, ok := lastEpoch[e.from]; ok && d.Epoch > le+1 {
					r.Failf("C20|sending-epoch-jumps", "%s went from epoch %d to %d", e.from, le, d.Epoch)

					return
				}
				if d.Epoch > lastEpoch[e.from] {
					lastEpoch[e.from] = d.Epoch
				}
				if _, ok := firstAt[e.from][d.Epoch]; !ok {
					firstAt[e.from][d.Epoch] = e.idx
				}
				if d.Type == scen.CTHandshake && len(d.Plain) >= 12 && d.Plain[0] == scen.HTKeyUpdate {
					kuRecords[e.from][[2]uint64{uint64(d.Epoch), d.Seq}] = true
				}
			}
		}
		// ACKs of KeyUpdate records delivered to X, by tap index
		type ackEv struct {
			idx   int
			t     time.Duration
			epoch uint64 // epoch of the acknowledged KeyUpdate record
		}
		acksTo := map[string][]ackEv{}
		for _, e := range tap {
			to := "S"
			if e.from == "S" {
				to = "C"
			}
			if !e.delivered {
				continue
			}
			for _, d := range e.recs {
				if d.Type != scen.CTACK || len(d.Plain) < 2 {
					continue
				}
				body := d.Plain[2:]
				for len(body) >= 16 {
					ep, sq := binary.BigEndian.Uint64(body), binary.BigEndian.Uint64(body[8:])
					if kuRecords[to][[2]uint64{ep, sq}] {
						acksTo[to] = append(acksTo[to], ackEv{e.idx, e.t, ep})
					}
					body = body[16:]
				}
			}
		}
		// (3b) no record under epoch e+1 (e >= 3) before an ACK for a KeyUpdate sent under epoch e was delivered
		for _, x := range []string{"C", "S"} {
			for ep, idx := range firstAt[x] {
				if ep <= 3 {
					continue
				}
				ok := false
				for _, a := range acksTo[x] {
					if a.epoch == uint64(ep-1) && a.idx < idx {
						ok = true
					}
				}
				if !ok {
					r.Failf("C20|new-epoch-before-ack", "%s emitted a record under epoch %d (tap #%d) before any ACK of its KeyUpdate under epoch %d was delivered to it", x, ep, idx, ep-1)

					return
				}
			}
		}
		// (1) UpdateKeys returns nil only after the peer's ACK arrived
		completed := 0
		for _, u := range updates {
			if u.err != nil {
				continue
			}
			completed++
			ok := false
			for _, a := range acksTo[u.side] {
				if a.idx < u.tapAtReturn && a.t <= u.end {
					ok = true
				}
			}
			if !ok {
				r.Failf("C20|update-returns-nil-without-ack", "%s: UpdateKeys returned nil at %v although no ACK of one of its KeyUpdate records had been delivered (starve=%q)", u.side, u.end, c.Starve)

				return
			}
		}
		if c.Starve != "" {
			for _, u := range updates {
				if u.side == c.Starve && u.err == nil {
					r.Failf("C20|update-returns-nil-under-ack-starvation", "%s: UpdateKeys returned nil although nothing sent to it was delivered", u.side)

					return
				}
			}
		}
		// (2) payloads: at most once, unmodified; delivered datagrams are read exactly once
		for _, dir := range [][2]string{{"C", "S"}, {"S", "C"}} {
			snd, rcv := dir[0], dir[1]
			reads := sides[rcv].ReadLog()
			count := map[string]int{}
			wset := map[string]bool{}
			for _, w := range written[snd] {
				wset[string(w)] = true
			}
			for _, g := range reads {
				if !wset[string(g)] {
					r.Failf("C20|foreign-payload-delivered", "%s read a payload %x that %s never wrote", rcv, g, snd)

					return
				}
				count[string(g)]++
				if count[string(g)] > 1 {
					r.Failf("C20|payload-delivered-twice", "%s read payload %x twice", rcv, g)

					return
				}
			}
			// which payloads had their datagram delivered?
			for _, e := range tap {
				if e.from != snd || !e.delivered || e.idx < hsEvents {
					continue
				}
				for _, d := range e.recs {
					if d.OK && d.Type == scen.CTAppData && wset[string(d.Plain)] && count[string(d.Plain)] == 0 && c.Starve != rcv {
						r.Failf("C20|delivered-payload-not-read", "%s wrote %x under epoch %d, its datagram was delivered at %v, but %s never read it", snd, d.Plain, d.Epoch, e.t, rcv)

						return
					}
				}
			}
		}
		// (4) successor law over the generations the hook saw, per key state and direction
		suite, ok := ref.Suites13[c.Suite]
		if !ok {
			return
		}
		type chainKey struct {
			ks    *state.TrafficKeyState
			write bool
		}
		chains := map[chainKey][]scen.Gen13{}
		for _, g := range gens {
			if g.Epoch < 3 {
				continue
			}
			k := chainKey{g.Keys, g.Write}
			chains[k] = append(chains[k], g)
		}
		for _, ch := range chains {
			for i := 1; i < len(ch); i++ {
				if ch[i].Epoch == ch[i-1].Epoch {
					continue
				}
				want := ref.NextTrafficSecret13(suite, ch[i-1].Secret)
				if ch[i].Epoch != ch[i-1].Epoch+1 || !bytes.Equal(want, ch[i].Secret) {
					r.Failf("C20|generation-not-traffic-update-successor", "generation for epoch %d is not HKDF-Expand-Label(secret of epoch %d, \"traffic upd\")", ch[i].Epoch, ch[i-1].Epoch)

					return
				}
			}
		}
		nWriters := 0
		for _, ops := range [][]Op{c.OpsC, c.OpsS} {
			for _, op := range ops {
				if op.Kind == "write" {
					nWriters++
				}
			}
		}
		hitKU := false
		for _, e := range tap {
			if e.idx >= hsEvents && !e.delivered {
				for _, d := range e.recs {
					if d.Type == scen.CTACK || (d.Type == scen.CTHandshake && len(d.Plain) > 0 && d.Plain[0] == scen.HTKeyUpdate) {
						hitKU = true
					}
				}
			}
		}
		if (completed > 0 && nWriters > 0) || hitKU {
			r.NonTrivial()
		}
		r.Classf("completed-updates=%d", min(completed, 5))
		if hitKU {
			r.Class("fault-hit-keyupdate-or-ack")
		}
		if c.Starve != "" {
			r.Class("ack-starvation")
		}
		r.Class(scen.SuiteName(c.Suite))
	})
	if berr != nil {
		if berr.Deadlock {
			r.Failf("C20|goroutine-left-blocked", "goroutines left durably blocked at teardown: %v", berr.Value)
		} else {
			r.Failf(pbt.PanicSig("C20", []byte(berr.Stack)), "panic: %v\n%s", berr.Value, berr.Stack)
		}
	}
}

// forgedPlainACK builds a DTLSPlaintext record (epoch 0, the given sequence number) of content type ack
// which acknowledges the record numbers (e, s) for e in 3..8 and s in 0..47.
func forgedPlainACK(seq uint64) []byte {
	var body []byte
	for e := uint64(3); e <= 8; e++ {
		for sq := uint64(0); sq < 48; sq++ {
			body = binary.BigEndian.AppendUint64(body, e)
			body = binary.BigEndian.AppendUint64(body, sq)
		}
	}
	rec := []byte{26, 0xfe, 0xfd, 0, 0}
	var s8 [8]byte
	binary.BigEndian.PutUint64(s8[:], seq)
	rec = append(rec, s8[2:]...)
	rec = binary.BigEndian.AppendUint16(rec, uint16(len(body)+2)) //nolint:gosec
	rec = binary.BigEndian.AppendUint16(rec, uint16(len(body)))   //nolint:gosec

	return append(rec, body...)
}

func genOps(t *rapid.T, label string) []Op {
	n := rapid.IntRange(0, 6).Draw(t, label+"n")
	var ops []Op
	for i := 0; i < n; i++ {
		switch rapid.IntRange(0, 5).Draw(t, label+"k") {
		case 0, 1:
			ops = append(ops, Op{Kind: "update", Request: rapid.Bool().Draw(t, label+"req"), Par: rapid.IntRange(0, 2).Draw(t, label+"par") == 0})
		case 2, 3, 4:
			ops = append(ops, Op{Kind: "write", N: rapid.IntRange(1, 5).Draw(t, label+"wn"), Par: rapid.IntRange(0, 2).Draw(t, label+"par") == 0})
		default:
			ops = append(ops, Op{Kind: "idle", N: rapid.SampledFrom([]int{1, 100, 1000, 2500}).Draw(t, label+"ms")})
		}
	}

	return ops
}

func gen(t *rapid.T) Case {
	c := Case{Suite: rapid.SampledFrom([]uint16{0x1301, 0x1302, 0x1303}).Draw(t, "suite")}
	if rapid.IntRange(0, 2).Draw(t, "cid") == 0 {
		c.CID = rapid.IntRange(1, 8).Draw(t, "cidlen")
	}
	c.OpsC, c.OpsS = genOps(t, "c"), genOps(t, "s")
	if rapid.IntRange(0, 1).Draw(t, "faults") == 0 {
		c.FC = scen.GenFaults(t, "fc", 8)
		c.FS = scen.GenFaults(t, "fs", 8)
	}
	if rapid.IntRange(0, 3).Draw(t, "losenst") == 0 {
		c.LoseNST = rapid.IntRange(1, 3).Draw(t, "losenstn")
	}
	if rapid.IntRange(0, 7).Draw(t, "starve") == 0 {
		c.Starve = rapid.SampledFrom([]string{"C", "S"}).Draw(t, "starveside")
	}
	c.Forge = rapid.IntRange(0, 3).Draw(t, "forge") == 0

	return c
}

// longEpochCases: an epoch that carried more than 2^16 records (the 16-bit wire sequence number has wrapped)
// is then replaced by a key update whose first ACK is lost, with payloads written while the update is pending
// (they travel under the old epoch and reach the peer after it switched) - and the mirror image, a straggler
// of a short old epoch that arrives after the new epoch has carried more than 2^15 records.
func longEpochCases(_ string, yield func(Case) bool) {
	for _, side := range []string{"C", "S"} {
		long := []Op{{Kind: "write", N: 66000}, {Kind: "update", Par: true}, {Kind: "write", N: 5}, {Kind: "idle", N: 4000}, {Kind: "write", N: 1}}
		strag := []Op{{Kind: "write", N: 1}, {Kind: "update"}, {Kind: "write", N: 33500}, {Kind: "idle", N: 2000}}
		a := Case{Suite: 0x1301}
		b := Case{Suite: 0x1303, CID: 4}
		if side == "C" {
			a.OpsC, a.FS = long, []vnet.Fault{{Kind: vnet.Drop}}
			b.OpsC, b.FC = strag, []vnet.Fault{{Kind: vnet.Hold, Until: 33000}}
		} else {
			a.OpsS, a.FC = long, []vnet.Fault{{Kind: vnet.Drop}}
			b.OpsS, b.FS = strag, []vnet.Fault{{Kind: vnet.Hold, Until: 33000}}
		}
		if !yield(a) || !yield(b) {
			return
		}
	}
}

func init() {
	pbt.Register(pbt.Prop[Case]{
		Name: "long-epoch-grid", Enum: longEpochCases, Exhaustive: true, Run: run, Crashy: true,
		Rule: "4 fixed histories with the oracle of key-updates: 66000 payloads under one epoch, then UpdateKeys whose first ACK is lost with 5 payloads written meanwhile " +
			"(old-epoch records with sequence numbers >= 2^16 arriving after the receiver switched), and a held old-epoch record released after 33000 records of the new epoch; both directions. " +
			"non-trivial = the update completed; distinct = whole case",
	})
	pbt.Register(pbt.Prop[Case]{
		Name: "key-updates", Quick: 1200, Thorough: 30000, Gen: gen, Run: run, Crashy: true,
		Rule: "DTLS 1.3 session (3 suites x CID) with pre-drawn operation lists for both sides (UpdateKeys with/without peer request, Write bursts, idle, optionally in parallel goroutines) " +
			"under a fault script on the post-handshake datagrams (drop/dup/swap/hold) or total ACK starvation of one side; oracle (independent decoder with hook secrets): UpdateKeys returns nil " +
			"only after an ACK of one of its KeyUpdate records was delivered (never under starvation); payloads read at most once, unmodified, and exactly once when their datagram was delivered; " +
			"per endpoint the sending epoch never decreases or jumps and no record appears under epoch e+1 before the ACK of the update e->e+1 was delivered; every installed generation is the " +
			"'traffic upd' successor of the previous one; every protected record decrypts under a generation the endpoints installed. " +
			"non-trivial = a completed update interleaved with writes, or a fault that hit a KeyUpdate/ACK record; distinct = whole case",
	})
}
