package c06

import (
	"bytes"
	"fmt"
	"os"
	"strings"
	"time"

	"github.com/pion/dtls/v3/internal/zzverif/lib/pbt"
	"github.com/pion/dtls/v3/internal/zzverif/lib/scen"
	"github.com/pion/dtls/v3/internal/zzverif/lib/vnet"
)

// EarlyCase: the arrival sequence in which application data overtakes the final handshake flight.
// The endpoint that sends the last flight is established the moment it has sent it and may write at
// once; when the network delivers that first data record before the flight, the receiver sees a record
// of an epoch it cannot read yet. It arrived, once, ahead of everything in its epoch: it has to be
// delivered exactly once as soon as the flight has been processed.
type EarlyCase struct {
	Variant string `json:"variant"` // v12 (server sends the last flight), v12-resumed (client does), v12-psk, v12-cid, v13 (client does)
	N       int    `json:"n"`       // payloads written before the held flight is released
}

func runEarly(c EarlyCase, r *pbt.R) {
	berr := pbt.Bubble(func() {
		cEP := scen.EP{RootCA: 1, ServerName: scen.ServerName}
		sEP := scen.EP{Cert: "ecdsa"}
		last := "S" // who sends the last flight
		switch c.Variant {
		case "v12-resumed":
			cEP.Store, sEP.Store = "cs", "ss"
			last = "C"
		case "v12-psk":
			cEP = scen.EP{PSK: "early-psk-000001", PSKHint: "id", Suites: []uint16{0x00a8}}
			sEP = scen.EP{PSK: "early-psk-000001", PSKHint: "h", Suites: []uint16{0x00a8}}
		case "v12-cid":
			cEP.CID, sEP.CID = 4, 4
		case "v12-mtu70":
			// the final flight leaves as two datagrams, [ChangeCipherSpec] and [Finished]: only the second is held,
			// so the receiver can already open the early records when they arrive
			cEP.MTU, sEP.MTU = 70, 70
		case "v13":
			cEP.MinVer, cEP.MaxVer, sEP.MinVer, sEP.MaxVer = 13, 13, 13, 13
			cEP.Curves, sEP.Curves = []uint16{0x1d}, []uint16{0x1d}
			last = "C"
		}
		env := scen.NewEnv()
		env.Log = &scen.LogSink{Keep: os.Getenv("VERIF_DEBUG") != ""}
		if c.Variant == "v12-resumed" {
			p0 := scen.NewPair(env, &cEP, &sEP)
			p0.Handshake(5 * time.Minute)
			ok := p0.C.OK() && p0.S.OK()
			p0.Close()
			scen.Settle()
			if !ok {
				r.Failf("C06|harness|prime", "priming connection failed")

				return
			}
		}
		p := scen.NewPair(env, &cEP, &sEP)
		defer p.Close()
		// the last flight: the sender's datagram that carries its Finished (1.2: the one with the
		// change_cipher_spec record; 1.3: the client's first epoch-2 datagram). It is held until c.N further
		// datagrams of the same sender have been sent.
		held := false
		p.Net.FaultFn = func(ev *vnet.Event) *vnet.Fault {
			if held || ev.From != last {
				return nil
			}
			isLast := false
			if c.Variant == "v13" {
				isLast = len(ev.Data) > 0 && ev.Data[0]&0xe0 == 0x20 && ev.Data[0]&0x03 == 2
			} else {
				recs, _ := scen.SplitDatagram(ev.Data, 0)
				for _, rc := range recs {
					if rc.Kind == "legacy" && rc.Type == scen.CTChangeCipherSpec && c.Variant != "v12-mtu70" {
						isLast = true
					}
					if c.Variant == "v12-mtu70" && rc.Kind == "legacy" && rc.Type == scen.CTHandshake && rc.Epoch == 1 {
						isLast = true
					}
				}
			}
			if !isLast {
				return nil
			}
			held = true

			return &vnet.Fault{Kind: vnet.Hold, Until: ev.Idx + c.N}
		}
		p.Net.MaxHold = time.Hour
		snd, rcv := p.S, p.C
		if last == "C" {
			snd, rcv = p.C, p.S
		}
		sdone := p.S.StartHandshake(10 * time.Minute)
		cdone := p.C.StartHandshake(10 * time.Minute)
		if last == "S" {
			<-sdone
		} else {
			<-cdone
		}
		if !snd.OK() {
			r.Class("sender-not-established")

			return
		}
		if !held {
			r.Failf("C06|harness|hold", "the final flight of %s was not identified (variant %s)", last, c.Variant)

			return
		}
		rcv.StartReader()
		var wrote [][]byte
		for i := 0; i < c.N; i++ {
			pl := []byte(fmt.Sprintf("early-%02d-%s", i, c.Variant))
			if _, err := snd.Conn.Write(pl); err != nil {
				r.Failf("C06|harness|early-write", "write %d on the established sender: %v", i, err)

				return
			}
			wrote = append(wrote, pl)
		}
		scen.Settle() // the N-th datagram released the held flight
		<-sdone
		<-cdone
		if !rcv.OK() {
			r.Class("receiver-handshake-failed (liveness: judged by C02 final-flight-overtaken-by-data)")

			return
		}
		rcv.StartReader()
		late := []byte("after-both-established")
		if _, err := snd.Conn.Write(late); err != nil {
			r.Failf("C06|harness|late-write", "%v", err)

			return
		}
		wrote = append(wrote, late)
		scen.Settle()
		time.Sleep(3 * time.Second)
		scen.Settle()
		if os.Getenv("VERIF_DEBUG") != "" {
			fmt.Println(p.Dump())
			fmt.Println(strings.Join(env.Log.Lines, "\n"))
		}
		got := rcv.ReadLog()
		count := map[string]int{}
		for _, g := range got {
			count[string(g)]++
		}
		for i, w := range wrote {
			switch n := count[string(w)]; {
			case n > 1:
				r.Failf("C06|delivered-twice|data-before-final-flight", "payload %q delivered %d times", w, n)

				return
			case n == 0:
				what := "data-before-final-flight"
				if bytes.Equal(w, late) {
					what = "data-after-establishment"
				}
				r.Failf("C06|not-delivered|"+what+"|"+map[bool]string{true: "dtls13", false: "dtls12"}[c.Variant == "v13"],
					"variant %s: payload #%d %q was written by the established %s, its datagram reached %s once, ahead of the final handshake flight, and was never delivered by Read (read: %d payloads)",
					c.Variant, i, w, snd.Name, rcv.Name, len(got))

				return
			}
		}
		r.Eval(fmt.Sprintf("%+v", c), true, c.Variant)
	})
	if berr != nil {
		if berr.Deadlock {
			r.Failf("C06|goroutine-left-blocked", "goroutines left durably blocked: %v", berr.Value)
		} else {
			r.Failf(pbt.PanicSig("C06", []byte(berr.Stack)), "panic: %v\n%s", berr.Value, berr.Stack)
		}
	}
}

func init() {
	pbt.Register(pbt.Prop[EarlyCase]{
		Name: "data-overtakes-final-flight", Exhaustive: true, Run: runEarly, Crashy: true,
		Enum: func(_ string, yield func(EarlyCase) bool) {
			for _, v := range []string{"v12", "v12-psk", "v12-cid", "v12-resumed", "v12-mtu70", "v13"} {
				for _, n := range []int{1, 2, 5} {
					if !yield(EarlyCase{v, n}) {
						return
					}
				}
			}
		},
		Rule: "5 handshake variants x 1/2/5 payloads written by the side that sends the last flight as soon as it is established, while that flight is held back so that the data arrives first; " +
			"oracle: every payload is delivered exactly once after the flight was processed. non-trivial = every case; distinct = whole case",
	})
}
