package c06

import (
	"context"
	"encoding/binary"
	"fmt"
	"testing"
	"time"

	dtls "github.com/pion/dtls/v3"
	"github.com/pion/dtls/v3/internal/zzverif/lib/pbt"
	"github.com/pion/dtls/v3/internal/zzverif/lib/scen"
	"pgregory.net/rapid"
)

func TestMain(m *testing.M) { pbt.Main(m, "C06") }

func TestProps(t *testing.T) { pbt.RunAll(t) }

func TestReplay(t *testing.T) { pbt.Replay(t) }

// Case: one session, several independent rounds. In every round the sender writes N fresh
// records (captured, not delivered) and the harness delivers them in the order Seq (indexes into
// the round's records, repetitions allowed).
type Case struct {
	Variant string  `json:"variant"` // v12-gcm, v12-cbc, v12-cid, v13
	Window  int     `json:"window"`  // 0 = library default (64)
	FromSrv bool    `json:"fromsrv"` // direction: server writes, client reads
	Rounds  []Round `json:"rounds"`
	// Imported (DTLS 1.2): the receiving endpoint is exported and resumed with ResumeWithOptions (same options,
	// the replay window among them) before the first round
	Imported bool `json:"imported,omitempty"`
	// Prefill: payloads written and delivered in order before the first round (65 5xx of them put the rounds
	// across the point where DTLS 1.3's 16 transmitted sequence-number bits wrap)
	Prefill int `json:"prefill,omitempty"`
}

// Round is one arrival sequence over N fresh records.
type Round struct {
	N   int   `json:"n"`
	Seq []int `json:"seq"`
	// Updates: the sender updates its traffic keys (DTLS 1.3) this many times before writing this
	// round's records (four updates bring the two epoch bits on the wire back to the same value).
	Updates int `json:"upds,omitempty"`
	// Old: after this round's arrivals, datagrams already read in EARLIER rounds (possibly under
	// an earlier epoch) arrive again; indexes into the list of all datagrams read so far.
	Old []int `json:"old,omitempty"`
	// Late: after at least one key update, datagrams of the PREVIOUS round that never arrived there
	// arrive now (delayed into a later epoch); indexes into the previous round's records.
	Late []int `json:"late,omitempty"`
}

func eps(v string, w int, fromSrv bool) (c, s scen.EP) {
	c = scen.EP{RootCA: 1, ServerName: scen.ServerName}
	s = scen.EP{Cert: "ecdsa"}
	switch v {
	case "v12-gcm":
	case "v12-cbc":
		c.Suites, s.Suites = []uint16{0xc00a}, []uint16{0xc00a}
	case "v12-ccm":
		c.Suites, s.Suites = []uint16{0xc0ac}, []uint16{0xc0ac}
	case "v12-chacha":
		c.Suites, s.Suites = []uint16{0xcca9}, []uint16{0xcca9}
	case "v12-cid":
		c.CID, s.CID = 5, 3
	case "v13":
		c.MinVer, c.MaxVer, s.MinVer, s.MaxVer = 13, 13, 13, 13
		c.Curves, s.Curves = []uint16{0x1d}, []uint16{0x1d}
	}
	if fromSrv {
		c.Window = w
	} else {
		s.Window = w
	}

	return c, s
}

func effWindow(w int) int {
	if w <= 0 {
		return 64
	}

	return w
}

func run(c Case, r *pbt.R) {
	berr := pbt.Bubble(func() {
		cEP, sEP := eps(c.Variant, c.Window, c.FromSrv)
		env := scen.NewEnv()
		p := scen.NewPair(env, &cEP, &sEP)
		defer p.Close()
		p.Handshake(10 * time.Minute)
		if !(p.C.OK() && p.S.OK()) {
			r.Failf("C06|harness|handshake", "setup handshake failed: %v %v", p.C.Err(), p.S.Err())

			return
		}
		snd, rcv := p.C, p.S
		if c.FromSrv {
			snd, rcv = p.S, p.C
		}
		if c.Imported && c.Variant != "v13" {
			ep := &sEP
			if c.FromSrv {
				ep = &cEP
			}
			if _, err := p.ExportImport(rcv, env, ep, nil); err != nil {
				r.Failf("C06|harness|import", "export/import of the receiver: %v", err)

				return
			}
			_ = rcv.Conn.Handshake()
			scen.Settle()
			r.Class("receiver-imported")
		}
		rcv.StartReader()
		scen.Settle()
		for i := 0; i < c.Prefill; i++ {
			pl := make([]byte, 8)
			binary.BigEndian.PutUint32(pl, 0xF111F111)
			binary.BigEndian.PutUint32(pl[4:], uint32(i)) //nolint:gosec
			if _, err := snd.Conn.Write(pl); err != nil {
				r.Failf("C06|harness|write", "prefill write %d: %v", i, err)

				return
			}
			if i%64 == 63 {
				scen.Settle()
			}
		}
		if c.Prefill > 0 {
			scen.Settle()
			if got := len(rcv.ReadLog()); got != c.Prefill {
				r.Failf("C06|not-delivered|in-order-stream", "%d payloads written in order on a perfect network, %d read", c.Prefill, got)

				return
			}
			r.Classf("prefill>=%dk", c.Prefill/1000)
		}
		W := effWindow(c.Window)
		tag := uint32(0)
		var readBefore [][]byte // datagrams whose payload was read in an earlier round
		type prevRound struct {
			recs     [][]byte
			count    []int
			latest   int
			tagStart uint32
		}
		var prev *prevRound
		for ri, rd := range c.Rounds {
			for u := 0; u < rd.Updates && c.Variant == "v13"; u++ {
				ctx, cancel := context.WithTimeout(context.Background(), time.Minute)
				err := snd.Conn.UpdateKeys(ctx, dtls.KeyUpdateOptions{})
				cancel()
				scen.Settle()
				if err != nil {
					r.Failf("C06|harness|update", "UpdateKeys on a perfect network: %v", err)

					return
				}
				r.Classf("key-updates-between-rounds=%d", min(rd.Updates, 9))
			}
			// capture N fresh records
			p.Net.Blocked[snd.Name] = true
			mark := len(p.Net.Events())
			var payloads [][]byte
			for i := 0; i < rd.N; i++ {
				tag++
				pl := make([]byte, 12)
				binary.BigEndian.PutUint32(pl, 0xC06C06C0)
				binary.BigEndian.PutUint32(pl[4:], tag)
				binary.BigEndian.PutUint32(pl[8:], uint32(i)) //nolint:gosec
				payloads = append(payloads, pl)
				if _, err := snd.Conn.Write(pl); err != nil {
					r.Failf("C06|harness|write", "write: %v", err)

					return
				}
			}
			scen.Settle()
			p.Net.Blocked[snd.Name] = false
			var recs [][]byte
			for _, ev := range p.Net.Events()[mark:] {
				if ev.From == snd.Name {
					recs = append(recs, ev.Data)
				}
			}
			if len(recs) != rd.N {
				r.Failf("C06|harness|capture", "round %d: wrote %d payloads, captured %d datagrams", ri, rd.N, len(recs))

				return
			}
			// deliver the arrival sequence; model the window
			latest := -1 // newest accepted index of this round (older rounds/handshake records are all older)
			seen := make([]bool, rd.N)
			mustCount := make([]int, rd.N) // 1 if the model says it MUST have been delivered
			base := len(rcv.ReadLog())
			hasRep, hasOOO, edge := false, false, false
			prevIdx := -1
			for _, idx := range rd.Seq {
				if idx < 0 || idx >= rd.N {
					continue
				}
				first := !seen[idx]
				if !first {
					hasRep = true
				}
				if idx < prevIdx {
					hasOOO = true
				}
				prevIdx = idx
				if first {
					behind := latest - idx
					if idx > latest || behind < W {
						mustCount[idx] = 1
					}
					if behind == W-1 || behind == W || behind == W+1 {
						edge = true
					}
				}
				seen[idx] = true
				p.Net.Inject(snd.Name, rcv.Name, recs[idx])
				scen.Settle()
				// what was really accepted decides "newest accepted record"
				got := rcv.ReadLog()[base:]
				for _, g := range got {
					if len(g) == 12 && binary.BigEndian.Uint32(g[4:]) > tag-uint32(rd.N) { //nolint:gosec
						gi := int(binary.BigEndian.Uint32(g[8:]))
						if gi > latest {
							latest = gi
						}
					}
				}
			}
			// late duplicates of datagrams read in earlier rounds (earlier epoch after a key update)
			for _, o := range rd.Old {
				if len(readBefore) == 0 {
					break
				}
				p.Net.Inject(snd.Name, rcv.Name, readBefore[o%len(readBefore)])
				scen.Settle()
				r.Class("old-round-replay")
			}
			// delayed datagrams of the previous round, which belongs to an older epoch after a key update
			lateInjected := map[int]bool{}
			lateMust := map[int]bool{}
			lateCount := map[int]int{}
			if c.Variant == "v13" && rd.Updates >= 1 && prev != nil {
				for _, li := range rd.Late {
					idx := li % len(prev.recs)
					if prev.count[idx] != 0 || lateInjected[idx] {
						continue
					}
					lateInjected[idx] = true
					lateMust[idx] = idx > prev.latest || prev.latest-idx < W
					before := len(rcv.ReadLog())
					p.Net.Inject(snd.Name, rcv.Name, prev.recs[idx])
					scen.Settle()
					if len(rcv.ReadLog()) > before && idx > prev.latest {
						prev.latest = idx
					}
					r.Class("late-arrival-from-older-epoch")
				}
			}
			got := rcv.ReadLog()[base:]
			count := make([]int, rd.N)
			for _, g := range got {
				if len(g) != 12 || binary.BigEndian.Uint32(g) != 0xC06C06C0 {
					r.Failf("C06|foreign-payload", "round %d: Read returned a payload nobody wrote: %x", ri, g)

					return
				}
				gi := int(binary.BigEndian.Uint32(g[8:]))
				gt := binary.BigEndian.Uint32(g[4:])
				if prev != nil && lateInjected[gi] && gt == prev.tagStart+uint32(gi)+1 { //nolint:gosec
					lateCount[gi]++

					continue
				}
				if gi < 0 || gi >= rd.N || gt != tag-uint32(rd.N)+uint32(gi)+1 { //nolint:gosec
					if len(rd.Old) > 0 {
						r.Failf("C06|delivered-twice|old-epoch-replay", "round %d (%s, updates=%d): a datagram already read in an earlier round was read again when it arrived a second time: %x", ri, c.Variant, rd.Updates, g)
					} else {
						r.Failf("C06|stale-payload", "round %d: payload of an earlier round delivered: %x", ri, g)
					}

					return
				}
				count[gi]++
			}
			for i := range count {
				if count[i] > 1 {
					r.Failf("C06|delivered-twice", "round %d (%s W=%d): payload %d delivered %d times; arrivals %v", ri, c.Variant, W, i, count[i], rd.Seq)

					return
				}
				if mustCount[i] == 1 && count[i] == 0 {
					r.Failf("C06|in-window-not-delivered", "round %d (%s W=%d): record %d arrived first within the window but was not delivered; arrivals %v", ri, c.Variant, W, i, rd.Seq)

					return
				}
			}
			for idx := range lateInjected {
				if lateCount[idx] > 1 {
					r.Failf("C06|delivered-twice|late-older-epoch", "round %d: delayed record %d of the previous epoch delivered %d times", ri, idx, lateCount[idx])

					return
				}
				if lateMust[idx] && lateCount[idx] == 0 {
					r.Failf("C06|in-window-not-delivered|older-epoch", "round %d (%s W=%d, %d key updates since): record %d of the previous round arrived for the first time, within the window of its own epoch (newest accepted there: %d), and was not delivered", ri, c.Variant, W, rd.Updates, idx, prev.latest)

					return
				}
			}
			for i := range count {
				if count[i] == 1 {
					readBefore = append(readBefore, recs[i])
				}
			}
			prev = &prevRound{recs: recs, count: count, latest: latest, tagStart: tag - uint32(rd.N)} //nolint:gosec
			cls := []string{c.Variant, fmt.Sprintf("W=%d", W)}
			if edge {
				cls = append(cls, "window-edge")
			}
			r.Eval(fmt.Sprintf("%s|%d|%v|%d|%v|%v|%v|%v", c.Variant, W, c.FromSrv, rd.N, rd.Seq, rd.Updates, rd.Old, rd.Late), hasRep && hasOOO, cls...)
		}
	})
	if berr != nil {
		if berr.Deadlock {
			r.Failf("C06|bubble-deadlock", "goroutines left blocked: %v", berr.Value)
		} else {
			r.Failf(pbt.PanicSig("C06", []byte(berr.Stack)), "panic: %v\n%s", berr.Value, berr.Stack)
		}
	}
}

var variants = []string{"v12-gcm", "v12-cbc", "v12-ccm", "v12-chacha", "v12-cid", "v13"}

func genRound(t *rapid.T, w int) Round {
	W := effWindow(w)
	var rd Round
	switch rapid.IntRange(0, 4).Draw(t, "shape") {
	case 0: // short, arbitrary
		rd.N = rapid.IntRange(1, 6).Draw(t, "n")
		rd.Seq = rapid.SliceOfN(rapid.IntRange(0, rd.N-1), 1, 12).Draw(t, "seq")
	case 1: // window edge: deliver the newest first, then records W-1, W, W+1 behind
		rd.N = min(W+3+rapid.IntRange(0, 3).Draw(t, "extra"), 300)
		top := rd.N - 1
		rd.Seq = []int{top}
		for _, d := range []int{W - 1, W, W + 1, W - 2} {
			if top-d >= 0 && d >= 0 {
				rd.Seq = append(rd.Seq, top-d)
			}
		}
		rd.Seq = rapid.Permutation(rd.Seq[1:]).Draw(t, "edgeperm")
		rd.Seq = append([]int{top}, rd.Seq...)
		rd.Seq = append(rd.Seq, rd.Seq...) // and replay all of them
	case 2: // reversed run + replay of everything
		rd.N = rapid.IntRange(2, min(W+5, 80)).Draw(t, "n")
		for i := rd.N - 1; i >= 0; i-- {
			rd.Seq = append(rd.Seq, i)
		}
		for i := 0; i < rd.N; i++ {
			rd.Seq = append(rd.Seq, i)
		}
	case 3: // in-order burst with random duplicates, then replay every record after the end
		rd.N = rapid.IntRange(2, 120).Draw(t, "n")
		for i := 0; i < rd.N; i++ {
			rd.Seq = append(rd.Seq, i)
			if rapid.IntRange(0, 4).Draw(t, "dup") == 0 {
				rd.Seq = append(rd.Seq, rapid.IntRange(0, i).Draw(t, "dupidx"))
			}
		}
		for i := 0; i < rd.N; i++ {
			rd.Seq = append(rd.Seq, i)
		}
	default: // random permutation with jitter bounded by the window, plus repetitions
		rd.N = rapid.IntRange(2, 60).Draw(t, "n")
		perm := rapid.Permutation(seqN(rd.N)).Draw(t, "perm")
		rd.Seq = append(rd.Seq, perm...)
		k := rapid.IntRange(0, rd.N).Draw(t, "reps")
		for i := 0; i < k; i++ {
			rd.Seq = append(rd.Seq, rapid.IntRange(0, rd.N-1).Draw(t, "rep"))
		}
	}

	return rd
}

func seqN(n int) []int {
	out := make([]int, n)
	for i := range out {
		out[i] = i
	}

	return out
}

func gen(t *rapid.T) Case {
	c := Case{
		Variant: rapid.SampledFrom(variants).Draw(t, "variant"),
		Window:  rapid.SampledFrom([]int{0, 1, 2, 3, 8, 63, 64, 65, 128, 1000}).Draw(t, "window"),
		FromSrv: rapid.Bool().Draw(t, "fromsrv"),
	}
	c.Imported = c.Variant != "v13" && rapid.IntRange(0, 3).Draw(t, "imported") == 0
	nr := rapid.IntRange(1, 4).Draw(t, "rounds")
	for i := 0; i < nr; i++ {
		rd := genRound(t, c.Window)
		if i > 0 && rapid.IntRange(0, 2).Draw(t, "old") == 0 {
			rd.Updates = rapid.SampledFrom([]int{0, 1, 1, 2, 3, 4, 4, 5, 8}).Draw(t, "updates")
			rd.Old = rapid.SliceOfN(rapid.IntRange(0, 200), 1, 6).Draw(t, "oldidx")
			if rapid.Bool().Draw(t, "late") {
				rd.Late = rapid.SliceOfN(rapid.IntRange(0, 300), 1, 5).Draw(t, "lateidx")
			}
		}
		c.Rounds = append(c.Rounds, rd)
	}

	return c
}

// exhaustive: every arrival sequence of length <= L over n <= N records, windows 1 and 2.
func enum(tier string, yield func(Case) bool) {
	maxN, maxL := 3, 5
	if tier == "thorough" {
		maxN, maxL = 4, 6
	}
	for _, v := range []string{"v12-gcm", "v13"} {
		for _, w := range []int{1, 2, 3} {
			var batch []Round
			flush := func() bool {
				if len(batch) == 0 {
					return true
				}
				ok := yield(Case{Variant: v, Window: w, Rounds: batch})
				batch = nil

				return ok
			}
			for n := 1; n <= maxN; n++ {
				for l := 1; l <= maxL; l++ {
					total := 1
					for i := 0; i < l; i++ {
						total *= n
					}
					for code := 0; code < total; code++ {
						x := code
						seq := make([]int, l)
						for i := range seq {
							seq[i] = x % n
							x /= n
						}
						batch = append(batch, Round{N: n, Seq: seq})
						if len(batch) == 100 {
							if !flush() {
								return
							}
						}
					}
				}
			}
			if !flush() {
				return
			}
		}
	}
}

// enumWrap: rounds across the wrap of the transmitted sequence-number bits (DTLS 1.3: 16 of 48 bits travel;
// the receiver reconstructs the rest from the newest record it accepted).
func enumWrap(_ string, yield func(Case) bool) {
	late := func(n, firstNew int) []int {
		var s []int
		for i := firstNew; i < n; i++ {
			s = append(s, i)
		}
		for i := 0; i < firstNew; i++ {
			s = append(s, i)
		}

		return append(s, firstNew/2, n-2) // and two replays, one from each side
	}
	for _, fromSrv := range []bool{false, true} {
		if !yield(Case{Variant: "v13", FromSrv: fromSrv, Prefill: 65511, Rounds: []Round{{N: 50, Seq: late(50, 25)}}}) {
			return
		}
	}
	// the same pattern in DTLS 1.2 (the whole number travels), as a control
	yield(Case{Variant: "v12-gcm", Prefill: 65511, Rounds: []Round{{N: 50, Seq: late(50, 25)}}})
}

func init() {
	rule := "established session (suite/version variant, replay window W); per round the sender writes n fresh payloads whose records are captured, " +
		"then an arrival sequence with repetitions is delivered; oracle (one-sided sliding-window model): no payload read more often than written; " +
		"a first arrival fewer than W behind the newest accepted record MUST be read; bytes unmodified. " +
		"non-trivial = sequence has >=1 repetition and >=1 out-of-order arrival; distinct = (variant, W, direction, n, sequence)"
	pbt.Register(pbt.Prop[Case]{Name: "arrival-sequences", Quick: 6000, Thorough: 120000, Gen: gen, Run: run, Crashy: true, Rule: "SAMPLED: " + rule})
	pbt.Register(pbt.Prop[Case]{Name: "arrival-across-sequence-wrap", Enum: enumWrap, Exhaustive: true, Run: run, Crashy: true,
		Rule: "GRID (3 cases): 65 511 payloads delivered in order, then 50 records of which the newer 25 arrive first and the older 25 - up to 49 behind, inside the default window of 64, on both sides of sequence number 65 536 - afterwards, then a replay from each side: " + rule})
	pbt.Register(pbt.Prop[Case]{Name: "arrival-sequences-exhaustive", Enum: enum, Exhaustive: true, Run: run, Crashy: true,
		Rule: "EXHAUSTIVE: all sequences of length <=5 over n<=3 records (thorough <=6 over <=4), W in {1,2,3}, 1.2 GCM and 1.3: " + rule})
}
