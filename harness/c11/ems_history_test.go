package c11

import (
	"fmt"
	"time"

	"github.com/pion/dtls/v3/internal/zzverif/lib/pbt"
	"github.com/pion/dtls/v3/internal/zzverif/lib/scen"
)

// EMSHistory: two DTLS 1.2 connections in a row over shared session stores, each with its own extended-master-secret
// policy per side (0 request, 1 require, 2 disable). "A side that requires extended master secret never completes
// without it" also has to hold when the second connection resumes the session of the first: its master secret is the
// one derived then, with or without the session hash.
type EMSHistory struct {
	C1 int `json:"c1"`
	S1 int `json:"s1"`
	C2 int `json:"c2"`
	S2 int `json:"s2"`
}

func runEMSHistory(c EMSHistory, r *pbt.R) {
	berr := pbt.Bubble(func() {
		env := scen.NewEnv()
		mk := func(ce, se int) (scen.EP, scen.EP) {
			cl := scen.EP{RootCA: 1, ServerName: scen.ServerName, EMS: ce, Store: "cs"}
			sv := scen.EP{Cert: "ecdsa", EMS: se, Store: "ss"}

			return cl, sv
		}
		c1, s1 := mk(c.C1, c.S1)
		p1 := scen.NewPair(env, &c1, &s1)
		p1.Handshake(5 * time.Minute)
		ok1 := p1.C.OK() && p1.S.OK()
		p1.Close()
		scen.Settle()
		ems1 := c.C1 != 2 && c.S1 != 2 // negotiated on the first connection iff neither side disabled it
		if !ok1 {
			if (c.C1 == 1 && c.S1 == 2) || (c.C1 == 2 && c.S1 == 1) {
				r.Class("first-connection-refused-by-policy")
			} else {
				r.Failf("C11|harness|first-connection", "first connection (ems %d/%d) failed: %v %v", c.C1, c.S1, p1.C.Err(), p1.S.Err())
			}

			return
		}
		c2, s2 := mk(c.C2, c.S2)
		p2 := scen.NewPair(env, &c2, &s2)
		defer p2.Close()
		p2.Handshake(5 * time.Minute)
		ok2 := p2.C.OK() && p2.S.OK()
		resumed := false
		for _, ev := range p2.Net.EventsFrom("S") {
			for _, ht := range scen.PlainHSTypes(ev.Data) {
				if ht == scen.HTServerHello {
					resumed = true
				}
				if ht == scen.HTServerHelloDone {
					resumed = false
				}
			}
		}
		sawSHD := false
		for _, ev := range p2.Net.EventsFrom("S") {
			for _, ht := range scen.PlainHSTypes(ev.Data) {
				if ht == scen.HTServerHelloDone {
					sawSHD = true
				}
			}
		}
		resumed = resumed && !sawSHD
		r.Classf("second:ok=%v,resumed=%v", ok2, resumed)
		if ok2 && resumed && !ems1 && (c.C2 == 1 || c.S2 == 1) {
			who := "client"
			if c.S2 == 1 {
				who = "server"
			}
			r.Failf("C11|ems-required-but-resumed-session-has-none|"+who,
				"first connection (ems client=%d server=%d) ran WITHOUT the extended master secret; the second (client=%d server=%d), whose %s requires it, resumed that session: keys from a master secret derived without the session hash",
				c.C1, c.S1, c.C2, c.S2, who)

			return
		}
		if ok2 && !resumed {
			// a full handshake: the usual rule
			if (c.C2 == 1 && c.S2 == 2) || (c.C2 == 2 && c.S2 == 1) {
				r.Failf("C11|completed-without-common-value|ems-required-vs-disabled", "second connection (full handshake) completed with ems %d/%d", c.C2, c.S2)

				return
			}
		}
		r.Eval(fmt.Sprintf("%+v", c), true)
	})
	if berr != nil && !berr.Deadlock {
		r.Failf(pbt.PanicSig("C11", []byte(berr.Stack)), "panic: %v\n%s", berr.Value, berr.Stack)
	}
}

func init() {
	pbt.Register(pbt.Prop[EMSHistory]{
		Name: "ems-across-resumption", Exhaustive: true, Run: runEMSHistory, Crashy: true,
		Enum: func(_ string, yield func(EMSHistory) bool) {
			for c1 := 0; c1 < 3; c1++ {
				for s1 := 0; s1 < 3; s1++ {
					for c2 := 0; c2 < 3; c2++ {
						for s2 := 0; s2 < 3; s2++ {
							if !yield(EMSHistory{c1, s1, c2, s2}) {
								return
							}
						}
					}
				}
			}
		},
		Rule: "all 81 histories of two DTLS 1.2 connections over shared session stores with an extended-master-secret policy (request/require/disable) per side and connection; " +
			"oracle: a second connection in which a side REQUIRES the extension does not complete by resuming a session that was established without it. non-trivial = every case; distinct = whole case",
	})
}
