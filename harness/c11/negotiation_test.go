package c11

import (
	"bytes"
	"crypto/x509"
	"fmt"
	"os"
	"slices"
	"strings"
	"testing"
	"time"

	"github.com/pion/dtls/v3/internal/zzverif/lib/pbt"
	"github.com/pion/dtls/v3/internal/zzverif/lib/ref"
	"github.com/pion/dtls/v3/internal/zzverif/lib/scen"
	"pgregory.net/rapid"
)

func TestMain(m *testing.M) { pbt.Main(m, "C11") }

func TestProps(t *testing.T) { pbt.RunAll(t) }

func TestReplay(t *testing.T) { pbt.Replay(t) }

// Case is a pair of independently drawn option sets.
type Case struct {
	C scen.EP `json:"c"`
	S scen.EP `json:"s"`
}

var (
	defaultSuites12 = []uint16{0xc02b, 0xc02f, 0xcca9, 0xcca8, 0xc00a, 0xc014, 0xc02c, 0xc030}
	suites13        = []uint16{0x1301, 0x1302, 0x1303}
	defaultCurves   = []uint16{0x11ec, 0x001d, 0x0017, 0x0018}
	ecdsaSuites     = map[uint16]bool{0xc0ac: true, 0xc0ae: true, 0xc02b: true, 0xc02c: true, 0xc00a: true, 0xcca9: true}
	rsaSuites       = map[uint16]bool{0xc02f: true, 0xc030: true, 0xc014: true, 0xcca8: true}
	pskSuites       = map[uint16]bool{0xc0a4: true, 0xc0a8: true, 0xc0a9: true, 0x00a8: true, 0x00ae: true, 0xccab: true, 0xc037: true}
)

func is13(s uint16) bool { return s>>8 == 0x13 }

// ---- the policy model: evaluated on the two option sets only ------------------------------

type sidePolicy struct {
	versions []int    // effective versions, ascending
	suites   []uint16 // effective suite list in preference order (all versions)
	curves   []uint16
	hasPSK   bool
	certKind string // "", ecdsa, rsa  (what the configured certificate can sign for)
}

func certKindOf(name string) string {
	switch {
	case name == "":
		return ""
	case strings.Contains(name, "rsa"):
		return "rsa"
	default:
		return "ecdsa" // ECDSA and Ed25519 leaves both use the ECDSA suites
	}
}

func policyOf(ep *scen.EP, isServer bool) sidePolicy {
	p := sidePolicy{hasPSK: ep.PSK != "", certKind: certKindOf(ep.Cert)}
	lo, hi := 12, 12
	if ep.MinVer != 0 {
		lo = ep.MinVer
	}
	if ep.MaxVer != 0 {
		hi = ep.MaxVer
	}
	if ep.MinVer == 13 && ep.MaxVer == 0 {
		hi = 13
	}
	if hi < lo {
		lo, hi = hi, lo
	}
	p.curves = ep.Curves
	if len(p.curves) == 0 {
		p.curves = defaultCurves
	}
	for v := lo; v <= hi; v++ {
		ok := true
		if len(ep.Suites) > 0 {
			ok = false
			for _, s := range ep.Suites {
				if (v == 13) == is13(s) {
					ok = true
				}
			}
		}
		if len(ep.Curves) > 0 && v == 12 {
			has := false
			for _, c := range ep.Curves {
				if c != 0x11ec {
					has = true
				}
			}
			ok = ok && has
		}
		if ok {
			p.versions = append(p.versions, v)
		}
	}
	if len(ep.Suites) > 0 {
		p.suites = ep.Suites
	} else {
		for _, v := range p.versions {
			if v == 13 {
				p.suites = append(p.suites, suites13...)
			} else if ep.PSK == "" || ep.Cert != "" {
				p.suites = append(p.suites, defaultSuites12...)
			}
		}
	}
	_ = isServer

	return p
}

type verdict struct {
	mustFail string // non-empty: reason why no value exists (both sides must fail)
	unspec   bool
}

func usable12(s uint16, srv sidePolicy) bool {
	switch {
	case is13(s):
		return false
	case pskSuites[s]:
		return srv.hasPSK
	case ecdsaSuites[s]:
		return srv.certKind == "ecdsa"
	case rsaSuites[s]:
		return srv.certKind == "rsa"
	}

	return false
}

func model(c *Case) verdict {
	cp, sp := policyOf(&c.C, false), policyOf(&c.S, true)
	var common []int
	for _, v := range cp.versions {
		if slices.Contains(sp.versions, v) {
			common = append(common, v)
		}
	}
	if len(cp.versions) == 0 || len(sp.versions) == 0 {
		return verdict{unspec: true} // constructor error territory
	}
	if len(common) == 0 {
		return verdict{mustFail: "no-common-version"}
	}
	v := common[len(common)-1]
	// suites
	anySuite := false
	needGroup := true
	for _, s := range cp.suites {
		if !slices.Contains(sp.suites, s) {
			continue
		}
		if v == 13 && is13(s) && sp.certKind != "" && sp.certKind != "rsa" {
			anySuite = true
		}
		if v == 12 && usable12(s, sp) && (!pskSuites[s] || cp.hasPSK) && (pskSuites[s] || c.C.PSK == "" || c.C.Cert != "" || true) {
			anySuite = true
			if pskSuites[s] && s != 0xc037 {
				needGroup = false
			}
		}
	}
	if !anySuite {
		if len(cp.versions) > 1 || len(sp.versions) > 1 {
			return verdict{unspec: true} // a lower common version might still work: not asserted
		}

		return verdict{mustFail: "no-common-suite"}
	}
	// groups
	anyGroup := false
	for _, g := range cp.curves {
		if slices.Contains(sp.curves, g) && (v == 13 || g != 0x11ec) {
			anyGroup = true
		}
	}
	if !anyGroup && needGroup && len(common) == 1 {
		return verdict{mustFail: "no-common-group"}
	}
	// extended master secret (1.2)
	if v == 12 && len(common) == 1 {
		if (c.C.EMS == 1 && c.S.EMS == 2) || (c.C.EMS == 2 && c.S.EMS == 1) {
			return verdict{mustFail: "ems-required-vs-disabled"}
		}
	}
	// ALPN and SRTP: the property names no version ("when no common value exists the handshake fails on both sides")
	if len(common) == 1 {
		if len(c.C.ALPN) > 0 && len(c.S.ALPN) > 0 {
			inter := false
			for _, a := range c.C.ALPN {
				if slices.Contains(c.S.ALPN, a) {
					inter = true
				}
			}
			if !inter {
				return verdict{mustFail: "alpn-no-common-protocol"}
			}
		}
		if len(c.C.SRTP) > 0 && len(c.S.SRTP) > 0 {
			inter := false
			for _, a := range c.C.SRTP {
				if slices.Contains(c.S.SRTP, a) {
					inter = true
				}
			}
			if !inter {
				return verdict{mustFail: "srtp-no-common-profile"}
			}
		}
	}

	// signatures inside the server's chain (every fixture chain is signed with ECDSA/SHA-256): a verifying
	// client whose list for certificates - its own, else the handshake list - lacks that scheme has no
	// acceptable value
	if !c.C.NoVerify && c.C.RootCA != 0 && c.S.Cert != "" && c.C.PSK == "" {
		allowed := c.C.CertSigSchemes
		if len(allowed) == 0 {
			allowed = c.C.SigSchemes
		}
		if len(allowed) > 0 && !slices.Contains(allowed, 0x0403) {
			return verdict{mustFail: "chain-signature-not-allowed"}
		}
	}

	if c.S.ClientAuth == 4 && c.S.ClientCAs && c.C.Cert != "" && c.S.PSK == "" {
		allowed := c.S.CertSigSchemes
		if len(allowed) == 0 {
			allowed = c.S.SigSchemes
		}
		if len(allowed) > 0 && !slices.Contains(allowed, 0x0403) {
			return verdict{mustFail: "client-chain-signature-not-allowed"}
		}
	}

	return verdict{}
}

// ---- run -----------------------------------------------------------------------------------

func shortErr(err error) string {
	s := strings.TrimPrefix(err.Error(), "handshake failed: ")
	if len(s) > 50 {
		s = s[:50]
	}

	return s
}

func extTypes(exts []scen.Ext) []uint16 {
	var out []uint16
	for _, e := range exts {
		out = append(out, e.Type)
	}

	return out
}

func run(c Case, r *pbt.R) {
	var gens []scen.Gen13
	stop := scen.CaptureGens13(&gens)
	defer stop()
	berr := pbt.Bubble(func() {
		env := scen.NewEnv()
		env.Log = &scen.LogSink{Keep: os.Getenv("VERIF_DEBUG") != ""}
		p := scen.NewPair(env, &c.C, &c.S)
		defer p.Close()
		if p.C.CtorErr != nil || p.S.CtorErr != nil {
			r.Class("constructor-error")
			for _, e := range []error{p.C.CtorErr, p.S.CtorErr} {
				if e != nil {
					r.Class("ctor:" + shortErr(e))
				}
			}

			return
		}
		p.Handshake(20 * time.Minute)
		if os.Getenv("VERIF_DEBUG") != "" {
			fmt.Println(p.Dump())
			fmt.Println(strings.Join(env.Log.Lines, "\n"))
			fmt.Println("C:", p.C.Err(), "S:", p.S.Err())
		}
		for _, sd := range []*scen.Side{p.C, p.S} {
			if e := sd.Err(); e != nil && strings.Contains(e.Error(), "no CipherSuites satisfy this Config") {
				// the side's own option set admits no handshake at all (e.g. RSA-only suites with an ECDSA
				// key): a local configuration error reported by HandshakeContext, like a constructor error
				r.Class("local-configuration-error")

				return
			}
		}
		vd := model(&c)
		okC, okS := p.C.OK(), p.S.OK()
		cp, sp := policyOf(&c.C, false), policyOf(&c.S, true)
		// ---- completeness side
		if vd.mustFail != "" {
			if okC || okS {
				sig := "C11|completed-without-common-value|" + vd.mustFail
				if vd.mustFail == "no-common-suite" && len(c.S.CertsBefore) > 0 {
					sig += "|certificate-selected-by-name" // suites fit the first certificate, not the one served
				}
				if (vd.mustFail == "alpn-no-common-protocol" || vd.mustFail == "srtp-no-common-profile") && len(cp.versions) == 1 && cp.versions[0] == 13 {
					sig += "|dtls13"
				} else if (vd.mustFail == "alpn-no-common-protocol" || vd.mustFail == "srtp-no-common-profile") && len(sp.versions) == 1 && sp.versions[0] == 13 {
					sig += "|dtls13"
				}
				r.Failf(sig, "model: %s, yet client ok=%v server ok=%v", vd.mustFail, okC, okS)

				return
			}
			for _, sd := range []*scen.Side{p.C, p.S} {
				if e := sd.Err(); e != nil && strings.Contains(e.Error(), "deadline exceeded") && sd.HSAt >= 20*time.Minute {
					other := p.S
					if sd == p.S {
						other = p.C
					}
					// the detecting side fails at once with an alert; the peer must learn it from the alert
					if oe := other.Err(); oe != nil && !strings.Contains(oe.Error(), "deadline exceeded") {
						if other == p.C && slices.Contains(cp.versions, 13) && slices.Contains(sp.versions, 13) && c.C.CID != 0 && c.S.CID > 0 && c.S.CID != 1000 {
							// one situation, whatever made the client give up: see known_findings.json
							r.Failf("C11|no-alert-on-failure|dtls13-client-aborts-after-server-cid", "%s detected the failure (%v) but %s only ran into its deadline: the alert left without the server's connection ID", other.Name, oe, sd.Name)

							return
						}
						r.Failf("C11|no-alert-on-failure|"+vd.mustFail+"|"+shortErr(oe), "%s detected the failure (%v) but %s only ran into its deadline: no alert reached it", other.Name, oe, sd.Name)

						return
					}
				}
			}
			sawFatal := false
			for _, ev := range p.Net.Events() {
				recs, _ := scen.SplitDatagram(ev.Data, 0)
				for _, rc := range recs {
					if rc.Kind != "unified" && rc.Type == scen.CTAlert && rc.Epoch == 0 && len(rc.Body) == 2 && rc.Body[0] == 2 {
						sawFatal = true
					}
				}
			}
			// DTLS 1.3 protects an alert sent after the handshake keys exist: the tap cannot read it, the
			// receiving side's error ("alert: Alert Fatal: ...") names it
			for _, sd := range []*scen.Side{p.C, p.S} {
				if e := sd.Err(); e != nil && strings.Contains(e.Error(), "alert: Alert Fatal") {
					sawFatal = true
				}
			}
			if !sawFatal {
				r.Failf("C11|failure-without-alert|"+vd.mustFail, "model: %s; both sides failed (%v / %v) but no fatal alert was emitted", vd.mustFail, p.C.Err(), p.S.Err())

				return
			}
			r.NonTrivial()
			r.Class("must-fail:" + vd.mustFail)

			return
		}
		if !okC && !okS {
			r.Class("both-failed")
			if vd.unspec {
				r.Class("unspecified")
			}

			return
		}
		// ---- soundness side: at least one side reports success
		side := p.C
		if !okC {
			side = p.S
		}
		st, ok := side.Conn.ConnectionState()
		if !ok {
			r.Failf("C11|no-state", "no connection state on a side that reports success")

			return
		}
		suite := uint16(st.CipherSuiteID)
		ver := 12
		if is13(suite) {
			ver = 13
		}
		// version within both effective ranges and the highest common one
		if !slices.Contains(cp.versions, ver) || !slices.Contains(sp.versions, ver) {
			r.Failf("C11|version-out-of-policy", "negotiated 1.%d; client allows %v, server allows %v", ver-10, cp.versions, sp.versions)

			return
		}
		for _, v := range cp.versions {
			if v > ver && slices.Contains(sp.versions, v) {
				r.Failf("C11|version-not-highest", "negotiated 1.%d although both allow 1.%d", ver-10, v-10)

				return
			}
		}
		// ClientHello / ServerHello from the tap
		var ch *scen.ClientHello
		var sh *scen.ServerHello
		for _, ev := range p.Net.Events() {
			if f, ok := scen.FirstPlainHS(ev.Data, scen.HTClientHello); ok && ev.From == "C" {
				if x, ok := scen.ParseClientHello(f.Body); ok {
					ch = x
				}
			}
			if f, ok := scen.FirstPlainHS(ev.Data, scen.HTServerHello); ok && ev.From == "S" {
				if x, ok := scen.ParseServerHello(f.Body); ok && !bytes.Equal(x.Random, hrrRandom) {
					sh = x
				}
			}
		}
		if ch != nil {
			if !slices.Contains(ch.Suites, suite) {
				r.Failf("C11|suite-not-offered", "negotiated %04x which the ClientHello did not offer %04x", suite, ch.Suites)

				return
			}
		}
		if !slices.Contains(cp.suites, suite) {
			r.Failf("C11|suite-outside-client-policy", "negotiated %04x, client policy %04x", suite, cp.suites)

			return
		}
		if !slices.Contains(sp.suites, suite) {
			r.Failf("C11|suite-outside-server-policy", "negotiated %04x, server policy %04x", suite, sp.suites)

			return
		}
		if ver == 12 && !usable12(suite, sp) {
			sig := "C11|suite-does-not-fit-server-key"
			if len(c.S.CertsBefore) > 0 {
				sig += "|certificate-selected-by-name"
			}
			r.Failf(sig, "negotiated %04x with server credential cert=%q (certificates in front of it: %v, requested name %q) psk=%v", suite, c.S.Cert, c.S.CertsBefore, c.C.ServerName, sp.hasPSK)

			return
		}
		// group
		group := uint16(0)
		if ver == 12 {
			for _, ev := range p.Net.EventsFrom("S") {
				if f, ok := scen.FirstPlainHS(ev.Data, scen.HTServerKeyExchange); ok {
					b := f.Body
					if pskSuites[suite] && len(b) >= 2 {
						n := int(b[0])<<8 | int(b[1])
						if len(b) >= 2+n {
							b = b[2+n:]
						}
					}
					if len(b) >= 3 && b[0] == 3 {
						group = uint16(b[1])<<8 | uint16(b[2])
					}
				}
			}
		} else if sh != nil {
			if ks, ok := scen.FindExt(sh.Exts, 51); ok && len(ks) >= 2 {
				group = uint16(ks[0])<<8 | uint16(ks[1])
			}
		}
		if group != 0 && (!slices.Contains(cp.curves, group) || !slices.Contains(sp.curves, group)) {
			r.Failf("C11|group-out-of-policy", "key exchange group %04x; client curves %04x, server curves %04x", group, cp.curves, sp.curves)

			return
		}
		// signature scheme of the server's proof of possession (ServerKeyExchange in 1.2,
		// CertificateVerify in 1.3): offered by the client and inside both configured lists
		scheme := uint16(0)
		if ver == 12 && !pskSuites[suite] {
			for _, ev := range p.Net.EventsFrom("S") {
				if f, ok := scen.FirstPlainHS(ev.Data, scen.HTServerKeyExchange); ok {
					b := f.Body
					if len(b) >= 4 && b[0] == 3 && len(b) >= 4+int(b[3])+2 {
						b = b[4+int(b[3]):]
						scheme = uint16(b[0])<<8 | uint16(b[1])
					}
				}
			}
		} else if ver == 13 {
			if dec := scen.Decoder13(p, gens); dec != nil {
				for _, ev := range p.Net.EventsFrom("S") {
					ds, _ := dec.Decode("S", ev.Data, 0)
					for _, d := range ds {
						if !d.OK || d.Type != scen.CTHandshake {
							continue
						}
						fr, _ := scen.SplitHandshake(d.Plain)
						for _, f := range fr {
							if f.Type == scen.HTCertificateVerify && f.FragOff == 0 && len(f.Body) >= 2 {
								scheme = uint16(f.Body[0])<<8 | uint16(f.Body[1])
							}
						}
					}
				}
			}
		}
		if scheme != 0 {
			r.Class("server-signature-scheme-seen")
			if ch != nil {
				if sa, ok := scen.FindExt(ch.Exts, 13); ok && len(sa) >= 2 {
					var offered []uint16
					for i := 2; i+1 < len(sa); i += 2 {
						offered = append(offered, uint16(sa[i])<<8|uint16(sa[i+1]))
					}
					if !slices.Contains(offered, scheme) {
						r.Failf("C11|signature-scheme-not-offered", "server signed with scheme %04x, the ClientHello offered %04x", scheme, offered)

						return
					}
				}
			}
			if len(c.C.SigSchemes) > 0 && !slices.Contains(c.C.SigSchemes, scheme) {
				r.Failf("C11|signature-scheme-outside-client-policy", "server signed with %04x, client allows %04x", scheme, c.C.SigSchemes)

				return
			}
			if len(c.S.SigSchemes) > 0 && !slices.Contains(c.S.SigSchemes, scheme) {
				r.Failf(fmt.Sprintf("C11|signature-scheme-outside-server-policy|1.%d", ver-10), "server signed with %04x although its own configured list is %04x (client %04x)", scheme, c.S.SigSchemes, c.C.SigSchemes)

				return
			}
		}
		// signatures inside the accepted chain: "If not set, ... SignatureSchemes is used for both handshake
		// signatures and certificate chain validation" (WithCertificateSignatureSchemes)
		if okC && !c.C.NoVerify {
			allowed := c.C.CertSigSchemes
			if len(allowed) == 0 {
				allowed = c.C.SigSchemes
			}
			if cst, ok := p.C.Conn.ConnectionState(); ok && len(allowed) > 0 {
				for i, der := range cst.PeerCertificates {
					crt, err := x509.ParseCertificate(der)
					if err != nil || bytes.Equal(crt.RawIssuer, crt.RawSubject) {
						continue // a root is trusted by configuration, not by its signature
					}
					id := map[x509.SignatureAlgorithm]uint16{
						x509.ECDSAWithSHA256: 0x0403, x509.ECDSAWithSHA384: 0x0503, x509.ECDSAWithSHA512: 0x0603,
						x509.PureEd25519: 0x0807, x509.SHA256WithRSA: 0x0401, x509.SHA384WithRSA: 0x0501, x509.SHA512WithRSA: 0x0601,
					}[crt.SignatureAlgorithm]
					if id != 0 && !slices.Contains(allowed, id) {
						r.Failf(fmt.Sprintf("C11|certificate-signature-outside-client-policy|1.%d", ver-10), "client accepted a chain whose certificate %d is signed with %04x; it allows %04x for certificates (cert list %04x, handshake list %04x)", i, id, allowed, c.C.CertSigSchemes, c.C.SigSchemes)

						return
					}
					r.Class("chain-signature-checked")
				}
			}
		}
		if okS && c.S.ClientAuth == 4 && c.S.ClientCAs {
			allowed := c.S.CertSigSchemes
			if len(allowed) == 0 {
				allowed = c.S.SigSchemes
			}
			if sst, ok := p.S.Conn.ConnectionState(); ok && len(allowed) > 0 {
				for i, der := range sst.PeerCertificates {
					crt, err := x509.ParseCertificate(der)
					if err != nil || bytes.Equal(crt.RawIssuer, crt.RawSubject) {
						continue
					}
					if crt.SignatureAlgorithm == x509.ECDSAWithSHA256 && !slices.Contains(allowed, 0x0403) {
						r.Failf(fmt.Sprintf("C11|certificate-signature-outside-server-policy|1.%d", ver-10), "server accepted a client chain whose certificate %d is signed with 0403; it allows %04x for certificates (cert list %04x, handshake list %04x)", i, allowed, c.S.CertSigSchemes, c.S.SigSchemes)

						return
					}
					r.Class("client-chain-signature-checked")
				}
			}
		}
		// SRTP / ALPN
		if prof, ok := side.Conn.SelectedSRTPProtectionProfile(); ok {
			if !slices.Contains(c.C.SRTP, uint16(prof)) || !slices.Contains(c.S.SRTP, uint16(prof)) {
				r.Failf("C11|srtp-out-of-policy", "SRTP profile %d; client %v server %v", prof, c.C.SRTP, c.S.SRTP)

				return
			}
		}
		if st.NegotiatedProtocol != "" {
			if !slices.Contains(c.C.ALPN, st.NegotiatedProtocol) || !slices.Contains(c.S.ALPN, st.NegotiatedProtocol) {
				r.Failf("C11|alpn-out-of-policy", "ALPN %q; client %v server %v", st.NegotiatedProtocol, c.C.ALPN, c.S.ALPN)

				return
			}
		}
		// extended master secret
		if ver == 12 && sh != nil {
			_, ems := scen.FindExt(sh.Exts, 23)
			if (c.C.EMS == 1 || c.S.EMS == 1) && !ems {
				r.Failf("C11|ems-required-but-absent", "a side requires extended master secret (client %d server %d) but the ServerHello does not carry it", c.C.EMS, c.S.EMS)

				return
			}
			if (c.C.EMS == 2 || c.S.EMS == 2) && ems && okC && okS {
				// disabled on one side: the extension may be echoed only if that side ignores it; judged by key agreement elsewhere
				r.Class("ems-echoed-though-disabled")
			}
		}
		// every extension in the ServerHello / EncryptedExtensions was offered
		if ch != nil && sh != nil {
			offered := extTypes(ch.Exts)
			for _, e := range sh.Exts {
				if !slices.Contains(offered, e.Type) && !(e.Type == 0xff01 && slices.Contains(ch.Suites, 0x00ff)) {
					r.Failf(fmt.Sprintf("C11|unsolicited-extension|serverhello|%d", e.Type), "ServerHello carries extension %d which the ClientHello (%v) did not offer", e.Type, offered)

					return
				}
			}
			if ver == 13 {
				if dec := scen.Decoder13(p, gens); dec != nil {
					for _, ev := range p.Net.EventsFrom("S") {
						ds, _ := dec.Decode("S", ev.Data, 0)
						for _, d := range ds {
							if d.OK && d.Type == scen.CTHandshake && len(d.Plain) > 12 && d.Plain[0] == scen.HTEncryptedExtensions {
								fr, _ := scen.SplitHandshake(d.Plain)
								for _, f := range fr {
									if f.Type != scen.HTEncryptedExtensions || f.FragOff != 0 || f.FragLen != f.Length || len(f.Body) < 2 {
										continue
									}
									b := f.Body[2:]
									for len(b) >= 4 {
										t := uint16(b[0])<<8 | uint16(b[1])
										l := int(b[2])<<8 | int(b[3])
										if !slices.Contains(offered, t) {
											r.Failf(fmt.Sprintf("C11|unsolicited-extension|encryptedextensions|%d", t), "EncryptedExtensions carries extension %d which the ClientHello did not offer", t)

											return
										}
										if len(b) < 4+l {
											break
										}
										b = b[4+l:]
									}
								}
							}
						}
					}
				}
			}
		}
		diff := 0
		if fmt.Sprint(c.C.Suites) != fmt.Sprint(c.S.Suites) {
			diff++
		}
		if fmt.Sprint(c.C.Curves) != fmt.Sprint(c.S.Curves) {
			diff++
		}
		if c.C.MinVer != c.S.MinVer || c.C.MaxVer != c.S.MaxVer {
			diff++
		}
		if c.C.EMS != c.S.EMS {
			diff++
		}
		if fmt.Sprint(c.C.ALPN) != fmt.Sprint(c.S.ALPN) {
			diff++
		}
		if fmt.Sprint(c.C.SRTP) != fmt.Sprint(c.S.SRTP) {
			diff++
		}
		if diff >= 2 {
			r.NonTrivial()
		}
		r.Classf("negotiated-1.%d", ver-10)
		r.Class("success")
		_ = ref.Suites12
	})
	if berr != nil {
		if berr.Deadlock {
			r.Failf("C11|bubble-deadlock", "goroutines left blocked: %v", berr.Value)
		} else {
			r.Failf(pbt.PanicSig("C11", []byte(berr.Stack)), "panic: %v\n%s", berr.Value, berr.Stack)
		}
	}
}

var hrrRandom = []byte{0xCF, 0x21, 0xAD, 0x74, 0xE5, 0x9A, 0x61, 0x11, 0xBE, 0x1D, 0x8C, 0x02, 0x1E, 0x65, 0xB8, 0x91, 0xC2, 0xA2, 0x11, 0x16, 0x7A, 0xBB, 0x8C, 0x5E, 0x07, 0x9E, 0x09, 0xE2, 0xC8, 0xA8, 0x33, 0x9C}

// ---- generator: both option sets drawn independently from small alphabets -------------------

func genList[T any](t *rapid.T, label string, alphabet []T, pUnset int) []T {
	if rapid.IntRange(0, pUnset).Draw(t, label+"unset") == 0 {
		return nil
	}
	var out []T
	for _, x := range alphabet {
		if rapid.IntRange(0, 2).Draw(t, label+"in") == 0 {
			out = append(out, x)
		}
	}
	if len(out) == 0 {
		out = []T{rapid.SampledFrom(alphabet).Draw(t, label+"one")}
	}
	if len(out) > 1 {
		out = rapid.Permutation(out).Draw(t, label+"perm")
	}

	return out
}

func genSide(t *rapid.T, label string, server bool, family string) scen.EP {
	var ep scen.EP
	switch rapid.IntRange(0, 5).Draw(t, label+"ver") {
	case 0, 1, 2:
	case 3:
		ep.MinVer, ep.MaxVer = 12, 12
	case 4:
		ep.MinVer, ep.MaxVer = 13, 13
	default:
		ep.MinVer, ep.MaxVer = 12, 13
	}
	ep.MaxFirst = rapid.Bool().Draw(t, label+"maxfirst")
	suiteAlphabet := []uint16{0xc02b, 0xc02c, 0xcca9, 0xc0ac, 0xc00a, 0xc02f, 0xc030, 0x1301, 0x1302, 0x1303}
	if family == "psk" {
		suiteAlphabet = []uint16{0x00a8, 0xccab, 0xc0a8, 0xc037, 0xc02b}
	}
	ep.Suites = genList(t, label+"suites", suiteAlphabet, 2)
	ep.Curves = genList(t, label+"curves", []uint16{0x001d, 0x0017, 0x0018, 0x11ec}, 1)
	ep.EMS = rapid.SampledFrom([]int{0, 0, 1, 2}).Draw(t, label+"ems")
	ep.ALPN = genList(t, label+"alpn", []string{"h2", "http/1.1", "webrtc", "coap"}, 1)
	ep.SRTP = genList(t, label+"srtp", []uint16{1, 2, 7, 8}, 1)
	if family == "psk" {
		ep.PSK, ep.PSKHint = "negotiation-psk-01", "hint-"+label
		if rapid.IntRange(0, 3).Draw(t, label+"pskcert") == 0 && server {
			ep.Cert = "ecdsa"
		}
	} else if server {
		ep.Cert = rapid.SampledFrom([]string{"ecdsa", "ecdsa", "ed25519", "rsa"}).Draw(t, label+"cert")
	} else if rapid.Bool().Draw(t, label+"verify") {
		ep.RootCA, ep.ServerName = 1, scen.ServerName
	} else {
		ep.NoVerify = true
	}
	if rapid.IntRange(0, 2).Draw(t, label+"cid") == 0 {
		ep.CID = rapid.SampledFrom([]int{-1, 1000, 2, 5}).Draw(t, label+"cidv")
	}
	if family != "psk" {
		ep.SigSchemes = genList(t, label+"sigs", []uint16{0x0403, 0x0503, 0x0603, 0x0807, 0x0401, 0x0804}, 1)
		if !server && rapid.IntRange(0, 2).Draw(t, label+"certsigsOn") == 0 {
			ep.CertSigSchemes = genList(t, label+"certsigs", []uint16{0x0403, 0x0503, 0x0807, 0x0401}, 1)
		}
	}
	if server {
		ep.SkipHelloVfy = rapid.Bool().Draw(t, label+"skiphv")
	}

	return ep
}

// repair makes an option set constructible (the library rejects, at construction, a credential
// without a compatible suite, suites of no enabled version, and curves of no enabled version).
func repair(ep *scen.EP, family string) {
	only12 := ep.MaxVer == 12 || (ep.MaxVer == 0 && ep.MinVer == 0)
	only13 := ep.MinVer == 13
	if len(ep.Suites) > 0 {
		has12cert, has12psk, has13 := false, false, false
		for _, su := range ep.Suites {
			switch {
			case is13(su):
				has13 = true
			case pskSuites[su]:
				has12psk = true
			default:
				has12cert = true
			}
		}
		if ep.PSK != "" && !has12psk {
			ep.Suites = append(ep.Suites, 0x00a8)
		}
		if ep.PSK != "" && only13 {
			ep.MinVer, ep.MaxVer = 12, 12
			only12, only13 = true, false
		}
		if family != "psk" {
			if only12 && !has12cert {
				ep.Suites = append(ep.Suites, 0xc02b, 0xc02f)
			}
			if only13 && !has13 {
				ep.Suites = append(ep.Suites, 0x1301)
			}
		} else if ep.Cert != "" && !has12cert {
			ep.Suites = append(ep.Suites, 0xc02b)
		}
	} else if ep.PSK != "" {
		// the default suite list has no PSK suite
		ep.Suites = []uint16{0x00a8, 0xccab}
		if only13 {
			ep.MinVer, ep.MaxVer = 12, 12
			only12 = true
		}
	}
	if len(ep.Curves) == 1 && ep.Curves[0] == 0x11ec && only12 {
		ep.Curves = append(ep.Curves, 0x001d)
	}
}

func gen(t *rapid.T) Case {
	family := rapid.SampledFrom([]string{"cert", "cert", "cert", "psk", "mixed"}).Draw(t, "family")

	var c Case
	if family == "mixed" {
		// the server holds both a pre-shared key and a certificate; the client has one of the two
		c.S = genSide(t, "s", true, "psk")
		c.S.Cert = rapid.SampledFrom([]string{"ecdsa", "rsa", "rsa", "ed25519"}).Draw(t, "mixedcert")
		c.S.Suites = genList(t, "mixedsuites", []uint16{0x00a8, 0xccab, 0xc037, 0xc02b, 0xc02c, 0xcca9, 0xc02f, 0xc030, 0xc014}, 1000000)
		c.S.MinVer, c.S.MaxVer = 12, 12
		if rapid.Bool().Draw(t, "mixedclientpsk") {
			c.C = genSide(t, "c", false, "psk")
		} else {
			c.C = genSide(t, "c", false, "cert")
			c.C.Suites = genList(t, "mixedcsuites", []uint16{0xc02b, 0xc02c, 0xcca9, 0xc02f, 0xc030, 0xc014}, 3)
		}
		c.C.MinVer, c.C.MaxVer = 12, 12
		family = "psk" // for the repair step: the server must keep a PSK suite
	} else {
		c = Case{C: genSide(t, "c", false, family), S: genSide(t, "s", true, family)}
		if family == "cert" && rapid.IntRange(0, 3).Draw(t, "multicert") == 0 {
			// several server certificates of different key types: a decoy for another name first, the client
			// names the server it wants; the suite has to fit the key of the certificate that is served
			c.S.CertsBefore = []string{"wrongname"}
			if certKindOf(c.S.Cert) == "ecdsa" {
				c.S.CertsBefore = []string{"wrongname-rsa"}
			}
			c.C.ServerName = scen.ServerName
		}
		if family == "cert" && rapid.IntRange(0, 3).Draw(t, "clientauth") == 0 {
			// the server demands and verifies a client certificate: its lists apply to the client's chain
			c.S.ClientAuth, c.S.ClientCAs, c.C.Cert = 4, true, "client-ecdsa"
			if rapid.IntRange(0, 2).Draw(t, "scertsigsOn") == 0 {
				c.S.CertSigSchemes = genList(t, "scertsigs", []uint16{0x0403, 0x0503, 0x0807, 0x0401}, 1)
			}
		}
	}
	if rapid.IntRange(0, 9).Draw(t, "repair") != 0 {
		repair(&c.C, family)
		repair(&c.S, family)
	}
	// with probability 2/3 pull the two sets towards an agreement in most dimensions, so that the
	// soundness side of the oracle sees many successful negotiations with differing lists
	if rapid.IntRange(0, 2).Draw(t, "align") != 0 {
		keep := func(label string) bool { return rapid.IntRange(0, 4).Draw(t, label) != 0 }
		if keep("av") {
			c.S.MinVer, c.S.MaxVer = c.C.MinVer, c.C.MaxVer
			if rapid.IntRange(0, 3).Draw(t, "widen") == 0 && c.C.MaxVer != 0 {
				c.S.MinVer, c.S.MaxVer = 12, 13
			}
		}
		if keep("as") && len(c.C.Suites) > 0 && len(c.S.Suites) > 0 {
			pick := rapid.SampledFrom(c.C.Suites).Draw(t, "pickSuite")
			if !slices.Contains(c.S.Suites, pick) {
				c.S.Suites = append(c.S.Suites, pick)
			}
		}
		if keep("ac") && len(c.C.Curves) > 0 && len(c.S.Curves) > 0 {
			pick := rapid.SampledFrom(c.C.Curves).Draw(t, "pickCurve")
			if !slices.Contains(c.S.Curves, pick) {
				c.S.Curves = append([]uint16{pick}, c.S.Curves...)
			}
		}
		if keep("ae") && ((c.C.EMS == 1 && c.S.EMS == 2) || (c.C.EMS == 2 && c.S.EMS == 1)) {
			c.S.EMS = 0
		}
		if keep("aa") && len(c.C.ALPN) > 0 && len(c.S.ALPN) > 0 {
			pick := rapid.SampledFrom(c.C.ALPN).Draw(t, "pickALPN")
			if !slices.Contains(c.S.ALPN, pick) {
				c.S.ALPN = append(c.S.ALPN, pick)
			}
		}
		if keep("ar") {
			if len(c.C.SRTP) > 0 && len(c.S.SRTP) > 0 {
				pick := rapid.SampledFrom(c.C.SRTP).Draw(t, "pickSRTP")
				if !slices.Contains(c.S.SRTP, pick) {
					c.S.SRTP = append(c.S.SRTP, pick)
				}
			} else {
				c.S.SRTP = append([]uint16(nil), c.C.SRTP...)
			}
		}
		if family == "cert" && keep("asg") && (len(c.C.SigSchemes) > 0 || len(c.S.SigSchemes) > 0) {
			// a scheme the server's key can produce, allowed by both explicit lists
			fit := map[string]uint16{"ecdsa": 0x0403, "ed25519": 0x0807, "rsa": 0x0804}[c.S.Cert]
			if fit != 0 {
				if len(c.C.SigSchemes) > 0 && !slices.Contains(c.C.SigSchemes, fit) {
					c.C.SigSchemes = append(c.C.SigSchemes, fit)
				}
				if len(c.S.SigSchemes) > 0 && !slices.Contains(c.S.SigSchemes, fit) {
					c.S.SigSchemes = append(c.S.SigSchemes, fit)
				}
			}
			if len(c.S.CertSigSchemes) > 0 && !slices.Contains(c.S.CertSigSchemes, 0x0403) {
				c.S.CertSigSchemes = append(c.S.CertSigSchemes, 0x0403)
			} else if c.S.ClientAuth == 4 && len(c.S.CertSigSchemes) == 0 && len(c.S.SigSchemes) > 0 && !slices.Contains(c.S.SigSchemes, 0x0403) {
				c.S.CertSigSchemes = []uint16{0x0403}
			}
			// every fixture chain is signed with ECDSA/SHA-256
			if len(c.C.CertSigSchemes) > 0 && !slices.Contains(c.C.CertSigSchemes, 0x0403) {
				c.C.CertSigSchemes = append(c.C.CertSigSchemes, 0x0403)
			} else if len(c.C.CertSigSchemes) == 0 && len(c.C.SigSchemes) > 0 && !slices.Contains(c.C.SigSchemes, 0x0403) {
				c.C.CertSigSchemes = []uint16{0x0403}
			}
		}
		if family == "cert" && keep("ak") {
			// a certificate that fits at least one suite both sides list (or the defaults)
			hasRSA, hasEC := false, false
			for _, su := range c.S.Suites {
				hasRSA = hasRSA || rsaSuites[su]
				hasEC = hasEC || ecdsaSuites[su] || is13(su)
			}
			if hasRSA && !hasEC {
				c.S.Cert = "rsa"
			} else if hasEC && !hasRSA && c.S.Cert == "rsa" {
				c.S.Cert = "ecdsa"
			}
		}
	}

	return c
}

func init() {
	pbt.Register(pbt.Prop[Case]{
		Name: "negotiation-policy", Quick: 4000, Thorough: 120000, Gen: gen, Run: run, Crashy: true,
		Rule: "both endpoints' option sets drawn independently from small alphabets (version range x cipher-suite list x curves x EMS policy x ALPN x SRTP x key type/PSK x CID generator x hello-verify) over a perfect network; " +
			"oracle = independent policy model on the two option sets: whenever a side reports success the version lies in both effective ranges and is the highest common one, the suite was offered (tap), " +
			"is in both policies and fits the server's key type, the key-exchange group (ServerKeyExchange/key_share on the tap) is in both curve lists, SRTP profile and ALPN protocol come from both lists, " +
			"a required extended master secret is in use, and every ServerHello/EncryptedExtensions extension was offered; where the model says no common value exists (version, suite, group, EMS require vs " +
			"disable, ALPN, SRTP) neither side succeeds, neither waits for its deadline when the peer detected it, and a fatal alert is emitted. non-trivial = >=2 dimensions differ or an empty intersection",
	})
}
