package c11

import (
	"context"
	"fmt"
	"os"
	"strings"
	"time"

	dtls "github.com/pion/dtls/v3"
	"github.com/pion/dtls/v3/internal/zzverif/lib/pbt"
	"github.com/pion/dtls/v3/internal/zzverif/lib/scen"
	"github.com/pion/dtls/v3/internal/zzverif/lib/vnet"
)

// LegacyCase: a peer whose whole policy is one protocol version outside the server's range (DTLS 1.0, which
// no endpoint of this library can be configured to offer) says hello. "The protocol version is inside both
// version ranges ... when no common value exists the handshake fails on both sides with an alert".
type LegacyCase struct {
	SrvMin int  `json:"smin"` // 12 | 13
	SrvMax int  `json:"smax"`
	SkipHV bool `json:"skiphv"`           // server: InsecureSkipVerifyHello
	ViaExt bool `json:"viaext,omitempty"` // the hello also carries supported_versions listing only DTLS 1.0
}

func runLegacy(c LegacyCase, r *pbt.R) {
	berr := pbt.Bubble(func() {
		env := scen.NewEnv()
		env.Log = &scen.LogSink{Keep: os.Getenv("VERIF_DEBUG") != ""}
		// a genuine DTLS 1.2 ClientHello, captured from a client talking to nobody
		cEP := scen.EP{NoVerify: true}
		capNet := vnet.New()
		capEP := capNet.Endpoint("C")
		copts, err := cEP.ClientOptions(env)
		if err != nil {
			r.Failf("C11|harness|opts", "%v", err)

			return
		}
		cc, err := dtls.ClientWithOptions(capEP, vnet.Addr("S"), copts...)
		if err != nil {
			r.Failf("C11|harness|client", "%v", err)

			return
		}
		ctx, cancel := context.WithTimeout(context.Background(), time.Millisecond)
		_ = cc.HandshakeContext(ctx)
		cancel()
		_ = cc.Close()
		_ = capEP.Close()
		scen.Settle()
		var ch *scen.ClientHello
		for _, ev := range capNet.EventsFrom("C") {
			if f, ok := scen.FirstPlainHS(ev.Data, scen.HTClientHello); ok {
				ch, _ = scen.ParseClientHello(f.Body)

				break
			}
		}
		if ch == nil {
			r.Failf("C11|harness|capture", "no ClientHello captured")

			return
		}
		ch.Version = [2]byte{0xfe, 0xff} // DTLS 1.0
		if c.ViaExt {
			ch.Exts = append(ch.Exts, scen.Ext{Type: 43, Data: []byte{2, 0xfe, 0xff}})
			ch.HasExts = true
		}
		sEP := scen.EP{Cert: "ecdsa", MinVer: c.SrvMin, MaxVer: c.SrvMax, SkipHelloVfy: c.SkipHV}
		n := vnet.New()
		sep := n.Endpoint("S")
		sopts, err := sEP.ServerOptions(env)
		if err != nil {
			r.Failf("C11|harness|opts", "%v", err)

			return
		}
		srv, err := dtls.ServerWithOptions(sep, vnet.Addr("C"), sopts...)
		if err != nil {
			r.Failf("C11|harness|server", "%v", err)

			return
		}
		hsDone := make(chan error, 1)
		go func() {
			ctx, cancel := context.WithTimeout(context.Background(), 2*time.Minute)
			defer cancel()
			hsDone <- srv.HandshakeContext(ctx)
		}()
		defer func() {
			_ = srv.Close()
			_ = sep.Close()
		}()
		scen.Settle()
		n.Inject("C", "S", scen.HSRecord(0, scen.HTClientHello, 0, ch.Marshal()))
		scen.Settle()
		// a DTLS 1.2 cookie request is stateless and may precede the version decision: echo the cookie once
		for _, ev := range n.EventsFrom("S") {
			if f, ok := scen.FirstPlainHS(ev.Data, 3); ok && len(f.Body) >= 3 && int(f.Body[2]) == len(f.Body)-3 {
				ch2 := *ch
				ch2.Cookie = append([]byte(nil), f.Body[3:]...)
				n.Inject("C", "S", scen.HSRecord(1, scen.HTClientHello, 1, ch2.Marshal()))
				scen.Settle()
				r.Class("cookie-echoed")

				break
			}
		}
		var herr error
		select {
		case herr = <-hsDone:
		case <-time.After(3 * time.Minute):
			r.Failf("C11|legacy-hello|handshake-never-returns", "server handshake did not return")

			return
		}
		scen.Settle()
		if os.Getenv("VERIF_DEBUG") != "" {
			for _, ev := range n.Events() {
				fmt.Printf("%10v %s->%s %s\n", ev.T, ev.From, ev.To, scen.Describe(ev.Data, 0))
			}
			fmt.Println(strings.Join(env.Log.Lines, "\n"), "\nserver:", herr)
		}
		name := fmt.Sprintf("server-1.%d-1.%d", c.SrvMin-10, c.SrvMax-10)
		if herr == nil {
			r.Failf("C11|legacy-hello|completed|"+name, "server completed a handshake with a peer that only speaks DTLS 1.0")

			return
		}
		sawAlert := false
		for _, ev := range n.EventsFrom("S") {
			recs, _ := scen.SplitDatagram(ev.Data, 0)
			for _, rc := range recs {
				if rc.Kind != "unified" && rc.Type == scen.CTHandshake && rc.Epoch == 0 && len(rc.Body) > 0 && rc.Body[0] == 2 {
					r.Failf("C11|legacy-hello|server-hello|"+name, "server answered a DTLS 1.0-only hello with a ServerHello")

					return
				}
				if rc.Kind != "unified" && rc.Type == scen.CTAlert && len(rc.Body) == 2 && rc.Body[0] == 2 {
					sawAlert = true
				}
			}
		}
		if !sawAlert {
			r.Failf("C11|legacy-hello|no-alert|"+name, "server gave up on a DTLS 1.0-only hello (%v) without telling the peer: no fatal alert was emitted", herr)

			return
		}
		r.NonTrivial()
		r.Class(name)
	})
	if berr != nil {
		r.Failf(pbt.PanicSig("C11", []byte(berr.Stack)), "panic: %v\n%s", berr.Value, berr.Stack)
	}
}

func enumLegacy(_ string, yield func(LegacyCase) bool) {
	for _, rng := range [][2]int{{12, 12}, {12, 13}, {13, 13}} {
		for _, hv := range []bool{false, true} {
			for _, ext := range []bool{false, true} {
				if !yield(LegacyCase{SrvMin: rng[0], SrvMax: rng[1], SkipHV: hv, ViaExt: ext}) {
					return
				}
			}
		}
	}
}

func init() {
	pbt.Register(pbt.Prop[LegacyCase]{Name: "hello-outside-server-range", Enum: enumLegacy, Exhaustive: true, Run: runLegacy, Crashy: true,
		Rule: "GRID (3 server version ranges x hello verification on/off x legacy_version only / plus supported_versions): a genuine ClientHello rewritten to offer DTLS 1.0 only " +
			"(a version no endpoint of this library can be configured to offer); oracle: the server's handshake fails, no ServerHello is emitted, a fatal alert is. non-trivial = every case"})
}
